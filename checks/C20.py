"""C20 -- XInclude processing yields the specified merged tree and detects inclusion loops.
Theorems: coq/theories/C20/Properties_C20.v (model Model20.v follows src/xercesc/xinclude/XIncludeUtils.cpp,
spec Spec20.v = XInclude 1.0 section 4 over an abstract file system).
Correspondence: generated file trees under work/C20/<seed>/ are processed by bin/xh_C20 (XercesDOMParser, DOMLSParser
and XIncludeDOMDocumentProcessor of the real library) and by bin/xm_C20 (extracted model) -- answers compared line by
line; the oracle is the extracted *Spec* (xi_spec_doc), which also carries the base URI of every element, so that
every relative reference in the result can be resolved and compared with its original target (base fix-up)."""
import json
import os
import re
import shutil
import subprocess
import sys
import time
import urllib.parse

import vcommon as V

sys.path.insert(0, os.path.join(V.VERIF, "translator"))
import c20_switches as SW  # noqa

XI_NS = "http://www.w3.org/2001/XInclude"
WORK = os.path.join(V.VERIF, "work", "C20")


# ------------------------------------------------------------------------------------------------------------------
# abstract documents:  ("E", ns, local, [(ns, local, value)], [kids]) | ("T", text) | ("C", text)
# namespaces: 0 none, 1 XInclude, 2 xml, 3.. urn:n<k>
# ------------------------------------------------------------------------------------------------------------------
def E(ns, local, attrs=None, kids=None):
    return ("E", ns, local, list(attrs or []), list(kids or []))


def cps(s):
    return ".".join("%X" % ord(c) for c in s)


def ser_model(nodes):
    out = []
    for n in nodes:
        if n[0] == "E":
            out.append("(%d:%s" % (n[1], n[2]))
            for (ans, an, v) in n[3]:
                out.append("@%d:%s=%s" % (ans, an, cps(v)))
            out.append(";")
            out.append(ser_model(n[4]))
            out.append(")")
        elif n[0] == "T":
            out.append("T%s;" % cps(n[1]))
        elif n[0] == "C":
            out.append("C%s;" % cps(n[1]))
        # ("P", target, data): processing instructions exist in the files only; neither the model nor the dumps have them
    return "".join(out)


def esc(s, attr=False):
    s = s.replace("&", "&amp;").replace("<", "&lt;").replace(">", "&gt;")
    if attr:
        s = s.replace('"', "&quot;")
    return s


def qn(ns, local):
    if ns == 0:
        return local
    if ns == 1:
        return "xi:" + local
    if ns == 2:
        return "xml:" + local
    return "n%d:%s" % (ns, local)


def ser_xml(nodes, top=True, sep=""):
    """`sep`: white space written between the top-level nodes of the file (not part of any DOM or infoset)"""
    out = []
    for n in nodes:
        if top and out and sep:
            out.append(sep)
        if n[0] == "E":
            out.append("<" + qn(n[1], n[2]))
            if top:
                out.append(' xmlns:xi="%s" xmlns:n3="urn:n3" xmlns:n4="urn:n4"' % XI_NS)
            for (ans, an, v) in n[3]:
                out.append(' %s="%s"' % (qn(ans, an), esc(v, True)))
            if n[4]:
                out.append(">" + ser_xml(n[4], False) + "</" + qn(n[1], n[2]) + ">")
            else:
                out.append("/>")
        elif n[0] == "T":
            out.append(esc(n[1]))
        elif n[0] == "P":
            out.append("<?%s %s?>" % (n[1], n[2]))
        else:
            out.append("<!--" + n[1] + "-->")
    return "".join(out)


# ------------------------------------------------------------------------------------------------------------------
# paths
# ------------------------------------------------------------------------------------------------------------------
def norm(segs):
    st = []
    for s in segs:
        if s == ".." and st and st[-1] != "..":
            st.pop()
        else:
            st.append(s)
    return st


def resolve(base, ref):
    """base, ref: '/'-separated strings"""
    return "/".join(norm(base.split("/")[:-1] + ref.split("/")))


def relref(base, target):
    """a relative reference that, resolved against base, gives target (both paths from the root)"""
    b = base.split("/")[:-1]
    t = target.split("/")
    i = 0
    while i < len(b) and i < len(t) - 1 and b[i] == t[i]:
        i += 1
    return "/".join([".."] * (len(b) - i) + t[i:])


# ------------------------------------------------------------------------------------------------------------------
# generator
# ------------------------------------------------------------------------------------------------------------------
DIRSETS = [["", "a/", "a/c/", "s/"], ["", "d1/", "d1/d2/", "d1/d2/d3/", "e/"], ["", "x/"], ["p/", "p/q/", "r/"],
           ["k/", "k/l/", "k/m/", "k/l/n/"]]
TEXT_POOL = ["  \n", " ","a<b>&amp;", "1 < 2 && 3 > 2", "<xi:include href='zz'/>", "\u00e9t\u00e9 <caf\u00e9>", "]]>&lt;",
             "\u20ac 5 <\U0001F600>", "plain", "", "x\ny", "\u00ff\u00fe<&>"]
ENCODINGS = [("UTF-8", "utf-8"), ("UTF-16LE", "utf-16-le"), ("UTF-16BE", "utf-16-be"), ("ISO-8859-1", "latin-1")]


XB_VOCAB = ["q/", "../", "sub/dir/", "a/", "s/", "sub/"]


# characters that RFC 2396 allows unescaped in a path segment besides letters and digits (pchar = unreserved | escaped |
# ":" | "@" | "&" | "=" | "+" | "$" | ","; unreserved = alphanum | mark; mark = - _ . ! ~ * ' ( ))
PCHAR_EXTRA = "-_.!~*'()@&=+$,:"
PCT_ESCAPES = ["%20", "%41", "%7E", "%2C", "%3D"]     # (ASCII only: RFC 2396 leaves the charset of other octets open)


class Retry(Exception):
    """the random choices led to a reference that RFC 2396 does not allow (':' in the first segment of a relative path)"""


def decorate(rng, seg, allow_pct):
    """put characters of the pchar alphabet into a file or directory name (before the extension)"""
    if rng.random() < 0.45:
        return seg
    stem, dot, ext = seg.rpartition(".") if "." in seg else (seg, "", "")
    deco = "".join(rng.choice(PCHAR_EXTRA) for _ in range(rng.randrange(1, 4)))
    if allow_pct and rng.random() < 0.4:
        deco += rng.choice(PCT_ESCAPES)
    if rng.random() < 0.5:
        deco += rng.choice("xyz07")
    deco = deco.replace("..", ".")          # no ".." inside a name
    return stem + deco + dot + ext


def big_text(rng, codec, rounds):
    """text whose encoding fills `rounds` read rounds of 16384 bytes; for UTF-8, multi-byte characters are placed so that
    they straddle the buffer boundaries (start offsets -3..+3 and inside), several per file, the later boundaries being
    shifted by the bytes carried over from the earlier splits"""
    multi = {2: "\u00e9", 3: "\u20ac", 4: "\U0001F600"}
    filler = "abcdefghij<&>] \u00e9\u4e2d\U0001F601" if codec != "latin-1" else "abcdefghij<&>] \u00e9\u00ff"
    chars = []
    nbytes = 0
    blen = lambda ch: len(ch.encode(codec))
    boundary = 16384
    splits = 0
    for r in range(rounds - 1):
        L = rng.choice([2, 3, 4])
        ch = multi[L] if codec == "utf-8" else rng.choice(filler)
        L = blen(ch)
        if L > 1 and rng.random() < 0.7:
            start = boundary - rng.randrange(1, L)          # the character straddles the end of this read round
        else:
            start = boundary + rng.randrange(-L - 2, 4)     # ... or sits just before / after it
        if codec != "utf-8":
            start -= start % blen("a")
        while nbytes < start - 12:
            c0 = rng.choice(filler)
            chars.append(c0)
            nbytes += blen(c0)
        while nbytes < start:
            chars.append("a")
            nbytes += blen("a")
        chars.append(ch)
        carry = boundary - nbytes if nbytes < boundary < nbytes + L else 0
        if carry:
            splits += 1
        nbytes += L
        boundary = boundary + 16384 - carry
    tail = rng.choice([0, 1, 2, 5, 100, 3000, 9000])
    for _ in range(tail):
        c0 = rng.choice(filler)
        chars.append(c0)
    return "".join(chars), splits


class Case:
    """one generated file tree"""

    def __init__(self, rng, kind):
        self.rng = rng
        self.kind = kind
        self.docs = {}       # path -> nodes
        self.texts = {}      # path -> (str, label, codec, declare)
        self.features = set()
        self.top = None
        self.dotdot_cycle = False
        self.xbvals = set()
        self.dirs = set()    # directories named by xml:base values (created on disk, see finding C20-F4)

    # -- helpers ---------------------------------------------------------------------------------------------------
    def rnd_text(self):
        r = self.rng
        return r.choice(["t", "some text", "x<y", "a&b", "\u00e9", " ", "\u4e2d\u6587", "\U0001F600!", "q"])

    def new_text_file(self, dirs, big=False):
        r = self.rng
        p = r.choice(dirs) + decorate(r, "t%d.txt" % len(self.texts), True)
        s = r.choice(TEXT_POOL)
        if r.random() < 0.3:
            s = s + r.choice(TEXT_POOL)
        label, codec = r.choice(ENCODINGS)
        if big:
            label, codec = r.choice([ENCODINGS[0]] * 5 + ENCODINGS[1:])
            rounds = r.choice([1, 2, 2, 3, 3, 3, 4, 4, 5])
            s, splits = big_text(r, codec, rounds)
            self.features.add("text-%d-rounds" % rounds)
            self.features.add("text-%s-%d-split-characters" % (label, splits))
        if codec == "latin-1" and any(ord(c) > 255 for c in s):
            label, codec = "UTF-16BE", "utf-16-be"
        declare = not (codec == "utf-8" and r.random() < 0.5)
        self.texts[p] = (s, label, codec, declare)
        self.features.add("text-" + label)
        return p

    def include(self, base, target, parse=None, extra=None, kids=None, xmlbase=None):
        """an xi:include element placed where the base URI is `base`, designating `target`"""
        attrs = []
        eff = base
        if xmlbase == "@target":
            xmlbase = relref(base, target)       # the include's own xml:base names the target itself (C20-F2)
            self.features.add("include-xmlbase-names-target")
        if xmlbase is not None:
            attrs.append((2, "base", xmlbase))
            eff = resolve(base, xmlbase)
            if xmlbase.endswith("/"):
                self.dirs.add(eff)
            self.xbvals.add(xmlbase)
            self.features.add("include-with-xmlbase")
        attrs.append((0, "href", relref(eff, target)))
        if ":" in attrs[-1][2].split("/")[0] or (xmlbase and ":" in xmlbase.split("/")[0]):
            raise Retry()
        if ".." in attrs[-1][2]:
            self.features.add("href-dotdot")
        if parse:
            attrs.append((0, "parse", parse))
        attrs += list(extra or [])
        return E(1, "include", attrs, kids or [])

    def text_include(self, base, tpath, kids=None):
        s, label, codec, declare = self.texts[tpath]
        extra = [(0, "encoding", label)] if declare else []
        return self.include(base, tpath, "text", extra, kids)

    def fallback(self, kids):
        return E(1, "fallback", [], kids)

    def nest(self, node, label):
        """put `node` 0..4 ordinary elements deep (mixed with text): what is inside an xi:fallback stays inside it at
        every depth"""
        d = self.rng.choice([0, 1, 1, 2, 3, 4])
        self.features.add("%s-depth-%d" % (label, d))
        for k in range(d):
            node = E(self.rng.choice([0, 0, 3]), self.rng.choice("pqs"), [],
                     [("T", self.rnd_text())] * self.rng.randrange(0, 2) + [node] + [("T", "t")] * self.rng.randrange(0, 2))
        return node

    def filler(self, base, depth):
        """random ordinary content (no includes)"""
        r = self.rng
        out = []
        for _ in range(r.randrange(0, 3)):
            k = r.random()
            if k < 0.35:
                out.append(("T", self.rnd_text()))
            elif k < 0.45:
                out.append(("C", r.choice([" c ", "note", "x"])))
            elif k < 0.5:
                out.append(("P", r.choice(["pi", "style"]), r.choice(["a b", "x='1'"])))
                self.features.add("processing-instruction")
            else:
                out.append(self.elem(base, depth + 1, []))
        return out

    def elem(self, base, depth, payload):
        """an ordinary element around `payload` generators (callables base -> node list) and filler"""
        r = self.rng
        ns = r.choice([0, 0, 0, 3, 4])
        attrs = []
        if r.random() < 0.5:
            attrs.append((0, "ref", r.choice(["k.txt", "../up.png", "sub/x", "z"])))
            self.features.add("ref-attr")
        if r.random() < 0.15:
            attrs.append((ns if ns else 0, "id" if not ns else "w", "v%d" % r.randrange(9)))
        if r.random() < 0.12:
            xb = r.choice(["q/", "../", "sub/dir/", "a/", "q,1/", "s'(2)/", "p%20q/", "x@y&z=1+2$3/"])
            if not resolve(base, xb).startswith(".."):
                attrs.append((2, "base", xb))
                base = resolve(base, xb)
                if self.rng.random() < 0.75:
                    self.dirs.add(base)
                else:
                    self.features.add("xmlbase-dir-not-on-disk")      # finding C20-F4
                self.xbvals.add(xb)
                self.features.add("elem-xmlbase")
        kids = []
        if depth < 3:
            kids += self.filler(base, depth)
        for g in payload:
            kids.insert(r.randrange(len(kids) + 1), g)
        # payload entries are callables taking the base in force inside this element
        kids = [k(base) if callable(k) else k for k in kids]
        flat = []
        for k in kids:
            flat += k if isinstance(k, list) else [k]
        return E(ns, r.choice("abcdefgh"), attrs, flat)

    def wrap(self, base, gens, depth=0):
        """distribute the generators over a random element tree; returns one element"""
        r = self.rng
        if depth >= 2 or len(gens) <= 1 or r.random() < 0.4:
            return self.elem(base, depth, gens)
        k = r.randrange(1, len(gens) + 1)
        inner = gens[:k]
        rest = gens[k:]
        return self.elem(base, depth, rest + [lambda b: self.wrap(b, inner, depth + 1)])


WS = [" ", "\n", "\n  ", "\t", "\n\n    "]


def fallback_shape(c, b, docs, missing, tpaths, depth=0):
    """children of an xi:fallback in one of the shapes that matter where the xi:include is the document element:
    indented (white-space text before / between / after), one or several elements, only text, only comments, nothing,
    a text inclusion, a nested xi:include with its own (indented) fallback"""
    r = c.rng
    ws = lambda: ("T", r.choice(WS))
    el = lambda: E(r.choice([0, 0, 3]), r.choice("rstu"), [(0, "ref", "k.txt")] if r.random() < 0.3 else [],
                   [("T", "x")] if r.random() < 0.5 else [])
    shape = r.choice(["one", "one-indented", "one-indented", "two", "two-indented", "text-only", "ws-only", "comments-only",
                      "nothing", "text+element", "comment+element-indented", "nested", "nested-indented", "textinc+element",
                      "included-doc", "pi+element", "vanishing-include+element"])
    if depth >= 3 and shape.startswith("nested"):
        shape = "one-indented"
    c.features.add("fallback-shape-" + shape)
    if shape == "one":
        return [el()]
    if shape == "one-indented":
        return [ws(), el(), ws()]
    if shape == "two":
        return [el(), el()]
    if shape == "two-indented":
        return [ws(), el(), ws(), el(), ws()]
    if shape == "text-only":
        return [("T", r.choice(["some text", " t ", "x"]))]
    if shape == "ws-only":
        return [ws()]
    if shape == "comments-only":
        return [ws(), ("C", " only "), ws(), ("C", "2")]
    if shape == "nothing":
        return []
    if shape == "text+element":
        return [("T", r.choice(["t", " lead "])), el()]
    if shape == "comment+element-indented":
        return [ws(), ("C", " c "), ws(), el(), ws(), ("C", "d")]
    if shape == "pi+element":
        return [ws(), ("P", "fb", "pi"), ws(), el(), ws()]
    if shape == "textinc+element":
        if tpaths:
            return [c.text_include(b, r.choice(tpaths)), el()]
        return [ws(), el()]
    if shape == "vanishing-include+element":
        # legal in the end (one element), but two elements at the moment the fragment is inserted (finding C20-F8)
        van = c.include(b, r.choice(missing), kids=[c.fallback(r.choice([[], [ws()], [("C", "gone")]]))])
        return [ws(), van, ws(), el()] if r.random() < 0.5 else [el(), van]
    if shape == "included-doc":
        if docs:
            return [ws(), c.include(b, r.choice(docs)), ws()]
        return [ws(), el(), ws()]
    inner = c.include(b, r.choice(missing), kids=[ws(), c.fallback(fallback_shape(c, b, docs, missing, tpaths, depth + 1)), ws()]
                      if shape == "nested-indented" else [c.fallback(fallback_shape(c, b, docs, missing, tpaths, depth + 1))])
    return [ws(), inner, ws()] if shape == "nested-indented" else [inner]


def doc_shape_root(c, me, docs, missing, tpaths):
    """the top document of a `docshape` case: position of the xi:include (document element / first child of the root /
    nested deep) x shape of what replaces it (an included document or a fallback of any shape)"""
    r = c.rng
    if docs and r.random() < 0.3:
        inc = lambda b: c.include(b, r.choice(docs), kids=[c.fallback(fallback_shape(c, b, docs, missing, tpaths))]
                                  if r.random() < 0.4 else [])
        c.features.add("docshape-replaced-by-document")
    else:
        inc = lambda b: c.include(b, r.choice(missing), kids=[("T", r.choice(WS))] * r.randrange(0, 2) +
                                  [c.fallback(fallback_shape(c, b, docs, missing, tpaths))] + [("T", r.choice(WS))] * r.randrange(0, 2))
        c.features.add("docshape-replaced-by-fallback")
    pos = r.choice(["document-element"] * 5 + ["first-child", "first-child", "deep"])
    c.features.add("docshape-position-" + pos)
    if pos == "document-element":
        return inc(me)
    if pos == "first-child":
        return E(0, "root", [], [inc(me), ("T", "tail"), E(0, "z")])
    return E(0, "root", [], [("T", "\n "), E(3, "deep", [], [("C", "c"), E(0, "deeper", [], [("T", "t"), inc(me), ("T", " ")])])])


def gen_case(rng, kind):
    for _ in range(50):
        try:
            return gen_case1(rng, kind)
        except Retry:
            continue
    raise RuntimeError("generator: too many retries")


def gen_case1(rng, kind):
    c = Case(rng, kind)
    plain_dirs = ["w/v/" + d for d in rng.choice(DIRSETS)]   # two spare levels: faulty bases stay inside the case dir
    top_dir = rng.choice(plain_dirs)
    # directory names over the pchar alphabet; %XX escapes only outside the path of the top document (the harness hands
    # that path to the parser as a file name)
    segmap = {}

    def deco_dir(d):
        out = []
        for i, seg in enumerate([x for x in d.split("/") if x]):
            key = "/".join(d.split("/")[:i + 1])
            if key not in segmap:
                segmap[key] = decorate(rng, seg, not (top_dir.startswith(key + "/")))
                if segmap[key] != seg:
                    c.features.add("name-with-pchar-specials")
            out.append(segmap[key])
        return "/".join(out) + "/" if out else ""
    dirs = [deco_dir(d) for d in plain_dirs]
    top_dir = deco_dir(top_dir)
    ndocs = rng.randrange(2, 7)
    paths = []
    for i in range(ndocs):
        paths.append((top_dir if i == 0 else rng.choice(dirs)) + decorate(rng, "f%d.xml" % i, i > 0))
    if any("%" in p for p in paths):
        c.features.add("name-with-percent-escape")
    c.top = paths[0]
    ntexts = rng.randrange(0, 3) if kind not in ("text", "bigtext") else rng.randrange(1, 4)
    tpaths = [c.new_text_file(dirs, big=(kind == "bigtext" and t == 0)) for t in range(ntexts)]
    missing = [rng.choice(dirs) + "nope%d.xml" % i for i in range(2)]

    # edges of the inclusion graph
    edges = {i: [] for i in range(ndocs)}
    if kind.startswith("cycle"):
        L = int(kind[5:])
        # the cycle runs through documents s .. s+L-1 (s = 0: through the top document)
        while ndocs < L + 1:
            paths.append(rng.choice(dirs) + "f%d.xml" % ndocs)
            edges[ndocs] = []
            ndocs += 1
        s = rng.choice([0, 1]) if ndocs > L else 0
        if s + L > ndocs:
            s = 0
        for i in range(s):
            edges[i].append(i + 1)
        for i in range(s, s + L):
            edges[i].append(s + (i - s + 1) % L)
        c.features.add("cycle-len-%d" % L)
        c.features.add("cycle-through-top" if s == 0 else "cycle-below-top")
        # a few more forward edges
        for i in range(ndocs):
            for j in range(i + 1, ndocs):
                if rng.random() < 0.15:
                    edges[i].append(j)
    else:
        for i in range(ndocs):
            for j in range(i + 1, ndocs):
                if rng.random() < (0.6 if j == i + 1 else 0.3):
                    edges[i].append(j)
                    if rng.random() < 0.25:
                        edges[i].append(j)          # the same file twice: independent copies
                        c.features.add("repeated-include")

    for i in range(ndocs):
        me = paths[i]
        gens = []
        for j in edges[i]:
            tgt = paths[j]
            xb = None
            if rng.random() < 0.08 and not kind.startswith("cycle"):
                xb = rng.choice(["a/", "s/", "../", "@target", "s,2/", "d%20e/"])
                if xb != "@target" and resolve(me, xb).startswith(".."):
                    xb = None
            gens.append(lambda b, tgt=tgt, xb=xb: c.include(b, tgt, rng.choice([None, None, "xml"]), xmlbase=xb))
        for tp in tpaths:
            if rng.random() < (0.7 if kind in ("text", "bigtext") else 0.3):
                gens.append(lambda b, tp=tp: c.text_include(b, tp))
        if kind in ("missing", "mixed") or rng.random() < 0.1:
            for _ in range(rng.randrange(1, 3)):
                m = rng.choice(missing)
                style = rng.choice(["nofb", "fb", "fb", "emptyfb", "nested", "textmiss"])
                if kind == "clean-missing" and style == "nofb":
                    style = "fb"
                c.features.add("missing-" + style)
                if style == "nofb":
                    gens.append(lambda b, m=m: c.include(b, m))
                elif style == "emptyfb":
                    gens.append(lambda b, m=m: c.include(b, m, kids=[c.fallback([])]))
                elif style == "textmiss":
                    gens.append(lambda b, m=m: c.include(b, m, "text", kids=[c.fallback([("T", "tfb")])]))
                elif style == "fb":
                    def g(b, m=m, i=i):
                        k = c.filler(b, 2) + [("T", "fb")]
                        if edges[i] and rng.random() < 0.5:
                            k.append(c.nest(c.include(b, rng.choice([paths[rng.choice(edges[i])], rng.choice(missing)])),
                                            "include-in-used-fallback"))
                            c.features.add("include-in-used-fallback")
                        return c.include(b, m, kids=[("T", " "), c.fallback(k)])
                    gens.append(g)
                else:
                    def g(b, m=m, i=i):
                        m2 = rng.choice(missing)
                        inner_k = [("T", "in")] + c.filler(b, 2)
                        inner = c.include(b, m2, kids=[c.fallback(inner_k)] if rng.random() < 0.8 else [])
                        return c.include(b, m, kids=[c.fallback([("T", "out"), c.nest(inner, "nested-fallback"), E(0, "z")])])
                    gens.append(g)
        if kind == "unusedfb" or rng.random() < 0.15:
            # a fallback that is not used, with an include inside it (failing or not)
            if edges[i]:
                tgt = paths[rng.choice(edges[i])]
                inner_t = rng.choice([rng.choice(missing), tgt])
                c.features.add("unused-fallback-with-include")
                c.features.add("unused-fallback-inner-" + ("missing" if inner_t in missing else "resolvable"))
                gens.append(lambda b, tgt=tgt, inner_t=inner_t: c.include(
                    b, tgt, kids=[c.fallback([("T", "unused"), c.nest(c.include(b, inner_t), "include-in-unused-fallback")]
                                             + ([c.nest(c.include(b, rng.choice(missing)), "include-in-unused-fallback")]
                                                if rng.random() < 0.3 else []))]))
                if tpaths and rng.random() < 0.4:
                    # ... the same below a text inclusion that succeeds
                    gens.append(lambda b, tp=tpaths[0]: c.text_include(
                        b, tp, kids=[c.fallback([c.nest(c.include(b, rng.choice(missing)), "include-in-unused-fallback")])]))
        if kind == "invalid" and (i == 0 or rng.random() < 0.3):
            style = rng.choice(["badparse", "xptext", "xpxml", "twofb", "orphan", "nohref", "incchild", "xichild",
                                "twofb-resolvable", "xichild-resolvable", "incchild-resolvable", "twofb-text-resolvable"])
            c.features.add("invalid-" + style)
            tgt = paths[edges[i][0]] if edges[i] else missing[0]
            tp = tpaths[0] if tpaths else missing[1]
            if style == "badparse":
                gens.append(lambda b: c.include(b, tgt, rng.choice(["XML", "txt", "", "html"])))
            elif style == "xptext":
                gens.append(lambda b: c.include(b, tp, "text", [(0, "xpointer", "element(/1)")]))
            elif style == "xpxml":
                gens.append(lambda b: c.include(b, tgt, "xml", [(0, "xpointer", "xpointer(/a)")]))
            elif style == "twofb":
                gens.append(lambda b: c.include(b, missing[0], kids=[c.fallback([("T", "1")]), c.fallback([])]))
            elif style == "twofb-resolvable":       # 3.1: an error whether or not the resource can be obtained
                gens.append(lambda b: c.include(b, tgt, kids=[c.fallback([("T", "1")]), ("T", " "), c.fallback([])]))
            elif style == "xichild-resolvable":
                gens.append(lambda b: c.include(b, tgt, kids=[E(1, "other"), c.fallback([])]))
            elif style == "incchild-resolvable":
                gens.append(lambda b: c.include(b, tgt, kids=[c.include(b, missing[1]), c.fallback([])]))
            elif style == "twofb-text-resolvable":
                gens.append(lambda b: (c.text_include(b, tp, kids=[c.fallback([]), c.fallback([("T", "2")])]) if tpaths
                                       else c.include(b, tgt, kids=[c.fallback([]), c.fallback([])])))
            elif style == "orphan":
                gens.append(lambda b: c.fallback([("T", "orphan")]))
            elif style == "nohref":
                gens.append(lambda b: E(1, "include", [(0, "parse", "xml")], []))
            elif style == "incchild":
                gens.append(lambda b: c.include(b, missing[0], kids=[c.include(b, missing[1]), c.fallback([])]))
            else:
                gens.append(lambda b: c.include(b, missing[0], kids=[E(1, "other"), c.fallback([])]))
        rng.shuffle(gens)
        # shape of the document
        root_inc = (kind == "rootinc" and i <= 1) or rng.random() < 0.12
        if root_inc and gens:
            c.features.add("include-as-document-element" if i == 0 else "include-as-root-of-included-doc")
            root = gens[0](me)
        else:
            root = c.wrap(me, gens)
            if i > 0 and rng.random() < (0.5 if kind == "rootbase" else 0.05) and root[0] == "E":
                # the root of an included document carries its own xml:base (finding C20-F2)
                xb = rng.choice(["q/", "sub/", "../", "q,(1)/", "s%41b/"])
                if not any(a[0] == 2 for a in root[3]) and not resolve(me, xb).startswith(".."):
                    c.dirs.add(resolve(me, xb))
                    c.xbvals.add(xb)
                    root = c.wrap(resolve(me, xb), gens)
                    root = (root[0], root[1], root[2], [a for a in root[3] if a[0] != 2] + [(2, "base", xb)], root[4])
                    c.features.add("included-root-with-xmlbase")
        if kind == "docshape" and i == 0:
            root = doc_shape_root(c, me, paths[1:], missing, tpaths)
        nodes = [root]
        if rng.random() < (0.3 if kind != "docshape" else 0.6):
            nodes.insert(0, ("P", "top", "before"))
            c.features.add("top-level-pi")
        if rng.random() < (0.2 if kind != "docshape" else 0.5):
            nodes.append(("P", "top", "after"))
            c.features.add("top-level-pi")
        if rng.random() < 0.3:
            nodes.insert(0, ("C", " before "))
            c.features.add("top-level-comment")
        if rng.random() < 0.3:
            nodes.append(("C", " after "))
            c.features.add("top-level-comment")
        c.docs[me] = nodes      # (C20-F3 is repaired: its class is no longer kept out of the stream, see avoid_f3)
    hrefs_dd = "href-dotdot" in c.features
    c.dotdot_cycle = kind.startswith("cycle") and hrefs_dd
    return c


def may_vanish(n):
    """an xi:include whose replacement can be empty: it has an xi:fallback all of whose children may vanish"""
    if not (n[0] == "E" and n[1] == 1 and n[2] == "include"):
        return False
    for k in n[4]:
        if k[0] == "E" and k[1] == 1 and k[2] == "fallback" and all(may_vanish(x) for x in k[4]):
            return True
    return False


def avoid_f3(nodes):
    """[not applied any more since the fix: commit 380a995]
    finding C20-F3 (null dereference in the parser): was excluded from the generated stream by exactly this predicate --
    an xi:include that is the first child of its parent, is directly followed by character data and may be replaced by
    nothing.  A comment is put in front of it.  (The witness itself is replayed in a process of its own.)"""
    out = []
    for n in nodes:
        if n[0] == "E":
            kids = avoid_f3(n[4])
            if len(kids) >= 2 and may_vanish(kids[0]) and kids[1][0] == "T":
                kids = [("C", "f3")] + kids
            n = (n[0], n[1], n[2], n[3], kids)
        out.append(n)
    return out


ENC_TAG = {"utf-8": "8", "utf-16-le": "l", "utf-16-be": "b", "latin-1": "1"}


def fs_token(c, for_spec=False, light=False):
    """the abstract file system for bin/xm_C20 (paths as code points).  Text files: for the Spec the characters as python
    decodes the whole file (T...), for the model the raw bytes (B<enc>:hex), which it puts through the extracted
    read/transcode loop of doXIncludeTEXTFileDOM"""
    parts = []
    for p, nodes in c.docs.items():
        parts.append("%s=D%s" % (cps(p), ser_model(nodes)))
    for p, (s, label, codec, declare) in c.texts.items():
        if for_spec or (light and len(s) > 4096):
            # (light: the large files go through the extracted read loop in one of the three requests of a case only)
            parts.append("%s=T%s" % (cps(p), cps(s.encode(codec).decode(codec))))
        else:
            parts.append("%s=B%s:%s" % (cps(p), ENC_TAG[codec], s.encode(codec).hex().upper()))
    for p, b in file_bytes(c).items():
        if b is None:
            parts.append("%s=X" % cps(p))
    return "|".join(parts)


def file_bytes(c):
    out = {}
    for p, nodes in c.docs.items():
        sep = ["", "\n", "\n  \n", " \t"][sum(map(ord, p)) % 4]
        out[p] = ('<?xml version="1.0" encoding="UTF-8"?>\n' + ser_xml(nodes, True, sep) + (sep and "\n")).encode("utf-8")
    for p, (s, label, codec, declare) in c.texts.items():
        out[p] = s.encode(codec)
    # directories that exist: the parents of every file and every directory that an intended xml:base names
    # (finding C20-F4: a directory that is only named on the way, "nodir/../x", must exist for the code)
    ds = set()
    for d in list(c.dirs) + [p.rsplit("/", 1)[0] + "/" for p in list(c.docs) + list(c.texts) if "/" in p]:
        segs = [x for x in d.split("/") if x]
        for i in range(1, len(segs) + 1):
            ds.add("/".join(segs[:i]) + "/")
    for d in ds:
        if d:
            out[d if d.endswith("/") else d + "/"] = None       # a directory
    return out


def materialise(root, files):
    for p, b in files.items():
        full = os.path.join(root, urllib.parse.unquote(p))          # %XX escapes of the URI name the real character
        os.makedirs(os.path.dirname(full), exist_ok=True)
        if b is None:
            continue
        with open(full, "wb") as f:
            f.write(b)


def run_bin(binpath, lines):
    p = subprocess.run([binpath], input=("\n".join(lines) + "\n").encode(), stdout=subprocess.PIPE,
                       stderr=subprocess.PIPE, timeout=3000)
    return p.returncode, p.stdout.decode("utf-8", "replace").splitlines(), p.stderr.decode("utf-8", "replace")


def run_harness(ctx, xh, lines):
    """run bin/xh_C20; when the shared library is being relinked by a concurrently running check (loader error, status
    127) wait for the library build lock and try again"""
    for attempt in range(4):
        rc, out, err = run_bin(xh, lines)
        if rc == 127 or "error while loading shared libraries" in err:
            ctx.note("library not loadable (%s); waiting for the build and retrying" % err.strip()[-120:])
            time.sleep(5)
            ctx.build_lib()
            continue
        return rc, out, err
    return rc, out, err


# ------------------------------------------------------------------------------------------------------------------
# answers
# ------------------------------------------------------------------------------------------------------------------
RE_B = re.compile(r" b=[^ )]*")
RE_R = re.compile(r" r=[^ )]*")


def split_answer(a):
    """'E[..] [X:..] D tree' -> (errs list, exc, tree)"""
    m = re.match(r"^E\[([^\]]*)\]((?: X:\S+)*)(?: (Q\[[^\]]*\]))? D(.*)$", a)
    if not m:
        return None
    errs = [e for e in m.group(1).split(",") if e]
    return errs, m.group(2).strip(), m.group(4), m.group(3) or ""


def fatal(ans):
    errs, exc, tree = ans[:3]
    return bool(exc) or any(e.endswith("/f") for e in errs)


SPEC_CODES = {"Loop": {"CircularInclusionLoop", "CircularInclusionDocIncludesSelf"}, "NoHref": {"NoHref"},
              "XPointer": {"XPointerNotSupported"}, "BadParse": {"InvalidParseVal"},
              "MultiFallback": {"MultipleFallbackElems"}, "DisallowedChild": {"DisallowedChild"},
              "OrphanFallback": {"OrphanFallback"}, "NoFallback": {"IncludeFailedNoFallback"}, "RootShape": {"-"}}


def spec_verdict(spec, ans):
    """does the answer `ans` (split) satisfy the Spec's answer `spec` (text)?  returns (ok, why)"""
    if len(ans) > 3 and ans[3].startswith("Q[BAD"):
        # whatever the tree looks like when walked from the document node: the DOM left behind is inconsistent
        return False, "the resulting DOM is inconsistent or unusable: " + ans[3]
    if ans[1]:
        # XInclude problems are to be reported through the error handler; an exception that leaves parse() /
        # doXIncludeDOMProcess is neither a merged tree nor a report (findings C20-F8 / C20-F9 when the model mirrors it)
        return False, "an exception escapes: " + ans[1] + ("; the Spec accepts the document" if spec.startswith("S ok")
                                                           else "; the Spec: fatal error " + spec[6:])
    if spec.startswith("S err"):
        if not fatal(ans):
            return False, "the Spec demands a fatal error (%s), none was reported" % spec[6:]
        # the error class that the Spec meets first must be among the reported codes (Coq: reports)
        want = SPEC_CODES.get(spec[6:])
        # (a DOMException -- the replacement of the document element is not a document -- ends the processing
        # before later errors can be met)
        if want and not any(e.split("/")[0] in want for e in ans[0]) and not ans[1]:
            return False, "the Spec's error class %s is not among the reported codes %s" % (spec[6:], ans[0])
        return True, ""
    ms = re.match(r"^S ok w=(\d+),(\d+) D(.*)$", spec)
    if not ms:
        return False, "spec oracle failed: " + spec
    want = ms.group(3)
    if fatal(ans):
        return False, "legal inclusion reported as fatal error / exception: %s %s" % (ans[0], ans[1])
    # the diagnostics of an accepted document are exactly the resource errors recovered through xi:fallback: nothing
    # may be reported for content that is never processed (an unused xi:fallback)
    wantd = sorted(["IncludeFailedResourceError/w"] * int(ms.group(1)) + ["CannotOpenFile/w"] * int(ms.group(2)))
    if sorted(ans[0]) != wantd:
        return False, ("diagnostics differ from the Spec: reported %s, specified: %d resource error(s) recovered by "
                       "xi:fallback (%d of them for text inclusions)" % (sorted(ans[0]), int(ms.group(1)), int(ms.group(2))))
    got = RE_B.sub(" b=*", ans[2])
    if got == want:
        return True, ""
    if RE_R.sub("", got) == RE_R.sub("", want):
        return False, "merged tree is right but base URIs differ (relative references resolve to other targets)"
    return False, "merged tree differs from the specified expansion"


# Defect switches of the model (Model20.v): a letter = the repaired behaviour is on.
#   b C20-F2 (own xml:base of an included root), n C20-F4 (dir/.. normalised), e C20-F1 (fallback content left alone by
#   the parser), c C20-F7 (fix-up test uses the base URI at the parent of xi:include)
# CURRENT = what /repo implements: read from its source on every run by translator/c20_switches.py (at the time of
# writing b, n, e are repaired by fix: commits; c is a known finding with a proposed patch).
CURRENT = "bne"
SWITCH_FINDING = {"b": "C20-F2", "n": "C20-F4", "e": "C20-F1", "c": "C20-F7"}


def toggles(m):
    """all non-empty sets of switches to toggle, smallest first ('e' only concerns the parser-driven modes)"""
    import itertools
    sw = "bnce" if m in ("x", "l") else "bnc"
    out = []
    for n in range(1, len(sw) + 1):
        out += ["".join(t) for t in itertools.combinations(sw, n)]
    return out


def flags_with(toggle):
    return "".join(sorted(set(CURRENT) ^ set(toggle)))


CASE_KINDS = [("plain", 22), ("text", 10), ("missing", 12), ("clean-missing", 6), ("unusedfb", 12), ("invalid", 10),
              ("rootinc", 14), ("docshape", 16), ("bigtext", 4), ("rootbase", 5), ("cycle1", 5), ("cycle2", 5), ("cycle3", 4), ("cycle4", 3),
              ("cycle5", 3), ("mixed", 3)]


def run(ctx):
    t0 = time.time()
    ctx.coverage["trusted_base"] = list(V.GLOBAL_TRUSTED_BASE) + [
        "modelled rather than verified: the XML parser that reads each included file (the abstract file system maps a "
        "path to the parsed top-level nodes), transcoding of text inclusions (C05), XMLUri resolution (modelled as "
        "segment-list resolution), DOM importNode/replaceChild (modelled as list replacement), normalizeDocument "
        "(adjacent text nodes are merged by both dumpers)"]
    ctx.assumptions = ["hrefs and xml:base values are relative path references without '.', query or fragment",
                       "xpointer (beyond its rejection) and accept/accept-language are outside the model; the "
                       "implementation does not support them either"]
    ctx.build_lib()
    global CURRENT
    try:
        CURRENT, ev = SW.detect(V.REPO)
        ctx.note("switches read from the source: %r (%s)" % (CURRENT, ev))
        ctx.coverage["model_switches_from_source"] = {"flags": CURRENT, "evidence": ev}
    except Exception as e:
        ctx.violation("translator", {"what": "translator/c20_switches.py can no longer read the XInclude source",
                                     "error": repr(e)}, no_input=True)
        return
    # Text20.v builds on C05's transcoder models, whose tables are regenerated from /repo
    try:
        import tables as T05
        T05.gen_utf8()
        T05.gen_tables()
        import c20_uritables as UT
        UT.generate(V.REPO)
    except Exception as e:
        ctx.violation("translator", {"what": "translator can no longer read the transcoder / URI tables", "error": repr(e)},
                      no_input=True)
        return
    ok, out, failed = ctx.prove(["Base", "Gen", "C05", "C20"],
                                ["theories/C20/Properties_C20.vo", "theories/C20/Extract_C20.vo"],
                                props_file="theories/C20/Properties_C20.v")
    proof_broken = not ok
    if proof_broken:
        ctx.note("proof obligations failed: %s" % failed)
        ctx.note(out[-1500:])
    xm = ctx.ocaml("C20", ["gen_c20"])
    xh = ctx.harness("C20")

    acc = {}
    nchunks = 1 if (ctx.tier == "quick" or ctx.replay) else 30          # 400 file trees per chunk (about 40 s each)
    for chunk in range(nchunks):
        work = os.path.join(WORK, "%s-%d-%d" % (ctx.seed, os.getpid(), chunk))
        shutil.rmtree(work, ignore_errors=True)
        os.makedirs(work, exist_ok=True)
        try:
            _correspond(ctx, xm, xh, work, acc, chunk)
        finally:
            shutil.rmtree(work, ignore_errors=True)
            try:
                os.rmdir(WORK)
            except OSError:
                pass
        if ctx.violations:
            break
    _report(ctx, acc, proof_broken, failed, out)
    ctx.coverage["exhaustive"] = False
    ctx.note("correspondence done in %.1fs (%d chunk(s))" % (time.time() - t0, chunk + 1))


def literal_witnesses(ctx, xm, xh, work):
    """witnesses of findings that make the implementation differ from the (repaired) model; each one runs in a process
    of its own (C20-F3 kills the process).  KNOWN-FINDING is printed only when the witness reproduces."""
    def one(name, docs, texts, top, modes):
        c = Case(ctx.rng, "witness")
        c.docs = docs
        c.texts = texts
        c.top = top
        root = os.path.join(work, name) + "/"
        files = file_bytes(c)
        materialise(root, files)
        tok = fs_token(c)
        res = []
        for m in modes:
            line = "%s %s:%s p %s %s %s" % (name, m, CURRENT, root, top, tok)
            prc, io, _ = run_harness(ctx, xh, [line])
            _, mo, _ = run_bin(xm, [line])
            _, so, _ = run_bin(xm, ["%s s p - %s %s" % (name, top, fs_token(c, True))])
            res.append((m, prc, io[0] if io else None, mo[0], so[0], files, tok))
            ctx.count()
        return res

    def pay(m, top, tok, files, extra):
        d = {"request": "c0 %s p <work>/c0/ %s <fs>" % (m, top), "mode": m, "top": top, "fs": tok, "kind": "witness",
             "files": {p: (None if b is None else b.hex()) for p, b in files.items()}}
        d.update(extra)
        return d

    # C20-F3: xi:include as first child, replaced by nothing (empty fallback), followed by character data
    docs = {"w/f0.xml": [E(0, "a", [], [E(1, "include", [(0, "href", "nope.xml")], [E(1, "fallback")]), ("T", "text")])]}
    for m, rc, i, mo, sp, files, tok in one("wF3", docs, {}, "w/f0.xml", ["x", "l", "d"]):
        if i is None or rc != 0:
            if ctx.find_known("C20-F3") and m in ("x", "l"):
                ctx.known_finding("C20-F3", "parser crashes (null fCurrentNode in AbstractDOMParser::docCharacters, process "
                                  "ended with status %s) on <a><xi:include href='nope.xml'><xi:fallback/></xi:include>text</a>: "
                                  "endElement sets fCurrentNode = fCurrentParent->getLastChild() = 0 after the include was "
                                  "removed" % rc)
            else:
                ctx.violation("C20-F3", pay(m, "w/f0.xml", tok, files, {"impl": "process ended with status %s" % rc,
                              "model": mo, "spec": sp, "what": "the parser crashes on an xi:include that is replaced by "
                              "nothing and is followed by character data"}))
        elif i != mo:
            ctx.violation("divergence", pay(m, "w/f0.xml", tok, files, {"impl": i, "model": mo, "spec": sp,
                          "what": "witness of C20-F3 neither crashes nor gives the specified result"}))
    # C20-F6, several rounds: characters split by the first and by the second read, 4 rounds (the carried-over bytes of
    # one round must not be prepended again in the next one)
    txt4 = "a" * 16383 + "\u00e9" + "b" * (32767 - 16385 - 2) + "\u20ac" + "c" * 20000 + "\U0001F600" + "d" * 5
    docs = {"w/f0.xml": [E(0, "a", [], [E(1, "include", [(0, "href", "big4.txt"), (0, "parse", "text")], [])])]}
    for m, rc, i, mo, sp, files, tok in one("wF6r", docs, {"w/big4.txt": (txt4, "UTF-8", "utf-8", False)}, "w/f0.xml",
                                            ["x", "l", "d"]):
        ia = split_answer(i) if i else None
        if i != mo or ia is None or not spec_verdict(sp, ia)[0]:
            ctx.violation("divergence", pay(m, "w/f0.xml", tok, files, {"impl": (i or "")[:300] + " ... " + (i or "")[-200:],
                          "model": mo[:100] + " ... " + mo[-200:], "spec": sp[-200:],
                          "what": "text inclusion over four read rounds with characters split by two of them differs "
                          "from the decoding of the whole file"}))
    # C20-F6: text inclusion whose UTF-8 bytes straddle the 16384-byte read buffer
    txt = "a" * 16383 + "\u00e9" + "bcd"
    docs = {"w/f0.xml": [E(0, "a", [], [E(1, "include", [(0, "href", "big.txt"), (0, "parse", "text")], [])])]}
    for m, rc, i, mo, sp, files, tok in one("wF6", docs, {"w/big.txt": (txt, "UTF-8", "utf-8", False)}, "w/f0.xml",
                                            ["x", "l", "d"]):
        if i == mo:
            continue
        ia, ma = (split_answer(i) if i else None), split_answer(mo)
        it = re.search(r" T([0-9A-F.]*)\)", ia[2]) if ia else None
        mt = re.search(r" T([0-9A-F.]*)\)", ma[2])
        if it and mt and mt.group(1).startswith(it.group(1)) and len(it.group(1)) < len(mt.group(1)) and ia[0] == []:
            lost = (len(mt.group(1)) - len(it.group(1))) // 3
            if ctx.find_known("C20-F6"):
                ctx.known_finding("C20-F6", "text inclusion silently loses the end of a file when a multi-byte character "
                                  "straddles the 16384-byte read buffer (doXIncludeTEXTFileDOM transcodes nRead instead of "
                                  "nOffset+nRead bytes): 16383 x 'a' + U+00E9 + 'bcd' arrives without its last %d "
                                  "character(s)" % lost)
            else:
                ctx.violation("C20-F6", pay(m, "w/f0.xml", tok, files, {"impl": i[:200] + " ... " + i[-200:],
                              "model": mo[-200:], "spec": sp[-200:], "what": "text inclusion truncated"}))
        else:
            ctx.violation("divergence", pay(m, "w/f0.xml", tok, files, {"impl": (i or "")[-400:], "model": mo[-400:],
                          "spec": sp[-400:], "what": "witness of C20-F6 differs from the model in an unexpected way"}))


def _correspond(ctx, xm, xh, work, acc, chunk):
    """one chunk of 400 generated file trees (or the replayed case); statistics are accumulated in acc"""
    rng = ctx.rng
    if not ctx.replay and chunk == 0:
        literal_witnesses(ctx, xm, xh, work)
    tG = time.time()
    light_tok = []
    cases = []           # (kind, case-dir, top, fstoken, files, features, relaxed)
    if ctx.replay:
        r = json.load(open(ctx.replay))
        files = {p: (None if h is None else bytes.fromhex(h)) for p, h in r["files"].items()}
        cases.append((r.get("kind", "replay"), "c0/", r["top"], r["fs"], files, set(r.get("features", [])),
                      r.get("fs_spec", r["fs"])))
        modes = [r.get("mode", "x")]
    else:
        n = 400
        if chunk == 0:
            # literal witnesses of the known findings C20-F5 and C20-F7 are replayed first on every run
            for wk, wdocs in (("witness-F5", {"w/f0.xml": [E(1, "include", [(0, "href", "nope.xml")], [E(1, "fallback")])]}),
                              ("witness-F7", {"w/f0.xml": [E(0, "a", [], [E(1, "include", [(2, "base", "s/x.xml"),
                                                                                    (0, "href", "x.xml")], [])])],
                                              "w/s/x.xml": [E(0, "x", [(0, "ref", "k")], [])]}),
                              # an unused xi:fallback whose failing xi:include sits under ordinary elements: no diagnostics
                              ("witness-lazy-fallback", {"w/f0.xml": [E(0, "r", [], [E(1, "include", [(0, "href", "ok.xml")], [
                                  E(1, "fallback", [], [E(0, "p", [], [("T", "t"), E(0, "q", [], [
                                      E(1, "include", [(0, "href", "missing.xml")], [])])])])])])],
                                                         "w/ok.xml": [E(0, "k")]}),
                              # document element replaced by an indented fallback: white space, element, white space
                              ("witness-root-indented-fallback", {"w/f0.xml": [("C", " c0 "), ("P", "pi0", "x"), E(1, "include", [(0, "href", "nope.xml")], [
                                  ("T", "\n "), E(1, "fallback", [], [("T", "\n  "), E(0, "r"), ("T", "\n ")]), ("T", "\n")]), ("C", " c9 ")]}),
                              # ... nested fallbacks, indented
                              ("witness-root-nested-fallback", {"w/f0.xml": [E(1, "include", [(0, "href", "nope.xml")], [E(1, "fallback", [], [
                                  ("T", "\n "), E(1, "include", [(0, "href", "nope2.xml")], [E(1, "fallback", [], [("T", "\n  "), E(0, "n"), ("T", " ")])]),
                                  ("T", "\n")])])]}),
                              # C20-F9: two elements / text at the document element position
                              ("witness-F9", {"w/f0.xml": [E(1, "include", [(0, "href", "nope.xml")], [E(1, "fallback", [], [
                                  E(0, "r"), E(0, "s")])])]}),
                              # C20-F8: legal in the end, refused on the way
                              ("witness-F8", {"w/f0.xml": [E(1, "include", [(0, "href", "nope.xml")], [E(1, "fallback", [], [
                                  E(1, "include", [(0, "href", "nope2.xml")], [E(1, "fallback", [], [("C", "gone")])]), E(0, "r")])])]}),
                              # two xi:fallback children are an error also when the resource can be obtained (3.1)
                              ("witness-twofb-resolvable", {"w/f0.xml": [E(0, "r", [], [E(1, "include", [(0, "href", "ok.xml")], [
                                  E(1, "fallback", [], [("T", "1")]), E(1, "fallback", [], [])])])],
                                                            "w/ok.xml": [E(0, "k")]})):
                c = Case(rng, wk)
                c.docs = wdocs
                c.top = "w/f0.xml"
                cases.append((wk, "w%d/" % len(cases), c.top, fs_token(c), file_bytes(c), {wk}, fs_token(c, True)))
        kinds = [k for k, w in CASE_KINDS for _ in range(w)]
        for i in range(n):
            kind = kinds[i % len(kinds)] if i < 2 * len(kinds) else rng.choice(kinds)
            c = gen_case(rng, kind)
            cases.append((kind, "c%d/" % i, c.top, fs_token(c), file_bytes(c), c.features, fs_token(c, True)))
            while len(light_tok) < len(cases) - 1:
                light_tok.append(None)
            light_tok.append(fs_token(c, light=True) if any(len(t[0]) > 4096 for t in c.texts.values()) else None)
        modes = ["x", "l", "d"]
    reqs = []
    tW = time.time()
    ctx.note("generation %.1fs" % (tW - tG))
    for k, (kind, cdir, top, fstok, files, feats, relaxed) in enumerate(cases):
        root = os.path.join(work, cdir)
        materialise(root, files)
        for m in modes:
            src = "pu"[(k + len(m)) % 2] if not ctx.replay else "p"
            if any(":" in fp for fp in files):
                # a plain file name with ':' is not a URI reference (XMLUri takes what precedes the colon for a scheme);
                # such trees are only handed over as file: URLs
                src = "u"
            tok = fstok if (m == modes[0] or k >= len(light_tok) or light_tok[k] is None) else light_tok[k]
            reqs.append((k, m, "c%d %s:%s %s %s %s %s" % (k, m, CURRENT, src, root, top, tok)))
    lines = [r[2] for r in reqs]
    tA = time.time()
    rc1, impl, err1 = run_harness(ctx, xh, lines)
    ctx.note("files written %.1fs, harness %.1fs" % (tA - tW, time.time() - tA))
    if rc1 != 0 or len(impl) != len(lines):
        bad = reqs[min(len(impl), len(reqs) - 1)]
        kind, cdir, top, fstok, files, feats, relaxed = cases[bad[0]]
        ctx.violation("harness-crash", {"what": "implementation harness crashed or lost lines (request = first "
                                        "unanswered)", "rc": rc1, "stderr": err1[-2000:], "answered": len(impl),
                                        "mode": bad[1], "top": top, "fs": fstok, "kind": kind,
                                        "files": {p: (None if b is None else b.hex()) for p, b in files.items()}})
        return
    tM0 = time.time()
    rc2, model, err2 = run_bin(xm, lines)
    tM1 = time.time()
    if rc2 != 0 or len(model) != len(lines):
        ctx.violation("model-crash", {"what": "model driver crashed", "stderr": err2[-2000:]}, no_input=True)
        return
    # the Spec and the switched models on every case (cheap)
    spec_lines = ["c%d s p - %s %s" % (k, c[2], c[6]) for k, c in enumerate(cases)]
    rc3, spec, err3 = run_bin(xm, spec_lines)
    # the model with one defect switch flipped (X, DD: repaired xml:base fix-up; d, DD: no eager processing) -- computed
    # on demand, only for the cases that need an attribution
    # how many of the cases satisfy the decidable hypotheses of T20_expansion_parser (Hyps20.under_theorem)
    _, hyp, _ = run_bin(xm, ["c%d h p - %s %s" % (k, c[2], c[6]) for k, c in enumerate(cases)])
    hc = acc.setdefault("under_theorem", {"cases": 0, "under_T20_expansion_parser": 0, "clean_fs": 0, "clean_doc": 0})
    hc["cases"] += len(cases)
    hc["under_T20_expansion_parser"] += sum(1 for h in hyp if "under_theorem=true" in h)
    hc["clean_fs"] += sum(1 for h in hyp if "clean_fs=true" in h)
    hc["clean_doc"] += sum(1 for h in hyp if "clean_doc=true" in h)
    alt_cache = {}
    # the model with switches toggled, for every case on which the model or the implementation deviates from the Spec
    need = sorted({(k, m) for (k, m, line), i, mo in zip(reqs, impl, model)
                   if i != mo or split_answer(i) is None or not spec_verdict(spec[k], split_answer(i))[0]})
    need = need[:40]          # (an attribution is only attempted for the first deviating requests)
    batch = [(k, m, t) for (k, m) in need for t in toggles(m)]
    if batch:
        _, o4, _ = run_bin(xm, ["c%d %s:%s p - %s %s" % (k, "d" if m == "d" else "x", flags_with(t), cases[k][2],
                                                        cases[k][3]) for k, m, t in batch])
        for (k, m, t), o in zip(batch, o4):
            alt_cache[(k, m, t)] = o
    ctx.note("model %.1fs, spec+switched models %.1fs (%d requests)" % (tM1 - tM0, time.time() - tM1, len(need)))

    def alt(k, m, t):
        return alt_cache.get((k, m, t), "model-failed")

    kinds = acc.setdefault("kinds", {})
    featc = acc.setdefault("features", {})
    divergences = []
    repaired_n = acc.setdefault("repaired", {})
    verdicts = acc.setdefault("verdicts", {"spec-ok": 0, "spec-error": 0})
    finding_hits = {"C20-F1": [], "C20-F2": [], "C20-F4": [], "C20-F5": [], "C20-F7": [], "C20-F8": [], "C20-F9": []}
    unexplained_spec = []
    for (k, m, line), i, mo in zip(reqs, impl, model):
        kind, cdir, top, fstok, files, feats, relaxed = cases[k]
        ctx.count()
        kinds[kind] = kinds.get(kind, 0) + 1
        for f in feats:
            featc[f] = featc.get(f, 0) + 1
        ia = split_answer(i)
        if ia is None:
            divergences.append((k, m, i, mo, "unparsable answer"))
            continue
        if "xi:include" in line or "(1:include" in line:
            ctx.distinct((m, top, fstok))
        sp = spec[k]
        verdicts["spec-ok" if sp.startswith("S ok") else "spec-error"] += 1
        same = (i == mo)
        if not same:
            # does the implementation behave like the model with some switches toggled?
            hit = [t for t in toggles(m) if alt(k, m, t) == i]
            if hit:
                t = hit[0]
                undone = [SWITCH_FINDING[c] for c in t if c in CURRENT]
                if not undone and spec_verdict(sp, ia)[0]:
                    repaired_n[t] = repaired_n.get(t, 0) + 1          # a proposed repair was applied: fine
                    continue
                divergences.append((k, m, i, mo, "behaves like the model with the repair of %s switched off"
                                    % ",".join(undone) if undone else ""))
                continue
            divergences.append((k, m, i, mo, ""))
            continue
        okv, why = spec_verdict(sp, ia)
        if okv:
            continue
        # impl == model != Spec: attribute to a finding by toggling exactly that finding's switch in the model

        def sat(ans_text):
            a = split_answer(ans_text)
            return a is not None and spec_verdict(sp, a)[0]
        if sp == "S err RootShape" and not fatal(ia) and "(" not in ia[2]:
            finding_hits["C20-F5"].append((k, m, why))        # the result has no document element at all
            continue
        if ia[1] == "X:DOMException:3":
            # impl == model: DOMDocumentImpl refuses the replacement of the document element and the exception escapes
            finding_hits["C20-F8" if sp.startswith("S ok") else "C20-F9"].append((k, m, why))
            continue
        for t in toggles(m):
            if all(c not in CURRENT for c in t) and sat(alt(k, m, t)):
                for c in t:
                    finding_hits[SWITCH_FINDING[c]].append((k, m, why))
                break
        else:
            unexplained_spec.append((k, m, i, sp, why))

    acc["requests"] = acc.get("requests", 0) + len(lines)
    acc["impl_fatal"] = acc.get("impl_fatal", 0) + sum(1 for a in impl if "/f" in a or " X:" in a)
    for k in (0, len(reqs) // 2, len(reqs) - 1):
        if k < len(reqs):
            ctx.sample({"kind": cases[reqs[k][0]][0], "mode": reqs[k][1], "top": cases[reqs[k][0]][2],
                        "fs": cases[reqs[k][0]][3][:600], "impl": impl[k][:600], "spec": spec[reqs[k][0]][:300]})

    def payload(k, m, extra):
        kind, cdir, top, fstok, files, feats, relaxed = cases[k]
        d = {"request": "c0 %s p <work>/c0/ %s <fs>" % (m, top), "mode": m, "top": top, "fs": fstok, "kind": kind,
             "features": sorted(feats), "fs_spec": relaxed, "files": {p: (None if b is None else b.hex()) for p, b in files.items()}}
        d.update(extra)
        return d

    viol = 0
    unexplained = []
    for k, m, i, mo, note in divergences:
        ia = split_answer(i)
        okv, why = (False, "unparsable") if ia is None else spec_verdict(spec[k], ia)
        if not okv:
            viol += 1
            if viol <= 5:
                ctx.violation("divergence", payload(k, m, {"impl": i, "model": mo, "spec": spec[k], "why": why,
                              "note": note, "what": "implementation differs from the model and violates the Spec"}))
        else:
            unexplained.append((k, m, i, mo))
    if unexplained and not viol:
        k, m, i, mo = unexplained[0]
        ctx.violation("correspondence", payload(k, m, {"impl": i, "model": mo, "spec": spec[k],
                      "count": len(unexplained), "what": "model and implementation differ although the implementation "
                      "satisfies the Spec: the correspondence xh_C20~xm_C20 no longer holds"}), no_input=True)
    for k, m, i, sp, why in unexplained_spec[:5]:
        ctx.violation("spec", payload(k, m, {"impl": i, "spec": sp, "why": why,
                      "what": "implementation (and the faithful model) violate the Spec and no known finding explains it"}))
    for fid, hits in finding_hits.items():
        if not hits:
            continue
        rec = acc.setdefault("findings", {}).setdefault(fid, {"n": 0, "first": None})
        rec["n"] += len(hits)
        if rec["first"] is None:
            k, m, why = hits[0]
            rec["first"] = (cases[k][0], payload(k, m, {"impl": impl[[r[0:2] for r in reqs].index((k, m))],
                                                        "spec": spec[k], "why": why}))
    ctx.note("%d requests, %d divergences, findings %s, unexplained spec deviations %d" % (
        len(lines), len(divergences), {f: len(h) for f, h in finding_hits.items()}, len(unexplained_spec)))


FINDING_TEXTS = {"C20-F1": "includes inside an xi:fallback are processed when their end tag is parsed, even if the fallback "
                   "is never used: their errors (e.g. IncludeFailedNoFallback, fatal) are reported for a document "
                   "whose inclusion succeeds",
         "C20-F2": "xml:base fix-up of an included document element that carries its own relative xml:base omits "
                   "the directory of the included file: the element's base URI (and every relative reference or "
                   "nested href below it) resolves to a different target"}
FINDING_TEXTS["C20-F7"] = ("whether the included document element needs an xml:base is decided by comparing the base URI of "
                   "the xi:include element itself (moved by its own xml:base) with the included document: an include "
                   "whose own xml:base names the target gets no fix-up and the included content takes the base URI "
                   "of the including document")
FINDING_TEXTS["C20-F4"] = ("the href is appended to the directory of the base URI and opened without removing 'seg/..': a "
                   "reference like ../x fails when the base names a directory that does not exist (xml:base), "
                   "although it resolves to an existing file")
FINDING_TEXTS["C20-F8"] = ("an xi:include that is the document element is replaced through a DocumentFragment *before* the "
                           "replacement is processed: when the fragment holds two elements of which one is an xi:include "
                           "that later vanishes or becomes text/comments (so that the final result is a legal document), "
                           "DOMDocumentImpl refuses it and DOMException(HIERARCHY_REQUEST_ERR) leaves parse()")
FINDING_TEXTS["C20-F9"] = ("an illegal replacement of the document element (two elements, text that is not white space; "
                           "XInclude 4.5.1: fatal error) is not reported through the error handler: "
                           "DOMException(HIERARCHY_REQUEST_ERR) escapes from parse() / parseURI() / doXIncludeDOMProcess")
FINDING_TEXTS["C20-F5"] = ("an xi:include that is the document element and is replaced by nothing (empty xi:fallback) leaves a "
                   "document without document element and no error is reported (XInclude 4.5.1 demands a fatal error)")


def _report(ctx, acc, proof_broken, failed, out):
    ctx.coverage["traces_validated_against_impl"] = acc.get("requests", 0)
    ctx.coverage["spec_oracle_checked"] = acc.get("requests", 0)
    ctx.coverage["input_distribution"] = {"case_kinds": acc.get("kinds", {}), "features": acc.get("features", {}),
                                          "spec_verdicts": acc.get("verdicts", {}),
                                          "answers_equal_to_repaired_model": acc.get("repaired", {}),
                                          "impl_fatal": acc.get("impl_fatal", 0),
                                          "hypotheses_of_theorems": acc.get("under_theorem", {})}
    for fid, rec in sorted(acc.get("findings", {}).items()):
        kind, pay = rec["first"]
        if ctx.find_known(fid):
            ctx.known_finding(fid, "%s; %d generated requests of this class (first: case kind %s)"
                              % (FINDING_TEXTS[fid], rec["n"], kind))
        else:
            pay = dict(pay)
            pay["what"] = FINDING_TEXTS[fid]
            ctx.violation(fid, pay)
    ctx.coverage["findings_attributed"] = {f: r["n"] for f, r in acc.get("findings", {}).items()}
    if proof_broken and not ctx.violations:
        ctx.violation("obligation", {"what": "Coq obligation no longer checks and no failing input was found by the "
                                     "correspondence", "failed": failed, "output": out[-3000:]}, no_input=True)
    ctx.coverage["rule"] = ("generated file trees (2-7 documents, 0-3 text files in nested directories; case kinds and "
                            "features counted in input_distribution) x {XercesDOMParser, DOMLSParser, "
                            "XIncludeDOMDocumentProcessor} x {path, file: URL}; a case is non-trivial when the top "
                            "document contains an xi:include; distinct by (mode, file system)")
