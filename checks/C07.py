"""C07 -- DTD validation reports a validity error iff a validity constraint is violated.
Theorems: coq/theories/C07/Properties_C07.v (Spec07 = regular language of a content model + derivative oracle,
Model07 = createChildModel / SimpleContentModel / MixedContentModel / DFAContentModel as written in the C++).
Correspondence: bin/xh_C07 (real parser, IGXMLScanner + DGXMLScanner, validation always, plus the content-model
object called directly) vs bin/xm_C07 (extracted model); the oracle is the extracted Spec (elem_validb)."""
import json
import os
import subprocess
import sys
import time

import vcommon as V

sys.path.insert(0, os.path.join(V.VERIF, "translator"))
import c07_valid as TV  # noqa

FUEL = 3000          # states the model's worklist may create before it gives up (the C++ has no bound)
NAMES = [0, 1, 2]    # element names used in generated content models (rendered n0, n1, n2)
UNDECL = 9           # a name that is never declared


# ---- content models (python mirror of the syntax only: text rendering + the binary tree DTDScanner builds) -------
# n-ary tree: ("L", k) | ("S", [items]) | ("C", [items]) | ("O", x) | ("T", x) | ("P", x)
def cp(t):
    """text of one content particle"""
    k = t[0]
    if k == "L":
        return "n%d" % t[1]
    if k in ("S", "C"):
        sep = "," if k == "S" else "|"
        return "(" + sep.join(cp(x) for x in t[1]) + ")"
    suf = {"O": "?", "T": "*", "P": "+"}[k]
    inner = t[1]
    if inner[0] in ("O", "T", "P"):       # (x*)+ : a one-item group carries the outer suffix
        return "(" + cp(inner) + ")" + suf
    return cp(inner) + suf


def text(t):
    """text of a `children` content spec: a parenthesised group with an optional suffix"""
    k = t[0]
    if k == "L":
        return "(n%d)" % t[1]
    if k in ("O", "T", "P") and t[1][0] == "L":
        return "(n%d)%s" % (t[1][1], {"O": "?", "T": "*", "P": "+"}[k])
    return cp(t)


def polish(t):
    """the binary ContentSpecNode tree: (a,b,c) = Seq(a, Seq(b, c)); parentheses around a single particle vanish"""
    k = t[0]
    if k == "L":
        return "L%d" % t[1]
    if k in ("S", "C"):
        items = t[1]
        if len(items) == 1:
            return polish(items[0])
        return "%s.%s.%s" % (k, polish(items[0]), polish((k, items[1:])))
    return "%s.%s" % (k, polish(t[1]))


def nleaves(t):
    if t[0] == "L":
        return 1
    if t[0] in ("S", "C"):
        return sum(nleaves(x) for x in t[1])
    return nleaves(t[1])


def all_models(size, names):
    """all n-ary-free binary shapes with `size` nodes (leaf/unary/binary) over names"""
    memo = {}

    def go(n):
        if n in memo:
            return memo[n]
        out = []
        if n == 1:
            out = [("L", a) for a in names]
        else:
            for u in ("O", "T", "P"):
                out += [(u, x) for x in go(n - 1)]
            for l in range(1, n - 1):
                for b in ("S", "C"):
                    out += [(b, [x, y]) for x in go(l) for y in go(n - 1 - l)]
        memo[n] = out
        return out
    return go(size)


def rand_model(rng, depth, names, wide=False):
    if depth <= 0 or rng.random() < 0.25:
        return ("L", rng.choice(names))
    r = rng.random()
    if r < 0.45:
        return (rng.choice("OTP"), rand_model(rng, depth - 1, names, wide))
    n = rng.randrange(2, 5 if wide else 4)
    return (rng.choice("SC"), [rand_model(rng, depth - 1, names, wide) for _ in range(n)])


def sample_word(rng, t, cap=3):
    """a random word of the language (valid by construction)"""
    k = t[0]
    if k == "L":
        return [t[1]]
    if k == "S":
        return [a for x in t[1] for a in sample_word(rng, x, cap)]
    if k == "C":
        return sample_word(rng, rng.choice(t[1]), cap)
    if k == "O":
        return sample_word(rng, t[1], cap) if rng.random() < 0.5 else []
    n = rng.randrange(0 if k == "T" else 1, cap + 1)
    return [a for _ in range(n) for a in sample_word(rng, t[1], cap)]


def mutate(rng, w, alphabet):
    w = list(w)
    op = rng.randrange(4)
    if op == 0 and w:
        del w[rng.randrange(len(w))]
    elif op == 1:
        w.insert(rng.randrange(len(w) + 1), rng.choice(alphabet))
    elif op == 2 and w:
        w[rng.randrange(len(w))] = rng.choice(alphabet)
    elif op == 3 and len(w) > 1:
        i = rng.randrange(len(w) - 1)
        w[i], w[i + 1] = w[i + 1], w[i]
    else:
        w.append(rng.choice(alphabet))
    return w


def all_words(alphabet, maxlen):
    out = [[]]
    layer = [[]]
    for _ in range(maxlen):
        layer = [w + [a] for w in layer for a in alphabet]
        out += layer
    return out


def csv(l):
    return ",".join(str(x) for x in l) if l else "-"


def req(model, cmtext, declared, w, emptytag=0):
    return "cm %d %s %s %s %d %s" % (FUEL, csv(declared), model, cmtext, emptytag, csv(w))


def gen_cases(ctx):
    rng = ctx.rng
    thorough = ctx.tier == "thorough"
    cases = []          # (kind, request, model, declared, children)

    def add(kind, model, cmtext, declared, w, emptytag=0):
        cases.append((kind, req(model, cmtext, declared, w, emptytag), model, declared, w))

    decl = NAMES
    alpha4 = NAMES + [UNDECL]
    short3 = all_words(NAMES, 4 if not thorough else 5)
    # -- 1. EMPTY / ANY / Mixed
    for w in all_words(alpha4, 3):
        add("empty", "E", "EMPTY", decl, w)
        add("any", "A", "ANY", decl, w)
    add("empty-tag", "E", "EMPTY", decl, [], 1)
    add("any-tag", "A", "ANY", decl, [], 1)
    for ns in ([], [0], [1, 0], [0, 1, 2], [2, 2], [0, 1, 0]):
        mtext = "(#PCDATA)" if not ns else "(#PCDATA|" + "|".join("n%d" % k for k in ns) + ")*"
        for w in all_words(alpha4, 3):
            add("mixed", "M:" + ",".join(str(k) for k in ns), mtext, decl, w)
        add("mixed-tag", "M:" + ",".join(str(k) for k in ns), mtext, decl, [], 1)
    add("mixed-star", "M:", "(#PCDATA)*", decl, [0])
    add("mixed-star", "M:", "(#PCDATA)*", decl, [])
    # -- 2. all small content models (every shape createChildModel distinguishes is among sizes 1..3)
    small = []
    for size in (1, 2, 3, 4):
        small += all_models(size, NAMES)
    if thorough:
        small += all_models(5, NAMES)
    else:
        s5 = all_models(5, NAMES)
        small += rng.sample(s5, 150)
    if not thorough and len(small) > 260:
        keep = [t for t in small if nleaves(t) <= 1 or (t[0] in "SC" and all(x[0] == "L" for x in t[1]))]
        rest = [t for t in small if t not in keep]
        small = keep + rng.sample(rest, 260 - len(keep))
    for t in small:
        m, tx = "K:" + polish(t), text(t)
        ws = short3 if (thorough or nleaves(t) <= 2) else rng.sample(short3, 60) + short3[:13]
        for w in ws:
            add("small", m, tx, decl, w)
        add("small-tag", m, tx, decl, [], 1)
        add("small-undecl", m, tx, decl, mutate(rng, sample_word(rng, t), [UNDECL]))
        for _ in range(6):
            w = sample_word(rng, t, 4)
            add("small-valid", m, tx, decl, w)
            add("small-mutant", m, tx, decl, mutate(rng, w, alpha4))
    # -- 3. random deeper models (non-deterministic ones included), n-ary groups
    for _ in range(60 if not thorough else 1500):
        names = rng.choice([NAMES, [0, 1], [0, 1, 2, 3, 4]])
        t = rand_model(rng, rng.randrange(2, 6), names, wide=True)
        if nleaves(t) > 40:
            continue
        m, tx = "K:" + polish(t), text(t)
        d = sorted(set(names))
        for _ in range(25):
            w = sample_word(rng, t, 3)
            if len(w) > 60:
                continue
            add("deep-valid", m, tx, d, w)
            add("deep-mutant", m, tx, d, mutate(rng, w, d + [UNDECL]))
            add("deep-mutant2", m, tx, d, mutate(rng, mutate(rng, w, d), d))
        for w in rng.sample(short3, 20):
            add("deep-short", m, tx, d, w)
    # -- 4. classic non-deterministic / exponential shapes
    nd = [("S", [("T", ("C", [("L", 0), ("L", 1)])), ("L", 0), ("C", [("L", 0), ("L", 1)]), ("C", [("L", 0), ("L", 1)])]),
          ("S", [("O", ("L", 0)), ("O", ("L", 0)), ("O", ("L", 0)), ("L", 0)]),
          ("T", ("T", ("L", 0))), ("P", ("O", ("L", 0))), ("P", ("T", ("C", [("L", 0), ("P", ("L", 1))]))),
          ("C", [("S", [("L", 0), ("L", 1)]), ("S", [("L", 0), ("L", 2)])]),
          ("S", [("T", ("L", 0)), ("T", ("L", 0)), ("L", 1)]),
          ("P", ("S", [("O", ("L", 0)), ("O", ("L", 1))]))]
    for t in nd:
        m, tx = "K:" + polish(t), text(t)
        for w in all_words([0, 1], 6) + all_words(NAMES, 3):
            add("nondet", m, tx, decl, w)
    # -- 5. many leaves: CMStateSet switches representation above 128 bits (4 cached words) and
    #       allocates 1024-bit chunks lazily; positions 31/32/63/64/127/128/129
    sizes = [31, 32, 33, 63, 64, 65, 127, 128, 129, 130] + ([200, 1023, 1024, 1030] if thorough else [140])
    for n in sizes:
        names = list(range(n))
        shapes = [("S", [("L", k) for k in names]),
                  ("S", [("O", ("L", k)) for k in names]),
                  ("T", ("C", [("L", k) for k in names])),
                  ("S", [("L", k % 3) if k % 2 else ("O", ("L", k % 3)) for k in names])]
        for si, t in enumerate(shapes):
            if n > 200 and si in (1, 3):
                continue        # quadratic follow sets / many states: keep the big ones linear
            m, tx = "K:" + polish(t), text(t)
            d = names
            for _ in range(6):
                w = sample_word(rng, t, 2)[:300]
                add("wide-valid", m, tx, d, w)
                add("wide-mutant", m, tx, d, mutate(rng, w, d[:3] + d[-2:]))
            add("wide-empty", m, tx, d, [])
            add("wide-last", m, tx, d, [n - 1])
    return cases


def run_bin(binpath, lines, timeout=3000):
    p = subprocess.run([binpath], input=("\n".join(lines) + "\n").encode(), stdout=subprocess.PIPE,
                       stderr=subprocess.PIPE, timeout=timeout)
    out = p.stdout.decode("ascii", "replace").splitlines()
    return p.returncode, out, p.stderr.decode("utf-8", "replace")


def impl_says_valid(ans):
    """the implementation's verdict for the document: no error of any kind reported"""
    return ans.endswith(" e=-")


def impl_has_fatal(ans):
    e = ans.split(" e=")[-1]
    return any(c.startswith("VF") or c.startswith("XF") or c.startswith("IG:") for c in e.split(","))


def run(ctx):
    t0 = time.time()
    ctx.coverage["trusted_base"] = list(V.GLOBAL_TRUSTED_BASE) + [
        "modelled rather than verified: the DTD scanner that turns the declaration text into the ContentSpecNode tree "
        "(the harness dumps the tree the library built and it must equal the tree handed to the model); CMStateSet "
        "bit operations (abstracted to sorted lists; exercised across the 32/64/128/1024-bit boundaries)"]
    ctx.assumptions = ["element names are compared as whole raw-name strings (fDTD = true)",
                       "the model's worklist is bounded by fuel=%d states; the C++ loop is unbounded" % FUEL]
    ctx.build_lib()
    try:
        codes = TV.generate()
    except Exception as e:
        ctx.note("translator failed: %r" % (e,))
        ctx.violation("translator", {"what": "translator can no longer read XMLValidityCodes.hpp", "error": repr(e)},
                      no_input=True)
        return
    ok, out, failed = ctx.prove(["Base", "Gen", "C07"],
                                ["theories/C07/Properties_C07.vo", "theories/C07/Extract_C07.vo"],
                                props_file="theories/C07/Properties_C07.v")
    proof_broken = not ok
    if proof_broken:
        ctx.note("proof obligations failed: %s" % failed)
        ctx.note(out[-1500:])
    have_model = os.path.exists(os.path.join(V.VERIF, "ocaml", "C07", "gen_c07.ml"))
    xm = ctx.ocaml("C07", ["gen_c07"]) if have_model else None
    xh = ctx.harness("C07")
    if ctx.replay:
        r = json.load(open(ctx.replay))
        a = r["request"].split()
        cases = [("replay", r["request"], a[3], [int(x) for x in a[2].split(",")] if a[2] != "-" else [],
                  [int(x) for x in a[6].split(",")] if a[6] != "-" else [])]
    else:
        cases = gen_cases(ctx)
    lines = [c[1] for c in cases]
    t1 = time.time()
    rc1, impl, err1 = run_bin(xh, lines)
    t2 = time.time()
    rc2, model, err2 = run_bin(xm, lines)
    t3 = time.time()
    ctx.note("generated %d cases; harness %.1fs, model %.1fs" % (len(lines), t2 - t1, t3 - t2))
    if rc1 != 0 or len(impl) != len(lines):
        ctx.violation("harness-crash", {"what": "implementation harness crashed or lost lines", "rc": rc1,
                                        "stderr": err1[-2000:], "answered": len(impl), "asked": len(lines),
                                        "request": lines[len(impl)] if len(impl) < len(lines) else None})
        return
    if rc2 != 0 or len(model) != len(lines):
        ctx.violation("model-crash", {"what": "model driver crashed", "stderr": err2[-2000:]}, no_input=True)
        return
    # spec oracle on every case (cheap): the extracted Spec decides validity of (declared, model, children)
    spec_lines = ["spec %s %s %s" % (csv(c[3]), c[2], csv(c[4])) for c in cases]
    rc3, spec, err3 = run_bin(xm, spec_lines)
    if rc3 != 0 or len(spec) != len(lines):
        ctx.violation("model-crash", {"what": "spec oracle crashed", "stderr": err3[-2000:]}, no_input=True)
        return
    kinds = {}
    divergences = []
    spec_viol = []
    nvalid = 0
    for (kind, rq, m, d, w), i, mo, sp in zip(cases, impl, model, spec):
        ctx.count()
        kinds[kind] = kinds.get(kind, 0) + 1
        ctx.distinct((m, tuple(w), rq.split()[5]))
        if "MODEL_FUEL" in mo:
            kinds["model-fuel"] = kinds.get("model-fuel", 0) + 1
            continue
        if i != mo:
            divergences.append((kind, rq, i, mo, sp))
        valid = sp == "valid 1"
        nvalid += valid
        if impl_says_valid(i) != valid or impl_has_fatal(i):
            spec_viol.append((kind, rq, i, mo, sp))
    ctx.coverage["traces_validated_against_impl"] = len(lines)
    ctx.coverage["input_distribution"] = dict(kinds, valid=nvalid, invalid=len(lines) - nvalid)
    ctx.coverage["spec_oracle_checked"] = len(lines)
    for k in (7, len(cases) // 2, len(cases) - 1):
        if k < len(cases):
            ctx.sample({"kind": cases[k][0], "request": cases[k][1], "impl": impl[k], "model": model[k], "spec": spec[k]})
    for kind, rq, i, mo, sp in spec_viol[:5]:
        ctx.violation("spec", {"request": rq, "impl": i, "model": mo, "spec": sp, "kind": kind,
                               "what": "the implementation's verdict (no error reported <-> valid; never a fatal error) "
                                       "contradicts the Spec oracle"})
    if divergences and not spec_viol:
        kind, rq, i, mo, sp = divergences[0]
        ctx.violation("correspondence", {"what": "model and implementation differ (failing index / error code / tree) "
                                         "although the validity verdict agrees with the Spec: correspondence "
                                         "xh_C07~xm_C07 no longer checks", "request": rq, "impl": i, "model": mo,
                                         "spec": sp, "count": len(divergences)}, no_input=True)
    if proof_broken and not ctx.violations:
        ctx.violation("obligation", {"what": "Coq obligation no longer checks and no failing input was found by the "
                                     "correspondence sweeps", "failed": failed, "output": out[-3000:]}, no_input=True)
    ctx.coverage["rule"] = ("EMPTY/ANY/mixed x all child sequences up to length 3 over 3 declared + 1 undeclared name; "
                            "all content models of 1..4 nodes (5: sample; all in thorough) over 3 names x all sequences up "
                            "to length 4 (5 in thorough) + valid-by-construction words + one-edit mutants; random deeper "
                            "n-ary models; classic non-deterministic shapes x all words up to length 6; 31..140-leaf models "
                            "across the CMStateSet word/representation boundaries; distinct by (model, children, tag form)")
    ctx.coverage["exhaustive"] = False
    ctx.note("correspondence: %d cases, %d divergences, %d spec contradictions, %.1fs" % (
        len(lines), len(divergences), len(spec_viol), time.time() - t0))
