"""C07 -- DTD validation reports a validity error iff a validity constraint is violated.
Theorems: coq/theories/C07/Properties_C07.v (Spec07 = regular language of a content model + derivative oracle,
Model07 = createChildModel / SimpleContentModel / MixedContentModel / DFAContentModel as written in the C++).
Correspondence: bin/xh_C07 (real parser, IGXMLScanner + DGXMLScanner, validation always, plus the content-model
object called directly) vs bin/xm_C07 (extracted model); the oracle is the extracted Spec (elem_validb)."""
import json
import os
import subprocess
import sys
import time

import vcommon as V

sys.setrecursionlimit(100000)     # 1030-leaf content models are right-nested 1030 deep

sys.path.insert(0, os.path.join(V.VERIF, "translator"))
import c07_valid as TV  # noqa
import c07_dfa as TD  # noqa

FUEL = 3000          # states the model's worklist may create before it gives up (the C++ has no bound)
NAMES = [0, 1, 2]    # element names used in generated content models (rendered n0, n1, n2)
UNDECL = 9           # a name that is never declared


# ---- content models (python mirror of the syntax only: text rendering + the binary tree DTDScanner builds) -------
# n-ary tree: ("L", k) | ("S", [items]) | ("C", [items]) | ("O", x) | ("T", x) | ("P", x)
def cp(t):
    """text of one content particle"""
    k = t[0]
    if k == "L":
        return "n%d" % t[1]
    if k in ("S", "C"):
        sep = "," if k == "S" else "|"
        return "(" + sep.join(cp(x) for x in t[1]) + ")"
    suf = {"O": "?", "T": "*", "P": "+"}[k]
    inner = t[1]
    if inner[0] in ("O", "T", "P"):       # (x*)+ : a one-item group carries the outer suffix
        return "(" + cp(inner) + ")" + suf
    return cp(inner) + suf


def text(t):
    """text of a `children` content spec: a parenthesised group with an optional suffix"""
    k = t[0]
    if k == "L":
        return "(n%d)" % t[1]
    if k in ("O", "T", "P") and t[1][0] == "L":
        return "(n%d)%s" % (t[1][1], {"O": "?", "T": "*", "P": "+"}[k])
    return cp(t)


def polish(t):
    """the binary ContentSpecNode tree: (a,b,c) = Seq(a, Seq(b, c)); parentheses around a single particle vanish"""
    k = t[0]
    if k == "L":
        return "L%d" % t[1]
    if k in ("S", "C"):
        items = t[1]
        if len(items) == 1:
            return polish(items[0])
        return "%s.%s.%s" % (k, polish(items[0]), polish((k, items[1:])))
    return "%s.%s" % (k, polish(t[1]))


def recursive_groups(cmtext):
    """number of recursive DTDScanner::scanChildren calls for this text: parenthesised groups that are not the first
    item of their parent (those are opened by the loop at the top of the function)"""
    n = 0
    for i, ch in enumerate(cmtext):
        if ch == "(" and i > 0 and cmtext[i - 1] in ",|":
            n += 1
    return n


def nleaves(t):
    if t[0] == "L":
        return 1
    if t[0] in ("S", "C"):
        return sum(nleaves(x) for x in t[1])
    return nleaves(t[1])


def all_models(size, names):
    """all n-ary-free binary shapes with `size` nodes (leaf/unary/binary) over names"""
    memo = {}

    def go(n):
        if n in memo:
            return memo[n]
        out = []
        if n == 1:
            out = [("L", a) for a in names]
        else:
            for u in ("O", "T", "P"):
                out += [(u, x) for x in go(n - 1)]
            for l in range(1, n - 1):
                for b in ("S", "C"):
                    out += [(b, [x, y]) for x in go(l) for y in go(n - 1 - l)]
        memo[n] = out
        return out
    return go(size)


def rand_model(rng, depth, names, wide=False):
    if depth <= 0 or rng.random() < 0.25:
        return ("L", rng.choice(names))
    r = rng.random()
    if r < 0.45:
        return (rng.choice("OTP"), rand_model(rng, depth - 1, names, wide))
    n = rng.randrange(2, 5 if wide else 4)
    return (rng.choice("SC"), [rand_model(rng, depth - 1, names, wide) for _ in range(n)])


def sample_word(rng, t, cap=3):
    """a random word of the language (valid by construction)"""
    k = t[0]
    if k == "L":
        return [t[1]]
    if k == "S":
        return [a for x in t[1] for a in sample_word(rng, x, cap)]
    if k == "C":
        return sample_word(rng, rng.choice(t[1]), cap)
    if k == "O":
        return sample_word(rng, t[1], cap) if rng.random() < 0.5 else []
    n = rng.randrange(0 if k == "T" else 1, cap + 1)
    return [a for _ in range(n) for a in sample_word(rng, t[1], cap)]


def mutate(rng, w, alphabet):
    w = list(w)
    op = rng.randrange(4)
    if op == 0 and w:
        del w[rng.randrange(len(w))]
    elif op == 1:
        w.insert(rng.randrange(len(w) + 1), rng.choice(alphabet))
    elif op == 2 and w:
        w[rng.randrange(len(w))] = rng.choice(alphabet)
    elif op == 3 and len(w) > 1:
        i = rng.randrange(len(w) - 1)
        w[i], w[i + 1] = w[i + 1], w[i]
    else:
        w.append(rng.choice(alphabet))
    return w


# ---- non-deterministic models whose names recur in every 32-position block ------------------------------------
def glushkov(t):
    """python mirror of the position automaton (only used to MEASURE which union strategy buildDFA takes for a
    generated model; the verdicts come from the extracted model and the Spec)"""
    labels = []
    follow = {}

    def go(t):
        k = t[0]
        if k == "L":
            p = len(labels)
            labels.append(t[1])
            follow[p] = set()
            return False, {p}, {p}
        if k == "S":
            nul, first, last = True, set(), set()
            for x in t[1]:
                n2, f2, l2 = go(x)
                for q in last:
                    follow[q] |= f2
                first = first | f2 if nul else first
                last = (last | l2) if n2 else l2
                nul = nul and n2
            return nul, first, last
        if k == "C":
            nul, first, last = False, set(), set()
            for x in t[1]:
                n2, f2, l2 = go(x)
                nul, first, last = nul or n2, first | f2, last | l2
            return nul, first, last
        n2, f2, l2 = go(t[1])
        if k in "TP":
            for q in l2:
                follow[q] |= f2
        return (n2 if k == "P" else True), f2, l2
    nul, first, last = go(t)
    eoc = len(labels)
    for q in last:
        follow[q].add(eoc)
    follow[eoc] = set()
    return labels, follow, first | ({eoc} if nul else set())


def union_strategy_profile(t, th, max_states=400):
    """for every DFA state and every name: does buildDFA take the linear scan over the name's leaves, do those leaves
    span several words, and are the first and the last of them live in the state"""
    import math
    labels, follow, start = glushkov(t)
    W = th["WORD"]
    nbits = len(labels) + 1
    dynamic = nbits > th["CMSTATE_CACHED_INT32_SIZE"] * W
    chunk = th["CMSTATE_BITFIELD_CHUNK"]
    byname = {}
    for p, a in enumerate(labels):
        byname.setdefault(a, []).append(p)
    seen, todo = {frozenset(start)}, [frozenset(start)]
    prof = {"linear": 0, "linear_multiword": 0, "linear_multiword_last_live": 0, "binary": 0, "states": 0}
    while todo and prof["states"] < max_states:
        T = todo.pop()
        prof["states"] += 1
        for a, L in byname.items():
            n = len(L)
            lo, hi = L[0], L[-1]
            if not dynamic:
                e = min(hi // W, th["CMSTATE_CACHED_INT32_SIZE"])
                cnt = sum(1 for q in T if lo // W <= q // W < e)
            else:
                arr = (nbits + chunk - 1) // chunk
                e = min(hi // W, arr)
                cnt = sum(1 for q in T if lo // W <= q // chunk < e)
            live = [q for q in L if q in T]
            if n <= cnt * math.log(n) if n > 1 else False:
                prof["linear"] += 1
                if lo // W != hi // W:
                    prof["linear_multiword"] += 1
                    if hi in T and len(live) >= 2:
                        prof["linear_multiword_last_live"] += 1
            elif live:
                prof["binary"] += 1
            nxt = frozenset(x for q in live for x in follow[q])
            if nxt and nxt not in seen:
                seen.add(nxt)
                todo.append(nxt)
    return prof


def block_models(rng, th, thorough):
    """(shape name, tree): names 0,1,2 recur in every word-sized block of positions and stay live together"""
    W, cached = th["WORD"], th["CMSTATE_CACHED_INT32_SIZE"]
    totals = [W + 2, W + 9, 2 * W - 1, 2 * W + 3, 3 * W + 1, cached * W - 2, cached * W + 3, cached * W + 12]
    if thorough:
        totals += [W - 1, W, W + 1, 2 * W, 2 * W + 1, cached * W - 1, cached * W, cached * W + 1, 6 * W, 9 * W]
    out = []
    L = lambda k: ("L", k)
    for T in totals:
        m = T // 2
        # prefix-sharing alternatives spread over all blocks
        out.append(("alt2", ("C", [("S", [L(i % 3), L(rng.randrange(6))]) for i in range(m)])))
        out.append(("alt2-distinct-tails", ("C", [("S", [L(i % 2), L(10 + i)]) for i in range(m)])))
        out.append(("alt3", ("C", [("S", [L(i % 3), L((i // 3) % 3), L(rng.randrange(5))]) for i in range(T // 3)])))
        # the reported shape: (a,p)|(c1,d)|...|(ck,d)|(a,q)
        out.append(("first-last", ("C", [("S", [L(0), L(1)])] + [("S", [L(10 + i), L(2)]) for i in range(m - 2)]
                                   + [("S", [L(0), L(3)])])))
        # (a|b|c)?,(a|b|c)?,...  : every suffix of positions is live at once
        out.append(("opt-choices", ("S", [("O", ("C", [L(0), L(1), L(2)])) for _ in range(T // 3)])))
        # many distinct optional leaves, then an (a|b)* tail whose names also start the model
        out.append(("tail", ("S", [("C", [L(0), L(1)])] + [("O", L(10 + j)) for j in range(T - 4)]
                             + [("T", ("C", [L(0), L(1)]))])))
        # iterated alternatives
        out.append(("star-alt", ("T", ("C", [("S", [L(i % 3), L((i + 1 + i // 3) % 3)]) for i in range(m)]))))
        out.append(("plus-opt-alt", ("P", ("C", [("S", [("O", L(i % 3)), L(3 + i % 2)]) for i in range(m)]))))
    return out


def all_words(alphabet, maxlen):
    out = [[]]
    layer = [[]]
    for _ in range(maxlen):
        layer = [w + [a] for w in layer for a in alphabet]
        out += layer
    return out


def csv(l):
    return ",".join(str(x) for x in l) if l else "-"


def req(model, cmtext, declared, w, emptytag=0):
    return "cm %d %s %s %s %d %s" % (FUEL, csv(declared), model, cmtext, emptytag, csv(w))


def gen_cases(ctx):
    rng = ctx.rng
    thorough = ctx.tier == "thorough"
    cases = []          # (kind, request, model, declared, children)

    def add(kind, model, cmtext, declared, w, emptytag=0):
        cases.append((kind, req(model, cmtext, declared, w, emptytag), model, declared, w))

    decl = NAMES
    alpha4 = NAMES + [UNDECL]
    short3 = all_words(NAMES, 4 if not thorough else 5)
    # -- 1. EMPTY / ANY / Mixed
    for w in all_words(alpha4, 3):
        add("empty", "E", "EMPTY", decl, w)
        add("any", "A", "ANY", decl, w)
    add("empty-tag", "E", "EMPTY", decl, [], 1)
    add("any-tag", "A", "ANY", decl, [], 1)
    for ns in ([], [0], [1, 0], [0, 1, 2], [2, 2], [0, 1, 0]):
        mtext = "(#PCDATA)" if not ns else "(#PCDATA|" + "|".join("n%d" % k for k in ns) + ")*"
        for w in all_words(alpha4, 3):
            add("mixed", "M:" + ",".join(str(k) for k in ns), mtext, decl, w)
        add("mixed-tag", "M:" + ",".join(str(k) for k in ns), mtext, decl, [], 1)
    add("mixed-star", "M:", "(#PCDATA)*", decl, [0])
    add("mixed-star", "M:", "(#PCDATA)*", decl, [])
    # -- 2. all small content models (every shape createChildModel distinguishes is among sizes 1..3)
    small = []
    for size in (1, 2, 3, 4):
        small += all_models(size, NAMES)
    if thorough:
        small += all_models(5, NAMES) + all_models(6, NAMES)
    else:
        s5 = all_models(5, NAMES)
        small += rng.sample(s5, 150)
    if not thorough and len(small) > 260:
        keep = [t for t in small if nleaves(t) <= 1 or (t[0] in "SC" and all(x[0] == "L" for x in t[1]))]
        rest = [t for t in small if t not in keep]
        small = keep + rng.sample(rest, 260 - len(keep))
    for t in small:
        m, tx = "K:" + polish(t), text(t)
        ws = short3 if ((thorough and len(polish(t).split('.')) <= 5) or nleaves(t) <= 2) else rng.sample(short3, 60) + short3[:13]
        for w in ws:
            add("small", m, tx, decl, w)
        add("small-tag", m, tx, decl, [], 1)
        add("small-undecl", m, tx, decl, mutate(rng, sample_word(rng, t), [UNDECL]))
        for _ in range(6):
            w = sample_word(rng, t, 4)
            add("small-valid", m, tx, decl, w)
            add("small-mutant", m, tx, decl, mutate(rng, w, alpha4))
    # -- 3. random deeper models (non-deterministic ones included), n-ary groups
    for _ in range(60 if not thorough else 1500):
        names = rng.choice([NAMES, [0, 1], [0, 1, 2, 3, 4]])
        t = rand_model(rng, rng.randrange(2, 6), names, wide=True)
        if nleaves(t) > 40:
            continue
        m, tx = "K:" + polish(t), text(t)
        d = sorted(set(names))
        for _ in range(25):
            w = sample_word(rng, t, 3)
            if len(w) > 60:
                continue
            add("deep-valid", m, tx, d, w)
            add("deep-mutant", m, tx, d, mutate(rng, w, d + [UNDECL]))
            add("deep-mutant2", m, tx, d, mutate(rng, mutate(rng, w, d), d))
        for w in rng.sample(short3, 20):
            add("deep-short", m, tx, d, w)
    # -- 4. classic non-deterministic / exponential shapes
    nd = [("S", [("T", ("C", [("L", 0), ("L", 1)])), ("L", 0), ("C", [("L", 0), ("L", 1)]), ("C", [("L", 0), ("L", 1)])]),
          ("S", [("O", ("L", 0)), ("O", ("L", 0)), ("O", ("L", 0)), ("L", 0)]),
          ("T", ("T", ("L", 0))), ("P", ("O", ("L", 0))), ("P", ("T", ("C", [("L", 0), ("P", ("L", 1))]))),
          ("C", [("S", [("L", 0), ("L", 1)]), ("S", [("L", 0), ("L", 2)])]),
          ("S", [("T", ("L", 0)), ("T", ("L", 0)), ("L", 1)]),
          ("P", ("S", [("O", ("L", 0)), ("O", ("L", 1))]))]
    for t in nd:
        m, tx = "K:" + polish(t), text(t)
        for w in all_words([0, 1], 6) + all_words(NAMES, 3):
            add("nondet", m, tx, decl, w)
    # -- 5. many leaves: CMStateSet switches representation above 128 bits (4 cached words) and
    #       allocates 1024-bit chunks lazily; positions 31/32/63/64/127/128/129
    sizes = [31, 32, 33, 63, 64, 65, 127, 128, 129, 130] + ([200, 1023, 1024, 1030] if thorough else [140])
    for n in sizes:
        names = list(range(n))
        shapes = [("S", [("L", k) for k in names]),
                  ("S", [("O", ("L", k)) for k in names]),
                  ("T", ("C", [("L", k) for k in names])),
                  ("S", [("L", k % 3) if k % 2 else ("O", ("L", k % 3)) for k in names])]
        for si, t in enumerate(shapes):
            if n > 200 and si in (1, 3):
                continue        # quadratic follow sets / many states: keep the big ones linear
            m, tx = "K:" + polish(t), text(t)
            d = names
            for _ in range(6):
                w = sample_word(rng, t, 2)[:300]
                add("wide-valid", m, tx, d, w)
                add("wide-mutant", m, tx, d, mutate(rng, w, d[:3] + d[-2:]))
            add("wide-empty", m, tx, d, [])
            add("wide-last", m, tx, d, [n - 1])
    # -- 5b. non-deterministic models in which the same names recur in every word-sized block of positions and are
    #        live together (the follow-set union of buildDFA switches strategy on exactly these)
    th = TD.read()
    prof_total = {}
    for shape, t in block_models(rng, th, thorough):
        m, tx = "K:" + polish(t), text(t)
        prof = union_strategy_profile(t, th)
        for k2, v2 in prof.items():
            prof_total[k2] = prof_total.get(k2, 0) + v2
        names = sorted({a for a in glushkov(t)[0]})
        small = [a for a in names if a < 10]
        ws = [sample_word(rng, t, 3)[:80] for _ in range(10)]
        for w in ws:
            add("block-valid", m, tx, names, w)
            add("block-mutant", m, tx, names, mutate(rng, w, small + names[-2:]))
            add("block-mutant", m, tx, names, mutate(rng, mutate(rng, w, small), small))
        for w in all_words(small[:3], 2) + rng.sample(all_words(small[:4], 3), 12):
            add("block-short", m, tx, names, w)
        if shape in ("alt2-distinct-tails", "first-last"):
            for item in t[1]:                          # every alternative once: reaches the last position of each name
                add("block-each-alt", m, tx, names, [x[1] for x in item[1]])
    ctx.coverage["union_strategy_profile"] = prof_total
    # -- 6. many parenthesised groups at nesting depth 2: DTDScanner's CONTENTSPEC_DEPTH_LIMIT (1000) is about nesting,
    #       a content model with more than 1000 sibling groups is legal (finding F26)
    for g in ([1000, 1002] if not thorough else [999, 1000, 1001, 1002, 1003, 1500]):
        t = ("S", [("L", 0)] + [("S", [("L", 1)]) for _ in range(g)])        # (n0,(n1),(n1),...)
        m, tx = "K:" + polish(t), text(t)
        add("many-groups", m, tx, [0, 1], [0] + [1] * g)
        add("many-groups", m, tx, [0, 1], [0] + [1] * (g - 1))
    return cases


# ---- attributes ------------------------------------------------------------------------------------------------
# token = (class, k): ("n", k) Name t<k> | ("m", k) Nmtoken <k>t | ("b", k) t<k># (not an Nmtoken).
# _PAD underscores are inserted so that values reach chosen lengths; what tells two tokens apart comes LAST.
_PAD = [0]


def tok_text(t):
    u = "_" * _PAD[0]
    return {"n": "t" + u + "%d", "m": "%d" + u + "t", "b": "t" + u + "%d#"}[t[0]] % t[1]


# the DTD's declarations other than ELEMENT/ATTLIST.  Either two lists (unparsed, parsed general entity names) or
# opts = {"decls": ordered [(kind, k)] with kind u|g|p|n|e, "pad": n, "collide": bool, "crefs": bool}
def other_decl_lines(unparsed, parsed):
    if not isinstance(unparsed, dict):
        return (['<!ENTITY %s SYSTEM "u%d" NDATA nt>' % (tok_text(("n", k)), k) for k in unparsed] +
                ['<!ENTITY %s "p%d">' % (tok_text(("n", k)), k) for k in parsed])
    out = []
    for i, (kind, k) in enumerate(unparsed["decls"]):
        nm = tok_text(("n", k))
        out.append({"u": '<!ENTITY %s SYSTEM "u%d-%d" NDATA nt>' % (nm, k, i), "g": '<!ENTITY %s "g%d-%d">' % (nm, k, i),
                    "p": "<!ENTITY %% %s '<!-- pe %d -->'>" % (nm, i), "n": '<!NOTATION %s SYSTEM "n%d">' % (nm, k),
                    "e": "<!ELEMENT %s EMPTY>" % nm}[kind])
    if unparsed.get("collide"):      # names of one kind reused by the other kinds (no effect expected)
        out += ['<!ENTITY e "ge">', "<!ENTITY % e 'pe'>", '<!NOTATION e SYSTEM "e">', "<!ELEMENT a1 EMPTY>",
                '<!ENTITY a1 "ga1">', '<!NOTATION r SYSTEM "r">', "<!ENTITY % r 'per'>", "<!ELEMENT nt EMPTY>",
                '<!ENTITY nt "gnt">']
    return out


def env_fields(unparsed, parsed):
    if not isinstance(unparsed, dict):
        return "%s %s" % (csv(unparsed), csv(parsed))
    return "D:%s -" % ",".join("%s%d" % d for d in unparsed["decls"])


def parsed_names(unparsed, parsed):
    """names that are parsed general entities (first general declaration wins) -- only used to place references to
    them in element content, where they must expand without any error"""
    if not isinstance(unparsed, dict):
        return list(parsed)
    first = {}
    for kind, k in unparsed["decls"]:
        if kind in "ug" and k not in first:
            first[k] = kind
    return [k for k, kind in first.items() if kind == "g"] if unparsed.get("crefs") else []


def with_pad(unparsed, fn):
    _PAD[0] = unparsed.get("pad", 0) if isinstance(unparsed, dict) else 0
    try:
        return fn()
    finally:
        _PAD[0] = 0


def val_text(v):
    return " ".join(tok_text(t) for t in v)


def val_req(v):
    return "+".join("%s%d" % t for t in v) if v else "-"


TYPE_TEXT = {"C": "CDATA", "I": "ID", "R": "IDREF", "RS": "IDREFS", "E": "ENTITY", "ES": "ENTITIES", "N": "NMTOKEN",
             "NS": "NMTOKENS"}


def def_req(d):
    name, ty, toks, dk, dv = d
    t = ty if ty not in ("O", "M") else "%s=%s" % (ty, val_req(toks))
    df = dk if dk in ("Q", "I") else "%s=%s" % (dk, val_req(dv))
    return "%d:%s:%s" % (name, t, df)


def def_text(d):
    name, ty, toks, dk, dv = d
    if ty == "O":
        t = "NOTATION (" + "|".join(tok_text(x) for x in toks) + ")"
    elif ty == "M":
        t = "(" + "|".join(tok_text(x) for x in toks) + ")"
    else:
        t = TYPE_TEXT[ty]
    df = {"Q": "#REQUIRED", "I": "#IMPLIED"}.get(dk) or ('#FIXED "%s"' % val_text(dv) if dk == "F" else '"%s"' % val_text(dv))
    return "a%d %s %s" % (name, t, df)


def attr_doc_text(unparsed, parsed, defs, doc):
    return with_pad(unparsed, lambda: attr_doc_text0(unparsed, parsed, defs, doc))


def attr_doc_text0(unparsed, parsed, defs, doc):
    out = ['<?xml version="1.0"?>', "<!DOCTYPE r [", "<!ELEMENT r (e)*>", "<!ELEMENT e (#PCDATA)>",
           '<!NOTATION nt SYSTEM "nt">']
    nots = sorted({t[1] for d in defs if d[1] == "O" for t in d[2] if t[0] == "n"})
    out += ['<!NOTATION %s SYSTEM "x%d">' % (tok_text(("n", k)), k) for k in nots]
    out += other_decl_lines(unparsed, parsed)
    if defs:
        out.append("<!ATTLIST e " + "\n  ".join(def_text(d) for d in defs) + ">")
    out.append("]>")
    refs = "".join("&%s;" % tok_text(("n", k)) for k in parsed_names(unparsed, parsed)[:2]) \
        if isinstance(unparsed, dict) else ""
    body = "".join("<e%s>%s</e>" % ("".join(' a%d="%s"' % (n, val_text(v)) for n, v in el), refs) for el in doc)
    out.append("<r>" + body + "</r>")
    return "\n".join(out) + "\n"


def attr_req(sw, unparsed, parsed, defs, doc):
    dr = ";".join(def_req(d) for d in defs) if defs else "-"
    er = "/".join(",".join("%d=%s" % (n, val_req(v)) for n, v in el) if el else "-" for el in doc)
    pad = unparsed.get("pad", 0) if isinstance(unparsed, dict) else 0
    return "attr %d %s %s %s %s%s" % (sw, env_fields(unparsed, parsed), dr, er,
                                      attr_doc_text(unparsed, parsed, defs, doc).encode().hex().upper(),
                                      " %d" % pad if pad else "")


def f25_class(defs, doc):
    """the class of finding F25: a specified NOTATION / enumeration attribute whose value has several tokens"""
    ty = {d[0]: d[1] for d in defs}
    return any(ty.get(n) in ("O", "M") and len(v) >= 2 for el in doc for n, v in el)


def f25_class_req(request):
    """f25_class decided on the request text (so that replays use the same predicate)"""
    a = request.split()
    if a[0] != "attr":
        return False
    ty = {}
    for d in a[4].split(";"):
        if d != "-":
            n, t, _ = d.split(":", 2)
            ty[n] = t[0]
    for el in a[5].split("/"):
        if el == "-":
            continue
        for at in el.split(","):
            n, v = at.split("=", 1)
            if ty.get(n) in ("O", "M") and v.count("+") >= 1:
                return True
    return False


F25_WITNESS = ([], [], [(1, "M", [("n", 1), ("n", 2)], "I", None)], [[(1, [("n", 1), ("n", 2)])]])


def gen_attr_cases(ctx):
    rng = ctx.rng
    thorough = ctx.tier == "thorough"
    cases = [("attr-F25-witness",) + F25_WITNESS,
             ("attr-F25-witness", [], [], [(1, "O", [("n", 1), ("n", 2)], "I", None)], [[(1, [("n", 2), ("n", 1)])]])]
    unparsed, parsed = [50, 51], [60]

    def valid_value(ty, toks, idpool, fresh):
        if ty == "C":
            return [rng.choice([("n", 1), ("m", 2), ("b", 3), ("n", 70)]) for _ in range(rng.randrange(0, 3))]
        if ty == "I":
            return [("n", fresh())]
        if ty == "R":
            return [("n", rng.choice(idpool))] if idpool else [("n", 99)]
        if ty == "RS":
            return [("n", rng.choice(idpool)) for _ in range(rng.randrange(1, 4))] if idpool else [("n", 99)]
        if ty == "E":
            return [("n", rng.choice(unparsed))]
        if ty == "ES":
            return [("n", rng.choice(unparsed)) for _ in range(rng.randrange(1, 4))]
        if ty == "N":
            return [rng.choice([("n", 5), ("m", 6), ("n", 70)])]
        if ty == "NS":
            return [rng.choice([("n", 5), ("m", 6), ("n", 70)]) for _ in range(rng.randrange(1, 4))]
        return [rng.choice(toks)]

    def broken_value(ty, toks, idpool, usedids):
        opts = []
        if ty != "C":
            opts += [[], [("b", 7)], [("b", 7), ("n", 1)]]
        if ty in ("I", "R", "E", "N", "O", "M"):
            opts += [[("n", 80), ("n", 81)]]
        if ty == "I":
            opts += [[("m", 8)]] + ([[("n", rng.choice(usedids))]] if usedids else [])
        if ty in ("R", "RS"):
            opts += [[("n", 98)], [("m", 8)]]
        if ty == "RS":
            opts += [[("n", 98), ("n", idpool[0] if idpool else 97)], [("m", 8), ("n", 98)]]
        if ty in ("E", "ES"):
            opts += [[("n", parsed[0])], [("n", 97)], [("m", 8)]]
        if ty == "ES":
            opts += [[("n", unparsed[0]), ("n", 97)], [("n", parsed[0]), ("n", unparsed[0])]]
        if ty == "NS":
            opts += [[("n", 1), ("b", 2)]]
        if ty in ("O", "M"):
            opts += [[("n", 96)], list(toks[:2]) if len(toks) >= 2 else [toks[0], toks[0]], [toks[0], ("n", 96)]]
        if ty == "M":
            opts += [[("m", 95)]]
        if ty == "O":
            opts += [[("m", 8)]]
        return rng.choice(opts) if opts else []

    n = 700 if not thorough else 12000
    for _ in range(n):
        # declarations: distinct names, at most one ID and one NOTATION attribute, valid defaults
        types = []
        for _k in range(rng.randrange(1, 5)):
            ty = rng.choice(["C", "I", "R", "RS", "E", "ES", "N", "NS", "O", "M"])
            if ty in ("I", "O") and ty in types:
                ty = "C"
            types.append(ty)
        counter = [100]

        def fresh():
            counter[0] += 1
            return counter[0]
        nelem = rng.randrange(1, 5)
        id_attr = types.index("I") + 1 if "I" in types else None
        idvals = [fresh() for _ in range(nelem)] if id_attr else []
        defs = []
        for i, ty in enumerate(types):
            toks = None
            if ty == "O":
                toks = [("n", k) for k in rng.sample([1, 2, 3, 4], rng.randrange(1, 4))]
            if ty == "M":
                toks = rng.sample([("n", 1), ("n", 2), ("m", 3), ("m", 4)], rng.randrange(1, 4))
            if ty == "I":
                dk = rng.choice("QI")
            else:
                dk = rng.choice("QIIFD")
            dv = None
            if dk in "FD":
                dv = valid_value(ty, toks, idvals, fresh)
                if ty == "C" and any(t[0] == "b" for t in dv):
                    dv = [("n", 1)]
            defs.append((i + 1, ty, toks, dk, dv))
        doc = []
        usedids = []
        nbreak = rng.choice([0, 0, 1, 1, 1, 2])
        kind = "attr-valid" if nbreak == 0 else "attr-broken%d" % nbreak
        slots = [(e, i) for e in range(nelem) for i in range(len(defs))]
        broken = set(rng.sample(slots, min(nbreak, len(slots))))
        for e in range(nelem):
            el = []
            for i, d in enumerate(defs):
                name, ty, toks, dk, dv = d
                if (e, i) in broken:
                    r = rng.random()
                    if r < 0.2 and dk == "Q":
                        continue                                   # required attribute missing
                    if r < 0.3:
                        el.append((9, [("n", 1)]))                 # undeclared attribute (once per element)
                        if any(a[0] == 9 for a in el[:-1]):
                            el.pop()
                        continue
                    if dk == "F" and r < 0.5:
                        v = valid_value(ty, toks, idvals, fresh)
                        el.append((name, v))
                        continue
                    el.append((name, broken_value(ty, toks, idvals, usedids)))
                    continue
                if dk == "F":
                    if rng.random() < 0.5:
                        el.append((name, dv))
                    continue
                if dk in "ID" and rng.random() < 0.4:
                    continue
                if ty == "I":
                    el.append((name, [("n", idvals[e])]))
                    usedids.append(idvals[e])
                else:
                    el.append((name, valid_value(ty, toks, idvals, fresh)))
            rng.shuffle(el)
            doc.append(el)
        cases.append((kind, unparsed, parsed, defs, doc))
    return cases


# ---- several element types, many attributes: per-document bookkeeping thresholds -------------------------------
def scanner_thresholds():
    """(columns per row of XMLScanner::fUIntPool, attribute count above which duplicates are detected by hashing),
    read from /repo's source"""
    import re
    src = open(os.path.join(V.REPO, "src", "xercesc", "internal", "XMLScanner.cpp")).read()
    hpp = open(os.path.join(V.REPO, "src", "xercesc", "internal", "XMLScanner.hpp")).read()
    m1 = re.search(r"fUIntPoolCol\s*<\s*(\d+)", src)
    m2 = re.search(r"attrNumber\s*>\s*(\d+)", hpp)
    if not m1 or not m2:
        raise RuntimeError("cannot read the UInt pool row size / hashed duplicate threshold from XMLScanner")
    return int(m1.group(1)), int(m2.group(1))


def tattr_doc_text(unparsed, parsed, tdefs, doc):
    return with_pad(unparsed, lambda: tattr_doc_text0(unparsed, parsed, tdefs, doc))


def tattr_doc_text0(unparsed, parsed, tdefs, doc):
    out = ['<?xml version="1.0"?>', "<!DOCTYPE r [", "<!ELEMENT r (%s)*>" % "|".join("e%d" % ty for ty, _ in tdefs)]
    out += ["<!ELEMENT e%d (#PCDATA)>" % ty for ty, _ in tdefs]
    out.append('<!NOTATION nt SYSTEM "nt">')
    nots = sorted({t[1] for _, defs in tdefs for d in defs if d[1] == "O" for t in d[2] if t[0] == "n"})
    out += ['<!NOTATION %s SYSTEM "x%d">' % (tok_text(("n", k)), k) for k in nots]
    out += other_decl_lines(unparsed, parsed)
    for ty, defs in tdefs:
        if defs:
            out.append("<!ATTLIST e%d " % ty + "\n  ".join(def_text(d) for d in defs) + ">")
    out.append("]>")
    refs = "".join("&%s;" % tok_text(("n", k)) for k in parsed_names(unparsed, parsed)[:2]) \
        if isinstance(unparsed, dict) else ""
    body = "".join("<e%d%s>%s</e%d>" % (ty, "".join(' a%d="%s"' % (n, val_text(v)) for n, v in el), refs, ty)
                   for ty, el in doc)
    out.append("<r>" + body + "</r>")
    return "\n".join(out) + "\n"


def tattr_req(sw, unparsed, parsed, tdefs, doc):
    dr = "|".join("%d@%s" % (ty, ";".join(def_req(d) for d in defs) if defs else "-") for ty, defs in tdefs)
    er = "/".join("%d@%s" % (ty, ",".join("%d=%s" % (n, val_req(v)) for n, v in el) if el else "-") for ty, el in doc)
    pad = unparsed.get("pad", 0) if isinstance(unparsed, dict) else 0
    return "tattr %d %s %s %s %s%s" % (sw, env_fields(unparsed, parsed), dr, er,
                                       tattr_doc_text(unparsed, parsed, tdefs, doc).encode().hex().upper(),
                                       " %d" % pad if pad else "")


def gen_tattr_cases(ctx):
    """(kind, unparsed, parsed, tdefs, doc)"""
    rng = ctx.rng
    thorough = ctx.tier == "thorough"
    POOL, DUPHASH = scanner_thresholds()
    unparsed, parsed = [50, 51], [60]
    cases = []
    # -- A. the only violation is a faulted-in default / #FIXED value of a reference type
    bad_defaults = [("R", [("n", 98)]), ("RS", [("n", 98), ("n", 97)]), ("E", [("n", 60)]), ("E", [("n", 97)]),
                    ("ES", [("n", 50), ("n", 60)]), ("ES", [("n", 97)])]
    good_defaults = [("R", [("n", 201)]), ("RS", [("n", 201), ("n", 201)]), ("E", [("n", 50)]), ("ES", [("n", 50), ("n", 51)])]
    for ty, dv in bad_defaults + good_defaults:
        for dk in "DF":
            defs0 = [(1, "I", None, "Q", None), (2, ty, None, dk, dv), (3, "C", None, "I", None)]
            good_val = {"R": [("n", 201)], "RS": [("n", 201)], "E": [("n", 50)], "ES": [("n", 51)]}[ty]
            omit = [(0, [(1, [("n", 201)])]), (0, [(1, [("n", 202)]), (3, [("n", 1)])])]        # attribute 2 omitted
            spec_ = [(0, [(1, [("n", 201)]), (2, dv if dk == "F" else good_val)])]             # attribute 2 specified
            cases.append(("attr-default-ref", unparsed, parsed, [(0, defs0)], omit))
            cases.append(("attr-default-ref", unparsed, parsed, [(0, defs0), (1, [(7, "C", None, "I", None)])],
                          [(1, []), omit[0], (1, [(7, [("n", 3)])])]))
            if (ty, dv) in good_defaults or dk == "D":
                cases.append(("attr-default-ref-specified", unparsed, parsed, [(0, defs0)], spec_))
    # -- B. many declared attributes over several element types, used across the row boundaries of the counter pool
    totals = sorted({POOL - 1, POOL, POOL + 1, POOL + 2, POOL + 3, 2 * POOL - 1, 2 * POOL, 2 * POOL + 1, 2 * POOL + 2,
                     DUPHASH, DUPHASH + 1, DUPHASH + 5, 60, 140})
    nwide = 90 if not thorough else 1500
    for it in range(nwide):
        N = rng.choice(totals) if rng.random() < 0.8 else rng.randrange(60, 141)
        pattern = rng.choice(["one", "head+small", "head+small", "even", "even"])
        if pattern == "one":
            sizes = [N]
        elif pattern == "head+small":
            small = rng.randrange(2, 7)
            off = rng.choice([0, 0, 1, 2, -1, -2])
            head = max(1, min(N - small, rng.choice([POOL, 2 * POOL]) + off - rng.choice([0, 0, 1])))
            sizes = [head, small] + ([N - head - small] if N - head - small > 0 else [])
        else:
            k = rng.randrange(3, 8)
            sizes = [N // k] * k
            sizes[-1] += N - sum(sizes)
        nextname = [0]
        idtype = rng.randrange(len(sizes)) if rng.random() < 0.5 else None
        nid = [300]
        tdefs = []
        for ty, sz in enumerate(sizes):
            defs = []
            for j in range(sz):
                nextname[0] += 1
                name = nextname[0]
                r = rng.random()
                if ty == idtype and j == 0:
                    defs.append((name, "I", None, "Q", None))
                    continue
                if r < 0.45:
                    aty, toks = "C", None
                elif r < 0.6:
                    aty, toks = "N", None
                elif r < 0.8:
                    aty, toks = "M", [("n", 1), ("n", 2), ("m", 3)]
                elif r < 0.9:
                    aty, toks = "E", None
                else:
                    aty, toks = "NS", None
                dk = rng.choice("QQIIFD")
                dv = None
                if dk in "FD":
                    dv = {"C": [("n", 5)], "N": [("m", 6)], "M": [("n", 2)], "E": [("n", 50)], "NS": [("n", 5), ("m", 6)]}[aty]
                defs.append((name, aty, toks, dk, dv))
            tdefs.append((ty, defs))

        def full(ty, drop=()):
            el = []
            for d in tdefs[ty][1]:
                name, aty, toks, dk, dv = d
                if name in drop:
                    continue
                if aty == "I":
                    nid[0] += 1
                    v = [("n", nid[0])]
                elif dk == "F":
                    v = dv
                else:
                    v = {"C": [("n", rng.randrange(1, 9))], "N": [("m", 6)], "M": [rng.choice(toks)] if toks else None,
                         "E": [("n", 51)], "NS": [("n", 5)]}[aty]
                el.append((name, v))
            return el
        # first every type once with all its attributes (this fixes the order in which counters are handed out),
        # then further occurrences that omit / break attributes whose counters sit around the row boundaries
        doc = [(ty, full(ty)) for ty in range(len(sizes))]
        order = [d[0] for ty in range(len(sizes)) for d in tdefs[ty][1]]             # attribute name by counter index
        near = [order[i] for i in range(len(order)) if any(abs(i + 1 - b) <= 2 for b in (POOL, 2 * POOL))] or order[-3:]
        typeof = {d[0]: ty for ty, defs in tdefs for d in defs}
        defof = {d[0]: d for ty, defs in tdefs for d in defs}
        mode = rng.choice(["valid", "valid", "omit-required", "omit-default", "bad-fixed", "bad-enum", "omit-any"])
        kind = "attr-wide-" + mode
        target = rng.choice(near)
        if mode == "omit-required":
            c = [x for x in near if defof[x][3] == "Q" and defof[x][1] != "I"]
            target = rng.choice(c) if c else None
        elif mode == "omit-default":
            c = [x for x in near if defof[x][3] in "FD"]
            target = rng.choice(c) if c else None
        elif mode == "bad-fixed":
            c = [x for x in near if defof[x][3] == "F"]
            target = rng.choice(c) if c else None
        elif mode == "bad-enum":
            c = [x for x in near if defof[x][1] == "M" and defof[x][3] != "F"]
            target = rng.choice(c) if c else None
        if target is None:
            mode, kind = "valid", "attr-wide-valid"
        for rep in range(rng.randrange(1, 4)):
            for ty in rng.sample(range(len(sizes)), len(sizes)):
                drop = set()
                for d in tdefs[ty][1]:
                    if d[3] in "IFD" and rng.random() < 0.3:
                        drop.add(d[0])
                el = full(ty, drop)
                if mode != "valid" and typeof[target] == ty:
                    if mode in ("omit-required", "omit-default", "omit-any"):
                        el = [a for a in el if a[0] != target]
                        if mode == "omit-any" and defof[target][1] == "I":
                            pass
                    elif mode == "bad-fixed":
                        el = [a if a[0] != target else (target, [("n", 77)]) for a in el]
                        if not any(a[0] == target for a in el):
                            el.append((target, [("n", 77)]))
                    elif mode == "bad-enum":
                        el = [a if a[0] != target else (target, [("n", 96)]) for a in el]
                        if not any(a[0] == target for a in el):
                            el.append((target, [("n", 96)]))
                rng.shuffle(el)
                doc.append((ty, el))
        cases.append((kind, unparsed, parsed, tdefs, doc))
    # -- C. the demo shape: <e0 a1..aPOOL> then two <e1 x y>, and neighbours
    for head in (POOL - 1, POOL, POOL + 1, 2 * POOL, 2 * POOL + 1):
        d0 = [(i + 1, "C", None, "I", None) for i in range(head)]
        for dk2, dv2 in (("Q", None), ("D", [("n", 5)]), ("I", None)):
            d1 = [(head + 1, "C", None, "I", None), (head + 2, "C", None, dk2, dv2), (head + 3, "C", None, "Q", None)]
            e0 = (0, [(i + 1, [("n", 1)]) for i in range(head)])
            both = (1, [(head + 1, [("n", 1)]), (head + 2, [("n", 2)]), (head + 3, [("n", 3)])])
            part = (1, [(head + 1, [("n", 1)]), (head + 3, [("n", 3)])])
            cases.append(("attr-pool-demo", unparsed, parsed, [(0, d0), (1, d1)], [e0, both, both]))
            cases.append(("attr-pool-demo", unparsed, parsed, [(0, d0), (1, d1)], [e0, both, part]))
            cases.append(("attr-pool-demo", unparsed, parsed, [(0, d0), (1, d1)], [e0, part, both, part]))
    # -- D. one element type occurring very often (element counter), and a tag with > DUPHASH attributes
    d0 = [(1, "C", None, "Q", None), (2, "C", None, "D", [("n", 5)]), (3, "M", [("n", 1), ("n", 2)], "I", None)]
    for cnt in ((300, 1100) if not thorough else (300, 1100, 5000, 70000)):
        doc = [(0, [(1, [("n", 1)])] + ([(3, [("n", 1)])] if i % 3 == 0 else [])) for i in range(cnt)]
        cases.append(("attr-many-elements", unparsed, parsed, [(0, d0)], doc))
        doc2 = list(doc)
        doc2[cnt - 2] = (0, [(3, [("n", 2)])])                       # one late occurrence lacks the required attribute
        cases.append(("attr-many-elements-broken", unparsed, parsed, [(0, d0)], doc2))
    for n in (DUPHASH - 1, DUPHASH, DUPHASH + 1, DUPHASH + 30):
        dn = [(i + 1, "C", None, "I", None) for i in range(n)]
        cases.append(("attr-many-on-tag", unparsed, parsed, [(0, dn)], [(0, [(i + 1, [("n", 1)]) for i in range(n)])] * 2))
        cases.append(("attr-many-on-tag-undeclared", unparsed, parsed, [(0, dn[:n - 1])],
                      [(0, [(i + 1, [("n", 1)]) for i in range(n)])]))
    # -- E. the same documents with the general entities declared among same-named declarations of the other kinds
    noisy = []
    for c in cases:
        if rng.random() < 0.4 and not c[0].startswith("attr-many"):
            noisy.append((c[0] + "+ns",) + (noisy_env(rng, c[1], c[2]), None) + c[3:])
    return cases + noisy + gen_namespace_cases(ctx) + gen_length_cases(ctx)


# ---- the name spaces of the DTD and length thresholds of attribute values ---------------------------------------
def noisy_env(rng, unparsed, parsed):
    """the same general entities, declared among parameter entities / notations / element types of the same names,
    with later re-declarations inside each kind (the first one is binding)"""
    gens = [("u", k) for k in unparsed] + [("g", k) for k in parsed]
    rng.shuffle(gens)
    names = list(unparsed) + list(parsed)
    decls = []
    for g in gens:
        for kind in "pne":
            if rng.random() < 0.35:
                decls.append((kind, g[1]))           # same name, other kind, BEFORE the general entity
        decls.append(g)
    for k in names:
        for kind in "pne":
            if rng.random() < 0.3 and (kind, k) not in decls:
                decls.append((kind, k))              # ... or after it
        if rng.random() < 0.4:
            decls.append((rng.choice("ug"), k))      # a later general declaration of the same name is ignored
        if rng.random() < 0.3 and ("p", k) in decls:
            decls.append(("p", k))
    if rng.random() < 0.5:
        decls.append(("p", 97))                      # a parameter entity only: t97 is NOT a general entity
    return {"decls": decls, "collide": rng.random() < 0.5, "crefs": rng.random() < 0.6}


def attr_buffer_sizes():
    """fixed-size XMLCh buffers of the DTD validator (the value copy in validateAttrValue)"""
    import re
    src = open(os.path.join(V.REPO, "src", "xercesc", "validators", "DTD", "DTDValidator.cpp")).read()
    sizes = sorted({int(x) for x in re.findall(r"XMLCh\s+\w+\[(\d+)\]", src) if int(x) > 16})
    if not sizes:
        raise RuntimeError("no fixed-size XMLCh buffer found in DTDValidator.cpp any more")
    return sizes


def gen_length_cases(ctx):
    """values whose length sits on the validator's buffer sizes, the deciding character LAST"""
    rng = ctx.rng
    lens = set()
    for b in attr_buffer_sizes():
        lens |= {b - 2, b - 1, b, b + 1, b + 2, 2 * b, 2 * b + 1}
    lens |= {255, 256, 1023, 1024, 1025} if ctx.tier == "thorough" else {256, 1024}
    cases = []
    n = lambda k: ("n", k)
    for L in sorted(lens):
        p1 = L - 3            # one token with a 2-digit number:  t + pad + dd
        pb = L - 4            # ... ending in the illegal '#'
        p2 = (L - 7) // 2 if (L - 7) % 2 == 0 else (L - 8) // 2      # two tokens (2+2 or 2+3 digits)
        k2 = 12 if (L - 7) % 2 == 0 else 112
        idq = (1, "I", None, "Q", None)
        env = lambda pad: {"decls": [("u", 50), ("g", 60), ("p", 51)], "pad": pad}

        def add(kind, pad, defs, doc):
            cases.append((kind, env(pad), None, [(0, defs)], [(0, el) for el in doc]))
        for ty in ("N", "NS"):
            add("len-valid", p1, [(2, ty, None, "I", None)], [[(2, [n(11)])], [(2, [("m", 11)])]])
            add("len-bad-last-char", pb, [(2, ty, None, "I", None)], [[(2, [("b", 11)])]])
        add("len-valid", p2, [(2, "NS", None, "I", None)], [[(2, [n(11), ("m", k2)])]])
        add("len-bad-last-char", p2, [(2, "NS", None, "I", None)], [[(2, [n(11), ("b", k2 // 10 if k2 > 99 else k2 // 10 + 10)])]])
        add("len-valid", p1, [idq], [[(1, [n(11)])], [(1, [n(12)])]])                       # two IDs differing in the last char
        add("len-id-reused", p1, [idq], [[(1, [n(11)])], [(1, [n(11)])]])
        add("len-bad-last-char", pb, [idq], [[(1, [("b", 11)])]])
        ir = [idq, (2, "R", None, "I", None)]
        add("len-valid", p1, ir, [[(1, [n(11)]), (2, [n(11)])]])
        add("len-idref-last-char", p1, ir, [[(1, [n(11)]), (2, [n(12)])]])
        add("len-idref-prefix-is-id", L - 3, ir, [[(1, [n(1)]), (2, [n(12)])]])           # the ID is the IDREF minus its last char
        add("len-idref-prefix-is-id", L - 2, ir, [[(1, [n(12)]), (2, [n(1)])]])           # ... and the other way round
        irs = [idq, (2, "RS", None, "I", None)]
        add("len-valid", p2, irs, [[(1, [n(11)])], [(1, [n(k2)]), (2, [n(11), n(k2)])]])
        add("len-idref-last-char", p2, irs, [[(1, [n(11)])], [(1, [n(k2)]), (2, [n(11), n(k2 + 1)])]])
        for ty in ("E", "ES"):
            add("len-valid", p1, [(2, ty, None, "I", None)], [[(2, [n(50)])]])
            add("len-entity-last-char", p1, [(2, ty, None, "I", None)], [[(2, [n(51)])]])      # only a PE of that name
            add("len-entity-parsed", p1, [(2, ty, None, "I", None)], [[(2, [n(60)])]])
        add("len-valid", p1, [(2, "O", [n(11), n(12)], "I", None)], [[(2, [n(12)])]])
        add("len-enum-last-char", p1, [(2, "O", [n(11), n(12)], "I", None)], [[(2, [n(13)])]])
        add("len-valid", p1, [(2, "M", [n(11), ("m", 12)], "I", None)], [[(2, [("m", 12)])], [(2, [n(11)])]])
        add("len-enum-last-char", p1, [(2, "M", [n(11), ("m", 12)], "I", None)], [[(2, [n(12)])]])
        # defaults / #FIXED values of that length
        add("len-valid", p1, [(2, "N", None, "F", [n(11)])], [[], [(2, [n(11)])]])
        add("len-fixed-last-char", p1, [(2, "N", None, "F", [n(11)])], [[(2, [n(12)])]])
        add("len-default-ref", p1, [idq, (2, "R", None, "D", [n(12)])], [[(1, [n(11)])]])
    return cases


def gen_namespace_cases(ctx):
    """general vs parameter entities (both orders), notations and element types of the same names, re-declarations"""
    n = lambda k: ("n", k)
    orders = [[("p", 50), ("u", 50), ("g", 60)], [("u", 50), ("p", 50), ("g", 60), ("p", 60)],
              [("p", 50), ("p", 60), ("g", 60), ("u", 50)], [("u", 50), ("g", 50), ("g", 60), ("u", 60)],
              [("g", 50), ("u", 50), ("u", 60), ("g", 60)], [("n", 50), ("e", 50), ("u", 50), ("g", 60), ("n", 60), ("e", 60)],
              [("p", 50), ("n", 50), ("u", 50), ("p", 50), ("e", 60), ("g", 60)], [("p", 70), ("u", 50), ("g", 60)],
              [("u", 50), ("g", 60)]]
    cases = []
    for decls in orders:
        for collide in (False, True):
            env = {"decls": decls, "collide": collide, "crefs": True}
            defs = [(1, "E", None, "I", None), (2, "ES", None, "I", None), (3, "C", None, "I", None)]
            cases.append(("ns-entity", env, None, [(0, defs)], [(0, [(1, [n(50)])]), (0, [(2, [n(50), n(50)]), (3, [n(1)])])]))
            cases.append(("ns-entity-other", env, None, [(0, defs)], [(0, [(1, [n(60)])])]))
            cases.append(("ns-entity-pe-only", env, None, [(0, defs)], [(0, [(1, [n(70)])]), (0, [(2, [n(50), n(70)])])]))
            cases.append(("ns-entity-default", env, None, [(0, [(1, "E", None, "D", [n(50)]), (3, "C", None, "I", None)])],
                          [(0, []), (0, [(3, [n(2)])])]))
    return cases


# ---- the standalone declaration must survive the text declarations of external parsed entities -------------
def standalone_cases(codes, xerrs):
    """(name, document, {system id: text}, expected code list).  An external general entity declared in the INTERNAL
    subset (so referencing it is legal in a standalone document) is referenced in content BEFORE the construct that
    violates a standalone validity constraint; its file starts with a text declaration or not.  The expected codes
    depend on the document's own standalone declaration and the construct only."""
    dtd = ('<!ELEMENT r (t,e?)>\n<!ELEMENT t (#PCDATA|q)*>\n<!ELEMENT q EMPTY>\n<!ELEMENT e (f?)>\n<!ELEMENT f EMPTY>\n'
           '<!ATTLIST e a CDATA "d" n NMTOKENS #IMPLIED>\n<!ENTITY xe "from-external-subset">\n')
    tdecls = {"none": "", "full": '<?xml version="1.0" encoding="UTF-8"?>', "enc-only": '<?xml encoding="UTF-8"?>',
              "us-ascii": "<?xml version='1.0' encoding='US-ASCII'?>"}
    constructs = {          # name: (text after </t>, extra text inside <t>, code when standalone=yes)
        "default": ("<e/>", "", "V%d" % codes["NoDefAttForStandalone"]),
        "attnorm": ('<e a="v" n=" x  y "/>', "", "V%d" % codes["NoAttNormForStandalone"]),
        "ws": ('<e a="v"> <f/></e>', "", "V%d" % codes["NoWSForStandalone"]),
        "extref": ('<e a="v"/>', "&xe;", "XF%d" % xerrs["IllegalRefInStandalone"]),
        "valid": ('<e a="v"><f/></e>', "", None),
    }
    out = []
    for sa in ("yes", "no", None):
        head = '<?xml version="1.0"%s?>\n' % (' standalone="%s"' % sa if sa else "")
        for cname, (after, inside, code) in constructs.items():
            exp = [code] if (sa == "yes" and code) else []
            for prefix in ("none", "text", "ent", "ent-twice", "ent-nested", "ent-elem"):
                for td in (tdecls if prefix.startswith("ent") else {"none": ""}):
                    files = {"x.dtd": dtd}
                    internal = '<!ENTITY ent SYSTEM "ent.xml">\n<!ENTITY ent2 SYSTEM "ent2.xml">\n'
                    if prefix == "none":
                        pre = ""
                    elif prefix == "text":
                        pre = "plain text"
                    elif prefix == "ent":
                        pre, files["ent.xml"] = "&ent;", tdecls[td] + "entity text"
                    elif prefix == "ent-twice":
                        pre, files["ent.xml"] = "a&ent;b&ent;c", tdecls[td] + "entity text"
                    elif prefix == "ent-nested":
                        pre = "&ent;"
                        files["ent.xml"] = tdecls[td] + "outer &ent2; outer"
                        files["ent2.xml"] = tdecls[td] + "inner"
                    else:
                        pre, files["ent.xml"] = "&ent;", tdecls[td] + "x<q/>y"
                    doc = (head + '<!DOCTYPE r SYSTEM "x.dtd" [\n' + internal + "]>\n<r><t>" + pre + inside + "</t>" + after
                           + "</r>\n")
                    out.append(("standalone-%s-%s-%s-%s" % (sa, cname, prefix, td), doc, files, exp))
    return out



# ---- the declaration scanner (scanContentSpec / scanChildren / scanMixed): token texts -------------------------------
def depth_limit():
    import re
    src = open(os.path.join(V.REPO, "src", "xercesc", "validators", "DTD", "DTDScanner.cpp")).read()
    m = re.search(r"#define\s+CONTENTSPEC_DEPTH_LIMIT\s+(\d+)", src)
    if not m or not re.search(r"depth\s*>\s*CONTENTSPEC_DEPTH_LIMIT", src):
        raise RuntimeError("CONTENTSPEC_DEPTH_LIMIT / its test `depth > CONTENTSPEC_DEPTH_LIMIT` not found in DTDScanner.cpp")
    return int(m.group(1))


def tokenise(txt):
    import re
    return re.findall(r"n\d+|[(),|?*+_#EA]", txt)


def with_spaces(rng, txt, p=0.3):
    """white space at the places the grammar allows: after '(', before ')', around ',' and '|', at the end"""
    toks = tokenise(txt)
    out = []
    for i, t in enumerate(toks):
        if t in "),|" and rng.random() < p:
            out.append("_" * rng.randrange(1, 3))
        out.append(t)
        if t in "(,|" and rng.random() < p:
            out.append("_" * rng.randrange(1, 3))
    if rng.random() < p:
        out.append("_")
    return "".join(out)


def gen_scan_cases(ctx):
    """(kind, request, expected answer or None)"""
    rng = ctx.rng
    lim = depth_limit() + 1
    out = []
    # white space before the content spec is consumed by scanElementDecl before the modelled code starts: never generated
    add = lambda kind, toks, exp: out.append((kind, "scan %d %s" % (lim, toks.lstrip("_") or "n1"), exp))
    add("scan-kw", "E", "t=E")
    add("scan-kw", "A", "t=A")
    add("scan-kw", "E_", "t=E")
    add("scan-kw", "n1", None)
    n = 350 if ctx.tier == "quick" else 6000
    for i in range(n):
        t = rand_model(rng, rng.randrange(1, 6), rng.choice([NAMES, [0, 1, 2, 3, 4, 15]]), wide=True)
        if i % 7 == 0:                                   # groups nested in first position, with suffixes
            for _ in range(rng.randrange(1, 5)):
                t = rng.choice([("S", [t]), ("T", ("S", [t])), ("S", [t, ("L", 1)]), ("C", [("O", t), ("L", 2)])])
        base = text(t)
        sp = with_spaces(rng, base, rng.choice([0.0, 0.2, 0.6]))
        add("scan-grammar", sp, "t=K:" + polish(t))
        toks = tokenise(sp)
        for _ in range(2):                               # error paths: one or two token edits
            m = list(toks)
            for _e in range(rng.randrange(1, 3)):
                op = rng.randrange(3)
                alpha = ["(", ")", ",", "|", "?", "*", "+", "_", "n1", "n7", "#"]
                if op == 0 and m:
                    del m[rng.randrange(len(m))]
                elif op == 1:
                    m.insert(rng.randrange(len(m) + 1), rng.choice(alpha))
                elif m:
                    m[rng.randrange(len(m))] = rng.choice(alpha)
            if m and not any(a[0] == "n" and b[0] == "n" for a, b in zip(m, m[1:])):   # two names would lex as one
                add("scan-mutant", "".join(m), None)
    for _ in range(60 if ctx.tier == "quick" else 600):
        ns = [rng.choice([0, 1, 2, 3]) for _ in range(rng.randrange(0, 5))]
        base = "(#" + "".join("|n%d" % k for k in ns) + ")" + ("*" if ns or rng.random() < 0.5 else "")
        sp = with_spaces(rng, base, rng.choice([0.0, 0.4]))
        add("scan-mixed", sp, "t=M:" + ",".join(str(k) for k in ns))
        m = tokenise(sp)
        k = rng.randrange(len(m))
        m[k:k + 1] = rng.choice([[], ["*"], ["|"], ["n1"], [")"], ["_", "*"], [","], ["("]])
        if m and not any(a[0] == "n" and b[0] == "n" for a, b in zip(m, m[1:])):
            add("scan-mixed-mutant", "".join(m), None)
    L = lim - 1
    for D in (L - 1, L, L + 1, L + 2):                   # groups nested in NON-first position: depth D is reached
        inner = "(n0)"
        pol = "L0"
        for _ in range(D):
            inner = "(n1," + inner + ")"
            pol = "S.L1." + pol
        add("scan-depth", inner, ("t=K:" + pol) if D <= L else None)
    add("scan-depth-first-position", "(" * (L + 500) + "n0" + ")" * (L + 500), "t=K:L0")    # no recursion: no limit
    return out

# ---- catalogue: one validity constraint broken at a time, checked directly on the implementation -----------------
# (name, document, external subset or None, expected XMLValid code or None for "valid: no error at all")
def vc_catalogue():
    D = lambda internal, body, decl='': '<?xml version="1.0"%s?>\n<!DOCTYPE r [%s]>\n%s' % (decl, internal, body)
    E = "<!ELEMENT r EMPTY>"
    cat = [
        ("root-type", '<!DOCTYPE q [<!ELEMENT r EMPTY><!ELEMENT q EMPTY>]><r/>', None, "RootElemNotLikeDocType"),
        ("root-type-ok", D(E, "<r/>"), None, None),
        ("undeclared-element", D("<!ELEMENT r ANY>", "<r><x/></r>"), None, "ElementNotDefined"),
        ("element-twice", D(E + "<!ELEMENT r ANY>", "<r/>"), None, "ElementAlreadyExists"),
        ("undeclared-in-cm", D("<!ELEMENT r (x)?>", "<r/>"), None, None),   # only a warning-free oddity: see below
        ("child-not-allowed", D("<!ELEMENT r (a)><!ELEMENT a EMPTY><!ELEMENT b EMPTY>", "<r><b/></r>"), None,
         "ElementNotValidForContent"),
        ("chardata-in-children", D("<!ELEMENT r (a)><!ELEMENT a EMPTY>", "<r>x<a/></r>"), None, "NoCharDataInCM"),
        ("chardata-in-empty", D(E, "<r>x</r>"), None, "NoCharDataInCM"),
        ("comment-in-empty", D(E, "<r><!--c--></r>"), None, "EmptyElemHasContent"),
        ("charref-ws-in-children", D("<!ELEMENT r (a)><!ELEMENT a EMPTY>", "<r>&#32;<a/></r>"), None,
         "ElemChildrenHasInvalidWS"),
        ("ws-in-children-ok", D("<!ELEMENT r (a)><!ELEMENT a EMPTY>", "<r> \n<a/>\t</r>"), None, None),
        ("text-in-mixed-ok", D("<!ELEMENT r (#PCDATA|a)*><!ELEMENT a EMPTY>", "<r>x<a/>y<a/></r>"), None, None),
        ("mixed-dup", D("<!ELEMENT r (#PCDATA|a|a)*><!ELEMENT a EMPTY>", "<r/>"), None, "RepElemInMixed"),
        ("required-missing", D(E + "<!ATTLIST r a CDATA #REQUIRED>", "<r/>"), None, "RequiredAttrNotProvided"),
        ("attr-undeclared", D(E, '<r a="1"/>'), None, "AttNotDefinedForElement"),
        ("fixed-mismatch", D(E + '<!ATTLIST r a CDATA #FIXED "x">', '<r a="y"/>'), None, "NotSameAsFixedValue"),
        ("fixed-ok", D(E + '<!ATTLIST r a CDATA #FIXED "x">', '<r a="x"/>'), None, None),
        ("id-dup", D("<!ELEMENT r (a,a)><!ELEMENT a EMPTY><!ATTLIST a i ID #REQUIRED>", '<r><a i="x"/><a i="x"/></r>'),
         None, "ReusedIDValue"),
        ("idref-dangling", D(E + "<!ATTLIST r f IDREF #IMPLIED>", '<r f="nope"/>'), None, "IDNotDeclared"),
        ("idref-forward-ok", D("<!ELEMENT r (a,a)><!ELEMENT a EMPTY><!ATTLIST a i ID #IMPLIED f IDREFS #IMPLIED>",
                               '<r><a f="y x"/><a i="x"/></r>'.replace("y x", "x x")), None, None),
        ("id-not-name", D(E + "<!ATTLIST r i ID #IMPLIED>", '<r i="1x"/>'), None, "AttrValNotName"),
        ("id-with-default", D(E + '<!ATTLIST r i ID "x">', "<r/>"), None, "BadIDAttrDefType"),
        ("two-id-attrs", D(E + "<!ATTLIST r i ID #IMPLIED j ID #IMPLIED>", "<r/>"), None, "MultipleIdAttrs"),
        ("entity-attr-parsed", D(E + '<!ENTITY p "x"><!ATTLIST r e ENTITY #IMPLIED>', '<r e="p"/>'), None,
         "BadEntityRefAttr"),
        ("entity-attr-unknown", D(E + "<!ATTLIST r e ENTITY #IMPLIED>", '<r e="p"/>'), None, "UnknownEntityRefAttr"),
        ("entity-attr-ok", D(E + '<!NOTATION n SYSTEM "n"><!ENTITY u SYSTEM "u" NDATA n><!ATTLIST r e ENTITIES #IMPLIED>',
                             '<r e="u u"/>'), None, None),
        ("ndata-undeclared-notation", D(E + '<!ENTITY u SYSTEM "u" NDATA n>', "<r/>"), None, "NotationNotDeclared"),
        ("nmtoken-bad", D(E + "<!ATTLIST r n NMTOKEN #IMPLIED>", '<r n="a#b"/>'), None, "AttrValNotName"),
        ("nmtoken-two", D(E + "<!ATTLIST r n NMTOKEN #IMPLIED>", '<r n="a b"/>'), None, "NoMultipleValues"),
        ("nmtokens-empty", D(E + "<!ATTLIST r n NMTOKENS #IMPLIED>", '<r n=""/>'), None, "InvalidEmptyAttValue"),
        ("enum-not-listed", D(E + "<!ATTLIST r e (a|b) #IMPLIED>", '<r e="c"/>'), None, "DoesNotMatchEnumList"),
        ("enum-dup-token", D(E + "<!ATTLIST r e (a|a) #IMPLIED>", "<r/>"), None, "AttrDupToken"),
        ("enum-bad-default", D(E + '<!ATTLIST r e (a|b) "c">', "<r/>"), None, "DoesNotMatchEnumList"),
        ("notation-unlisted-decl", D('<!ELEMENT r ANY><!NOTATION n SYSTEM "n"><!ATTLIST r t NOTATION (n|m) #IMPLIED>',
                                     "<r/>"), None, "UnknownNotRefAttr"),
        ("notation-on-empty", D(E + '<!NOTATION n SYSTEM "n"><!ATTLIST r t NOTATION (n) #IMPLIED>', "<r/>"), None,
         "EmptyElemNotationAttr"),
        ("two-notation-attrs", D('<!ELEMENT r ANY><!NOTATION n SYSTEM "n"><!ATTLIST r t NOTATION (n) #IMPLIED '
                                 "u NOTATION (n) #IMPLIED>", "<r/>"), None, "ElemOneNotationAttr"),
        ("notation-ok", D('<!ELEMENT r ANY><!NOTATION n SYSTEM "n"><!ATTLIST r t NOTATION (n) #IMPLIED>', '<r t="n"/>'),
         None, None),
        # standalone declaration (external subset served by the harness's entity resolver)
        ("standalone-default", '<?xml version="1.0" standalone="yes"?><!DOCTYPE r SYSTEM "x.dtd"><r/>',
         '<!ELEMENT r EMPTY><!ATTLIST r a CDATA "d">', "NoDefAttForStandalone"),
        ("standalone-default-no", '<?xml version="1.0" standalone="no"?><!DOCTYPE r SYSTEM "x.dtd"><r/>',
         '<!ELEMENT r EMPTY><!ATTLIST r a CDATA "d">', None),
        ("standalone-default-given", '<?xml version="1.0" standalone="yes"?><!DOCTYPE r SYSTEM "x.dtd"><r a="v"/>',
         '<!ELEMENT r EMPTY><!ATTLIST r a CDATA "d">', None),
        ("standalone-attnorm", '<?xml version="1.0" standalone="yes"?><!DOCTYPE r SYSTEM "x.dtd"><r a=" x  y "/>',
         "<!ELEMENT r EMPTY><!ATTLIST r a NMTOKENS #IMPLIED>", "NoAttNormForStandalone"),
        ("standalone-ws", '<?xml version="1.0" standalone="yes"?><!DOCTYPE r SYSTEM "x.dtd"><r> <a/></r>',
         "<!ELEMENT r (a)><!ELEMENT a EMPTY>", "NoWSForStandalone"),
        ("standalone-ws-no", '<?xml version="1.0" standalone="no"?><!DOCTYPE r SYSTEM "x.dtd"><r> <a/></r>',
         "<!ELEMENT r (a)><!ELEMENT a EMPTY>", None),
    ]
    # per-element state of the element stack must not leak to the next element opened at the same depth: an EMPTY element
    # in both spellings after siblings / cousins that contained comments, PIs, references, CDATA
    SD = "<!ELEMENT r (a,e,a?,e?)><!ELEMENT a (#PCDATA|q)*><!ELEMENT q (#PCDATA)><!ELEMENT e EMPTY>"
    for tag, inner in (("comment", "x<!-- note -->"), ("pi", "<?p q?>"), ("charref", "&#65;&#32;"), ("cdata", "<![CDATA[x]]>"),
                       ("entref", "&amp;&lt;"), ("nested-comment", "<q>y<!--c--></q>"), ("plain", "x")):
        for sp, etext in (("tag", "<e/>"), ("pair", "<e></e>")):
            cat.append(("slot-%s-then-empty-%s" % (tag, sp), D(SD, "<r><a>%s</a>%s</r>" % (inner, etext)), None, None))
            cat.append(("slot-%s-then-empty-%s-twice" % (tag, sp),
                        D(SD, "<r><a>%s</a>%s<a>%s</a>%s</r>" % (inner, etext, inner, etext)), None, None))
        cat.append(("slot-%s-then-empty-with-comment" % tag, D(SD, "<r><a>%s</a><e><!--c--></e></r>" % inner), None,
                    "EmptyElemHasContent"))
        cat.append(("slot-%s-then-empty-with-pi" % tag, D(SD, "<r><a>%s</a><e><?p?></e></r>" % inner), None,
                    "EmptyElemHasContent"))
    cat.append(("slot-children-after-comment", D("<!ELEMENT r (a,b)><!ELEMENT a (#PCDATA)><!ELEMENT b (c)><!ELEMENT c EMPTY>",
                                                 "<r><a><!--c--></a><b><c></c></b></r>"), None, None))
    cat.append(("slot-empty-deeper", D("<!ELEMENT r (b,b)><!ELEMENT b (a,e)><!ELEMENT a (#PCDATA)><!ELEMENT e EMPTY>",
                                       "<r><b><a><!--1--></a><e></e></b><b><a><?p?></a><e></e></b></r>"), None, None))
    # enumerated / NOTATION values: exact token membership (prefixes, extensions, case variants are not members), and
    # enumerations whose tokens are prefixes of one another are legal declarations
    EN = E + "<!ATTLIST r k (alpha|beta|gamma) #IMPLIED>"
    for v, exp in (("alp", "DoesNotMatchEnumList"), ("a", "DoesNotMatchEnumList"), ("alphabet", "DoesNotMatchEnumList"),
                   ("Alpha", "DoesNotMatchEnumList"), ("gamm", "DoesNotMatchEnumList"), ("gammaa", "DoesNotMatchEnumList"),
                   ("alpha", None), ("gamma", None)):
        cat.append(("enum-value-%s" % v, D(EN, '<r k="%s"/>' % v), None, exp))
    PF = E + "<!ATTLIST r k (on|once|off|o) #IMPLIED>"
    for v, exp in (("on", None), ("once", None), ("o", None), ("off", None), ("onc", "DoesNotMatchEnumList"),
                   ("of", "DoesNotMatchEnumList"), ("onceX", "DoesNotMatchEnumList")):
        cat.append(("enum-prefix-tokens-%s" % v, D(PF, '<r k="%s"/>' % v), None, exp))
    cat.append(("enum-prefix-tokens-default", D(E + '<!ATTLIST r k (once|on) "on">', "<r/>"), None, None))
    cat.append(("enum-dup-among-prefixes", D(E + "<!ATTLIST r k (on|once|on) #IMPLIED>", "<r/>"), None, "AttrDupToken"))
    NT = '<!ELEMENT r ANY><!NOTATION gif SYSTEM "g"><!NOTATION jpeg SYSTEM "j"><!NOTATION jp SYSTEM "p">'
    for v, exp in (("jpe", "DoesNotMatchEnumList"), ("jpegs", "DoesNotMatchEnumList"), ("gi", "DoesNotMatchEnumList"),
                   ("jpeg", None), ("gif", None)):
        cat.append(("notation-value-%s" % v, D(NT + "<!ATTLIST r n NOTATION (gif|jpeg) #IMPLIED>", '<r n="%s"/>' % v), None, exp))
    cat.append(("notation-prefix-tokens", D(NT + "<!ATTLIST r n NOTATION (jp|jpeg) #IMPLIED>", '<r n="jp"/>'), None, None))
    return [c for c in cat if c[0] != "undeclared-in-cm"]


# ---- other renderings of the same declaration / instance (equal verdict expected) -------------------------------
def spaced(cmtext, rng):
    out = ""
    for ch in cmtext:
        if ch in ",|":
            out += rng.choice(["", " ", "\n"]) + ch + rng.choice(["", " ", "\t "])
        elif ch == "(":
            out += ch + rng.choice(["", " "])
        elif ch == ")":
            out += rng.choice(["", " "]) + ch
        else:
            out += ch
    return out


def variant_doc(rng, variant, cmtext, declared, w, emptytag, model):
    """returns (document text, external subset text or None)"""
    rdecl = "<!ELEMENT r %s>" % cmtext
    others = "".join("<!ELEMENT n%d EMPTY>\n" % d for d in declared)
    kids = ["<n%d/>" % k for k in w]
    body = "<r/>" if (emptytag and not w) else "<r>" + "".join(kids) + "</r>"
    head = '<?xml version="1.0"?>\n'
    if variant == "external":
        return head + '<!DOCTYPE r SYSTEM "x.dtd">\n' + body + "\n", rdecl + "\n" + others
    if variant == "split":
        return head + '<!DOCTYPE r SYSTEM "x.dtd" [\n' + rdecl + "\n]>\n" + body + "\n", others
    if variant == "split2":
        return head + '<!DOCTYPE r SYSTEM "x.dtd" [\n' + others + "]>\n" + body + "\n", "<!-- c -->" + rdecl
    if variant == "pe":
        return (head + "<!DOCTYPE r [\n<!ENTITY %% d '%s'>\n%%d;\n%s]>\n%s\n" % (rdecl, others, body)), None
    if variant == "ext-pe-cm":      # the whole content spec comes from a parameter entity (external subset only)
        return (head + '<!DOCTYPE r SYSTEM "x.dtd">\n' + body + "\n",
                "<!ENTITY %% cs '%s'>\n<!ELEMENT r %%cs;>\n%s" % (cmtext, others))
    if variant == "ws":
        return head + "<!DOCTYPE r [\n<!ELEMENT r %s >\n%s]>\n%s\n" % (spaced(cmtext, rng), others, body), None
    if variant == "iws":            # white space, comments and PIs between the children
        fill = lambda: rng.choice([" ", "\n", "<!--c-->", "<?p i?>", "\t\n ", ""])
        b = "<r>" + fill() + "".join(k + fill() for k in kids) + "</r>"
        return head + "<!DOCTYPE r [\n" + rdecl + "\n" + others + "]>\n" + b + "\n", None
    if variant == "itext":          # character data between the children of a mixed / ANY element
        fill = lambda: rng.choice(["x", "", " y ", "&#65;", "<![CDATA[z]]>"])
        b = "<r>" + fill() + "".join(k + fill() for k in kids) + "</r>"
        return head + "<!DOCTYPE r [\n" + rdecl + "\n" + others + "]>\n" + b + "\n", None
    raise ValueError(variant)


# ---- cross-check of the extracted code inside Coq ----------------------------------------------------------------
def coq_cm(pol):
    """polish text of a cm -> Coq term"""
    toks = pol.split(".")

    def go(i):
        t = toks[i]
        if t[0] == "L":
            return "(Leaf %s)" % t[1:], i + 1
        if t in ("S", "C"):
            a, j = go(i + 1)
            b, k = go(j)
            return "(%s %s %s)" % ("Seq" if t == "S" else "Choice", a, b), k
        a, j = go(i + 1)
        return "(%s %s)" % ({"O": "Opt", "T": "Star", "P": "Plus"}[t], a), j
    term, j = go(0)
    assert j == len(toks)
    return term


def coq_model(m):
    if m == "E":
        return "MEmpty"
    if m == "A":
        return "MAny"
    if m.startswith("M:"):
        return "(MMixed [%s])" % "; ".join(x for x in m[2:].split(",") if x)
    return "(MChildren %s)" % coq_cm(m[2:])


def coq_crosscheck(ctx, picked):
    """picked: list of (model, declared, children, 'ok'|'fail:N', spec 0/1).  Evaluates the Gallina definitions
    themselves by vm_compute (no extraction, no OCaml) and compares with what the extracted program answered."""
    d = os.path.join(V.BUILD, "C07")
    os.makedirs(d, exist_ok=True)
    rows = []
    for m, decl, w, v, sp in picked:
        r = "VOk" if v == "ok" else "(VFail %s)" % v.split(":")[1]
        rows.append("(%s, [%s], [%s], %s, %s)" % (coq_model(m), "; ".join(map(str, decl)), "; ".join(map(str, w)), r,
                                                  "true" if sp else "false"))
    txt = ("(* GENERATED by checks/C07.py: answers of the extracted OCaml program, re-evaluated inside Coq *)\n"
           "From Coq Require Import List Bool Arith.\nImport ListNotations.\n"
           "From XV Require Import C07.Spec07 C07.Model07.\n"
           "Definition vres_eqb (a b : vres) : bool := match a, b with VOk, VOk => true | VFail i, VFail j => Nat.eqb i j "
           "| _, _ => false end.\n"
           "Definition cases : list (cmodel * list nat * list nat * vres * bool) := [\n  %s].\n"
           "Example extracted_agrees : forallb (fun c => match c with (m, decl, w, r, sp) => "
           "vres_eqb (check_content %d m w) r && Bool.eqb (doc_validb decl m w) sp end) cases = true.\n"
           "Proof. vm_compute. reflexivity. Qed.\n" % (";\n  ".join(rows), FUEL))
    path = os.path.join(d, "cases_c07.v")
    open(path, "w").write(txt)
    rc, out = V.sh("timeout 170 coqc -w -all -Q %s XV %s" % (os.path.join(V.COQ, "theories"), path), cwd=d, timeout=200)
    return rc == 0, out


def read_xmlerrs():
    """numeric value of the XMLErrs codes the check names (read from /repo's XMLErrorCodes.hpp)"""
    import re
    src = open(os.path.join(V.REPO, "src", "xercesc", "framework", "XMLErrorCodes.hpp")).read()
    out = {}
    for m in re.finditer(r"\b([A-Za-z_]\w*)\s*=\s*(\d+)", src):
        out[m.group(1)] = int(m.group(2))
    return out


def run_bin(binpath, lines, timeout=3000):
    p = subprocess.run([binpath], input=("\n".join(lines) + "\n").encode(), stdout=subprocess.PIPE,
                       stderr=subprocess.PIPE, timeout=timeout)
    out = p.stdout.decode("ascii", "replace").splitlines()
    return p.returncode, out, p.stderr.decode("utf-8", "replace")


def impl_says_valid(ans):
    """the implementation's verdict for the document: no error of any kind reported"""
    return ans.endswith(" e=-")


def impl_has_fatal(ans):
    e = ans.split(" e=")[-1]
    return any(c.startswith("VF") or c.startswith("XF") or c.startswith("IG:") for c in e.split(","))


def run(ctx):
    t0 = time.time()
    ctx.coverage["trusted_base"] = list(V.GLOBAL_TRUSTED_BASE) + [
        "modelled rather than verified: the DTD scanner that turns the declaration text into the ContentSpecNode tree "
        "(the harness dumps the tree the library built and it must equal the tree handed to the model); CMStateSet "
        "bit operations (abstracted to sorted lists; exercised across the 32/64/128/1024-bit boundaries)"]
    ctx.assumptions = ["element names are compared as whole raw-name strings (fDTD = true)",
                       "the model's worklist is bounded by fuel=%d states; the C++ loop is unbounded" % FUEL]
    ctx.build_lib()
    try:
        codes = TV.generate()
        ctx.coverage["dfa_thresholds"] = TD.read()
    except Exception as e:
        ctx.note("translator failed: %r" % (e,))
        ctx.violation("translator", {"what": "translator can no longer read XMLValidityCodes.hpp / the buildDFA union "
                                     "strategy and CMStateSet constants the generator aims at", "error": repr(e)},
                      no_input=True)
        return
    ok, out, failed = ctx.prove(["Base", "Gen", "C07"],
                                ["theories/C07/Properties_C07.vo", "theories/C07/Extract_C07.vo"],
                                props_file="theories/C07/Properties_C07.v")
    proof_broken = not ok
    if proof_broken:
        ctx.note("proof obligations failed: %s" % failed)
        ctx.note(out[-1500:])
    have_model = os.path.exists(os.path.join(V.VERIF, "ocaml", "C07", "gen_c07.ml"))
    xm = ctx.ocaml("C07", ["gen_c07"]) if have_model else None
    xh = ctx.harness("C07")
    replay_req, replay_rec = None, None
    if ctx.replay:
        replay_rec = json.load(open(ctx.replay))
        replay_req = replay_rec.get("request") or ""
        if replay_req.startswith("cm "):
            a = replay_req.split()
            cases = [("replay", replay_req, a[3], [int(x) for x in a[2].split(",")] if a[2] != "-" else [],
                      [int(x) for x in a[6].split(",")] if a[6] != "-" else [])]
        else:
            cases = []
    else:
        cases = gen_cases(ctx)
    lines = [c[1] for c in cases]
    t1 = time.time()
    rc1, impl, err1 = run_bin(xh, lines)
    t2 = time.time()
    rc2, model, err2 = run_bin(xm, lines)
    t3 = time.time()
    ctx.note("generated %d cases; harness %.1fs, model %.1fs" % (len(lines), t2 - t1, t3 - t2))
    if rc1 != 0 or len(impl) != len(lines):
        ctx.violation("harness-crash", {"what": "implementation harness crashed or lost lines", "rc": rc1,
                                        "stderr": err1[-2000:], "answered": len(impl), "asked": len(lines),
                                        "request": lines[len(impl)] if len(impl) < len(lines) else None})
        return
    if rc2 != 0 or len(model) != len(lines):
        ctx.violation("model-crash", {"what": "model driver crashed", "stderr": err2[-2000:]}, no_input=True)
        return
    # spec oracle on every case (cheap): the extracted Spec decides validity of (declared, model, children)
    spec_lines = ["spec %s %s %s" % (csv(c[3]), c[2], csv(c[4])) for c in cases]
    rc3, spec, err3 = run_bin(xm, spec_lines)
    if rc3 != 0 or len(spec) != len(lines):
        ctx.violation("model-crash", {"what": "spec oracle crashed", "stderr": err3[-2000:]}, no_input=True)
        return
    kinds = {}
    divergences = []
    spec_viol = []
    nvalid = 0
    f26 = []
    xerrs = read_xmlerrs()
    for (kind, rq, m, d, w), i, mo, sp in zip(cases, impl, model, spec):
        ctx.count()
        kinds[kind] = kinds.get(kind, 0) + 1
        ctx.distinct((m, tuple(w), rq.split()[5]))
        if "MODEL_FUEL" in mo:
            kinds["model-fuel"] = kinds.get("model-fuel", 0) + 1
            continue
        valid = sp == "valid 1"
        nvalid += valid
        if i != mo and recursive_groups(rq.split()[4]) > 1000 and i.endswith("e=XF%d" % xerrs.get("UnterminatedDOCTYPE", -1)):
            f26.append((rq, i, mo, sp))           # finding F26: fatal error for > 1000 sibling groups
            continue
        if i != mo:
            divergences.append((kind, rq, i, mo, sp))
        if impl_says_valid(i) != valid or impl_has_fatal(i):
            spec_viol.append((kind, rq, i, mo, sp))
    ctx.coverage["traces_validated_against_impl"] = len(lines)
    ctx.coverage["input_distribution"] = dict(kinds, valid=nvalid, invalid=len(lines) - nvalid)
    ctx.coverage["spec_oracle_checked"] = len(lines)
    for k in (7, len(cases) // 2, len(cases) - 1):
        if 0 <= k < len(cases):
            ctx.sample({"kind": cases[k][0], "request": cases[k][1], "impl": impl[k], "model": model[k], "spec": spec[k]})
    if f26:
        if ctx.find_known("F26"):
            ctx.known_finding("F26", "a content model with more than 1000 parenthesised sibling groups (nesting depth 2) is "
                              "rejected with the fatal error UnterminatedDOCTYPE: DTDScanner::scanChildren never decrements "
                              "its depth counter (witness (n0,(n1) x 1002)); %d generated cases; repaired by "
                              "fixes/C07-cm-group-limit.patch" % len(f26))
        else:
            rq, i, mo, sp = f26[0]
            ctx.violation("F26-group-limit", {"what": "a legal DTD whose content model has more than 1000 sibling groups "
                                              "(nesting depth 2) makes the parser report a FATAL error for a valid document",
                                              "request": rq, "impl": i, "model": mo, "spec": sp})
    for kind, rq, i, mo, sp in spec_viol[:5]:
        ctx.violation("spec", {"request": rq, "impl": i, "model": mo, "spec": sp, "kind": kind,
                               "what": "the implementation's verdict (no error reported <-> valid; never a fatal error) "
                                       "contradicts the Spec oracle"})
    if divergences and not spec_viol:
        kind, rq, i, mo, sp = divergences[0]
        ctx.violation("correspondence", {"what": "model and implementation differ (failing index / error code / tree) "
                                         "although the validity verdict agrees with the Spec: correspondence "
                                         "xh_C07~xm_C07 no longer checks", "request": rq, "impl": i, "model": mo,
                                         "spec": sp, "count": len(divergences)}, no_input=True)
    # ---- the extracted program against the Gallina definitions evaluated by Coq itself --------------------------
    if not ctx.replay and not proof_broken:
        pool = [k for k, c in enumerate(cases) if c[0] in ("small", "small-valid", "small-mutant", "nondet", "deep-valid",
                                                            "deep-mutant", "mixed") and len(c[1]) < 400
                and "MODEL" not in model[k]]
        ctx.rng.shuffle(pool)
        picked = []
        for k in pool[:250 if ctx.tier == "quick" else 1500]:
            v = model[k].split(" v=")[1].split(" ")[0]
            picked.append((cases[k][2], cases[k][3], cases[k][4], v, spec[k] == "valid 1"))
        okc, outc = coq_crosscheck(ctx, picked)
        ctx.coverage["obligations"] += 1
        if okc:
            ctx.coverage["discharged"] += 1
            ctx.coverage["extraction_crosscheck"] = "%d (model, children) answers of bin/xm_C07 re-evaluated by vm_compute in Coq" % len(picked)
        else:
            ctx.violation("extraction-crosscheck", {"what": "answers of the extracted OCaml program differ from the Gallina "
                                                    "definitions evaluated inside Coq (extraction / driver fault)",
                                                    "output": outc[-2000:]}, no_input=True)
    # ---- other renderings of declaration and instance: same codes expected ------------------------------------
    hx = lambda t: t.encode().hex().upper()
    if ctx.replay and replay_rec.get("tag") == "variant":
        rcv, vout, _ = run_bin(xh, [replay_rec["variant_request"]])
        got = vout[0].split(" a=")[0][2:] if vout else "no answer"
        if got != replay_rec["expected"]:
            ctx.violation("variant", dict(replay_rec, impl=vout[0] if vout else None))
    if not ctx.replay:
        rng = ctx.rng
        idx = list(range(len(cases)))
        rng.shuffle(idx)
        vlines, vexp, vinfo = [], [], []
        for k in idx[:(1500 if ctx.tier == "quick" else 20000)]:
            kind, rq, m, d, w = cases[k]
            a = rq.split()
            cmtext, emptytag = a[4], a[5] == "1"
            opts = ["external", "split", "split2", "pe", "ext-pe-cm", "ws"]
            if m != "E":
                opts.append("iws")
            if m == "A" or m.startswith("M:"):
                opts.append("itext")
            variant = rng.choice(opts)
            if variant in ("iws", "itext") and emptytag:
                continue
            doc, ext = variant_doc(rng, variant, cmtext, d, w, emptytag, m)
            vlines.append("doc v %s%s" % (hx(doc), " " + hx(ext) if ext is not None else ""))
            vexp.append(impl[k].split(" e=")[-1])
            vinfo.append((variant, rq))
        rcv, vout, verr_ = run_bin(xh, vlines)
        if rcv != 0 or len(vout) != len(vlines):
            ctx.violation("harness-crash", {"what": "harness crashed on a DTD rendering variant", "stderr": verr_[-2000:],
                                            "request": vlines[len(vout)] if len(vout) < len(vlines) else None})
            return
        vbad = 0
        for (variant, rq), exp, o, line in zip(vinfo, vexp, vout, vlines):
            ctx.count()
            kinds["variant-" + variant] = kinds.get("variant-" + variant, 0) + 1
            got = o.split(" a=")[0][2:]
            if got != exp:
                vbad += 1
                if vbad <= 3:
                    ctx.violation("variant", {"what": "the same declaration/instance rendered as '%s' gives different "
                                              "validity errors than the internal-subset rendering (which agrees with the "
                                              "model and the Spec)" % variant, "request": rq, "variant_request": line,
                                              "expected": exp, "impl": o})
        ctx.coverage["input_distribution"] = dict(kinds, valid=nvalid, invalid=len(lines) - nvalid)
    # ---- catalogue: every violated constraint yields >= 1 validity error and no fatal error -------------------
    cat = vc_catalogue()
    clines = ["doc v %s%s" % (hx(d), " " + hx(e) if e is not None else "") for _, d, e, _ in cat]
    rcc, cout, cerr = run_bin(xh, clines)
    if rcc != 0 or len(cout) != len(clines):
        ctx.violation("harness-crash", {"what": "harness crashed on the constraint catalogue", "stderr": cerr[-2000:]})
        return
    for (name, d, e, exp), o, line in zip(cat, cout, clines):
        ctx.count()
        es = o.split(" a=")[0][2:]
        if exp is None:
            good = es == "-"
        else:
            cl = es.split(",")
            good = ("V%d" % codes[exp]) in cl and all(c.startswith("V") and c[1:].isdigit() for c in cl)
        if not good:
            ctx.violation("catalogue", {"what": "constraint catalogue entry '%s': expected %s, no fatal error, nothing else "
                                        "than validity errors" % (name, exp or "no error"), "request": line, "document": d,
                                        "external_subset": e, "impl": o})
    kinds["catalogue"] = len(cat)
    # ---- standalone declaration x text declarations of external parsed entities --------------------------------
    sc = standalone_cases(codes, xerrs)
    slines = ["docx v %s %s" % (hx(d), ",".join("%s=%s" % (k, hx(v) if v else "-") for k, v in sorted(f.items())))
              for _, d, f, _ in sc]
    if ctx.replay:
        sc, slines = [], []
        if replay_rec.get("tag") == "standalone":
            sc = [(replay_rec["name"], replay_rec["document"], replay_rec["files"], replay_rec["expected"])]
            slines = [replay_rec["request"]]
    rcs, sout, serr = run_bin(xh, slines)
    if rcs != 0 or len(sout) != len(slines):
        ctx.violation("harness-crash", {"what": "harness crashed on the standalone / external entity cases",
                                        "stderr": serr[-2000:]})
        return
    nsb = 0
    for (name, d, f, exp), o, line in zip(sc, sout, slines):
        ctx.count()
        ctx.distinct(name)
        got = o.split(" a=")[0][2:]
        got = [] if got == "-" else got.split(",")
        if got != exp:
            nsb += 1
            if nsb <= 3:
                ctx.violation("standalone", {"what": "the validity (or WFC) errors of a document must be those of its own "
                                             "standalone declaration and the violating construct; a reference to an external "
                                             "parsed entity (with or without a text declaration) before the construct must not "
                                             "change them", "name": name, "request": line, "document": d, "files": f,
                                             "expected": exp, "impl": o})
    kinds["standalone-entity"] = len(sc)
    # ---- the declaration scanner: model (extracted scan_element_decl) vs DTDScanner on token texts -----------------
    try:
        scases = gen_scan_cases(ctx)
    except Exception as e:
        ctx.violation("translator", {"what": "cannot read the content-spec depth limit from DTDScanner.cpp", "error": repr(e)},
                      no_input=True)
        scases = []
    if ctx.replay:
        scases = [("replay", replay_req, replay_rec.get("expected"))] if replay_req.startswith("scan ") else []
    sl = [c[1] for c in scases]
    rci, simpl, serr_ = run_bin(xh, sl)
    rcm, smodel, _ = run_bin(xm, sl)
    if rci != 0 or len(simpl) != len(sl):
        ctx.violation("harness-crash", {"what": "harness crashed on a content-spec text", "stderr": serr_[-2000:],
                                        "request": sl[len(simpl)] if len(simpl) < len(sl) else None})
        return
    if rcm != 0 or len(smodel) != len(sl):
        ctx.violation("model-crash", {"what": "model driver crashed on content-spec texts"}, no_input=True)
        return
    nsd = 0
    scan_err_seen = {}
    for (kind, rq, exp), i, mo in zip(scases, simpl, smodel):
        ctx.count()
        ctx.distinct(rq)
        kinds[kind] = kinds.get(kind, 0) + 1
        mo2 = mo
        if mo.startswith("E:"):
            scan_err_seen[mo[2:]] = scan_err_seen.get(mo[2:], 0) + 1
            mo2 = "E:XF%d" % xerrs.get(mo[2:], -1)
        bad_spec = exp is not None and i != exp
        if i != mo2 or bad_spec:
            nsd += 1
            if nsd <= 3:
                ctx.violation("scan-spec" if bad_spec else "scan-divergence",
                              {"what": ("DTDScanner builds a different tree than the grammatical text denotes (or rejects it)"
                                        if bad_spec else "DTDScanner and the model of scanContentSpec/scanChildren/scanMixed "
                                        "differ on a content-spec text (tree or first fatal error)"),
                               "request": rq, "impl": i, "model": mo, "expected": exp}, no_input=False)
    ctx.coverage["scan_error_paths"] = scan_err_seen
    # ---- attributes ------------------------------------------------------------------------------------------------
    if ctx.replay:
        acases, l1, l0 = [], [], []
        if replay_req.startswith("attr "):
            a = replay_req.split()
            acases = [("attr-F25-witness" if replay_rec.get("tag") == "F25-enum-multi" else "replay",)]
            l1 = [" ".join(a[:1] + ["1"] + a[2:])]
            l0 = [" ".join(a[:1] + ["0"] + a[2:])]
        elif replay_req.startswith("tattr "):
            a = replay_req.split()
            acases = [("replay",)]
            l1 = [" ".join(a[:1] + ["1"] + a[2:])]
            l0 = [" ".join(a[:1] + ["0"] + a[2:])]
    else:
        acases = gen_attr_cases(ctx)
        l1 = [attr_req(1, *c[1:]) for c in acases]
        l0 = [attr_req(0, *c[1:]) for c in acases]
        tcases = gen_tattr_cases(ctx)
        acases = acases + tcases
        l1 += [tattr_req(1, *c[1:]) for c in tcases]
        l0 += [tattr_req(0, *c[1:]) for c in tcases]
    sp = [" ".join([("taspec" if l.startswith("tattr") else "aspec")] + l.split()[2:6]) for l in l1]
    rca, aimpl, aerr = run_bin(xh, l1)
    rcb, am1, _ = run_bin(xm, l1)
    rcc2, am0, _ = run_bin(xm, l0)
    rcd, aspec, _ = run_bin(xm, sp)
    if rca != 0 or len(aimpl) != len(l1):
        ctx.violation("harness-crash", {"what": "harness crashed on an attribute case", "stderr": aerr[-2000:],
                                        "request": l1[len(aimpl)] if len(aimpl) < len(l1) else None})
        return
    if len(am1) != len(l1) or len(am0) != len(l1) or len(aspec) != len(l1):
        ctx.violation("model-crash", {"what": "model driver crashed on attribute cases"}, no_input=True)
        return
    f25_seen = 0
    f25_witness = False
    adiv = []
    nbad_other = 0
    for k, (c, i, m1, m0, spv) in enumerate(zip(acases, aimpl, am1, am0, aspec)):
        ctx.count()
        kinds[c[0]] = kinds.get(c[0], 0) + 1
        ctx.distinct(l1[k][:l1[k].rindex(" ")])
        valid = spv == "valid 1"
        ivalid = i.startswith("e=- ")
        bad_other = ("NONVALIDATING-DIFFERS" in i or i.startswith("exception") or i.startswith("scanners-differ")
                     or any(x.startswith(("VF", "VW", "X")) for x in i.split(" a=")[0][2:].split(",")))
        if bad_other:
            nbad_other += 1
            if nbad_other > 3:
                continue
            ctx.violation("attr-impl", {"what": "attribute case: fatal/other error, scanners differ, or the attributes "
                                        "delivered without validation differ from those delivered with validation",
                                        "request": l1[k], "impl": i, "model": m1})
            continue
        if i == m0:                       # repaired behaviour (also the behaviour outside the F25 class)
            if ivalid != valid:
                ctx.violation("spec", {"what": "attribute verdict contradicts the Spec", "request": l0[k], "impl": i,
                                       "spec": spv})
            continue
        if i == m1 and f25_class_req(l1[k]) and (m0.startswith("e=- ") == valid):
            f25_seen += 1
            if k < 2:
                f25_witness = True
            continue
        adiv.append((k, i, m1, m0, spv))
    if f25_seen:
        if ctx.find_known("F25") and f25_witness:
            ctx.known_finding("F25", "a NOTATION / enumeration attribute value made of several listed tokens is accepted "
                              "(witness <!ATTLIST e a1 (t1|t2) #IMPLIED> with a1=\"t1 t2\": no validity error); %d generated "
                              "cases of this class; repaired by fixes/C07-enum-single-token.patch" % f25_seen)
        else:
            ctx.violation("F25-enum-multi", {"what": "a NOTATION / enumeration attribute value made of several listed tokens "
                                             "is accepted (VC Enumeration / Notation Attributes violated, no error)",
                                             "request": l1[0], "impl": aimpl[0], "model_repaired": am0[0],
                                             "spec": aspec[0]})
    # cases in which the implementation's verdict contradicts the Spec come first: they carry a concrete replay
    adiv.sort(key=lambda x: (x[1].startswith("e=- ") == (x[4] == "valid 1"), x[0]))
    for k, i, m1, m0, spv in adiv[:4]:
        viol = i.startswith("e=- ") != (spv == "valid 1")
        ctx.violation("divergence" if viol else "correspondence",
                      {"what": "attribute case: implementation differs from the model" +
                       (" and contradicts the Spec" if viol else " (verdict still agrees with the Spec)"),
                       "request": l1[k], "impl": i, "model_as_written": m1, "model_repaired": m0, "spec": spv},
                      no_input=not viol)
    ctx.coverage["attr_cases"] = {"impl_faults": nbad_other, "total": len(acases), "valid": sum(1 for x in aspec if x == "valid 1"),
                                  "f25_class": f25_seen, "divergences": len(adiv)}
    ctx.coverage["input_distribution"] = dict(kinds, valid=nvalid, invalid=len(lines) - nvalid)
    ctx.coverage["traces_validated_against_impl"] = len(lines) + len(acases) + len(cat)
    if proof_broken and not ctx.violations:
        ctx.violation("obligation", {"what": "Coq obligation no longer checks and no failing input was found by the "
                                     "correspondence sweeps", "failed": failed, "output": out[-3000:]}, no_input=True)
    ctx.coverage["rule"] = ("EMPTY/ANY/mixed x all child sequences up to length 3 over 3 declared + 1 undeclared name; "
                            "all content models of 1..4 nodes (5: sample; all in thorough) over 3 names x all sequences up "
                            "to length 4 (5 in thorough) + valid-by-construction words + one-edit mutants; random deeper "
                            "n-ary models; classic non-deterministic shapes x all words up to length 6; 31..140-leaf models "
                            "across the CMStateSet word/representation boundaries; distinct by (model, children, tag form)")
    ctx.coverage["rule"] += ("; a sample re-rendered with external / split subsets, parameter entities, white space in "
                             "the declaration, white space / comments / PIs / text between children (same codes required); "
                             "attribute declarations of every type and default kind x 1..4 element instances, valid by "
                             "construction or with 1-2 rules broken, each also parsed without validation (same delivered "
                             "attributes required); documents with several element types and 60..140 declared attributes used across the "
                             "rows of the scanner's per-document counter pool, one rule broken at a row boundary; element types "
                             "occurring 300/1100 times; tags with ~100..130 attributes; defaults of reference types as the only "
                             "violation; all attribute documents under both scanners with namespaces off and on; a catalogue of "
                             "%d documents breaking one constraint each; %d documents crossing {standalone yes/no/absent} x {default from the "
                             "external subset, normalisation change, white space in element content, externally declared "
                             "entity reference, valid} x {external parsed entity referenced before the construct: none / once / "
                             "twice / nested / with markup} x {no / full / encoding-only / US-ASCII text declaration}; attribute "
                             "values of length b-2..b+2, 2b (b = fixed buffers of the DTD validator) with the deciding "
                             "character last; general entities declared among same-named parameter entities / notations / "
                             "element types in both orders with re-declarations" % (len(cat), len(sc)))
    ctx.coverage["exhaustive"] = False
    ctx.note("correspondence: %d cases, %d divergences, %d spec contradictions, %.1fs" % (
        len(lines), len(divergences), len(spec_viol), time.time() - t0))
