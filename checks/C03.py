"""C03 -- Reported content equals the document's infoset; SAX, SAX2, DOM, DOMLSParser agree.
Theorems: coq/theories/C03/Properties_C03.v (end-of-line handling = XML 1.0 2.11; attribute-value normalisation =
3.3.3 for CDATA and, on the inline path / under a guard on the namespace path, tokenised types; content
independent of every lexical choice as corollary of C02's accept theorem).
Correspondence: (1) the whole C02 correspondence (random lexical documents x 4 APIs x 4 scanners x namespaces: events =
`events d`, APIs pairwise equal incl. error positions); (2) attribute normalisation: random raw values (literal /
character-reference characters incl. every white-space form) in CDATA and NMTOKENS attributes declared in an internal
subset, IG and DG scanners x namespaces x APIs, against the extracted models and the extracted section 3.3.3 spec."""
import os
import sys

import vcommon as V
import C02


def gen_values(rng, n):
    vals = []
    pool = [0x61, 0x62, 0x7A, 0x20, 0x20, 0x09, 0x0A, 0x0D, 0x41, 0x2D, 0xE9, 0x4E2D]
    for _ in range(n):
        v = []
        for _ in range(rng.choice([0, 1, 2, 3, 5, 8, 12])):
            c = rng.choice(pool)
            esc = rng.random() < 0.4
            v.append((esc, c))
        vals.append(v)
    return vals


def render_value(v, rng):
    out = ""
    for esc, c in v:
        if esc:
            out += ("&#%d;" % c) if rng.random() < 0.5 else ("&#x%X;" % c)
        else:
            out += chr(c)
    return out


def norm_eol_literal(v):
    """what the raw value looks like after the reader's line-end normalisation: a literal CR becomes LF (we never
    generate CR LF pairs of literals next to each other: a literal CR directly followed by a literal LF is merged)"""
    out = []
    i = 0
    while i < len(v):
        esc, c = v[i]
        if not esc and c == 0x0D:
            if i + 1 < len(v) and v[i + 1] == (False, 0x0A):
                i += 1
            out.append((False, 0x0A))
        else:
            out.append((esc, c))
        i += 1
    return out


NBUF = 16384        # XMLReader::kCharBufSize: the character buffer is refilled in blocks of this many characters


def u16hex(s):
    b = s.encode("utf-16-be", "surrogatepass")
    return b.hex().upper() or "-"


def large_eol(ctx, xh, xm3):
    """line-end normalisation across character-buffer refills: documents > 16K and > 32K characters whose line ends
    (CR LF, CR, LF) are placed so that a CR falls on every offset N-3..N+2 around each multiple of 16384, in the
    document entity and in an external parsed entity; plus CR LF-saturated texts in both parities, which put a CR
    in the last buffer position whatever the exact refill arithmetic is.  Expected character data = the extracted
    section 2.11 function (eol_spec) of the text; line number of a late element start = 1 + normalised line ends."""
    rng = ctx.rng
    docs = []      # (kind, prefix(before text), text, suffix, where)

    def filler(n):
        out = []
        while len(out) < n:
            out += list("x" * rng.choice([1, 3, 7, 20, 60])) + list(rng.choice(["\n", "\r\n", "\r", " "]))
        return out[:n]
    combos = [(d, st) for d in (-3, -2, -1, 0, 1, 2) for st in ("crlf", "cr", "crcrlf")]
    rng.shuffle(combos)
    must = [(-1, "crlf"), (-1, "crcrlf")]
    chosen = must + [c for c in combos if c not in must][:(4 if ctx.tier == "quick" else 16)]
    for (delta, style) in chosen:
        for where in ("doc", "ent"):
            pre = "<r>" if where == "doc" else ""
            total = rng.choice([34000, 50000])
            t = filler(total)
            # CR index (0-based offset in the entity's character sequence) = k*N + delta
            for k in range(1, total // NBUF + 1):
                i = k * NBUF + delta - len(pre)
                if i + 3 >= len(t) or i < 1:
                    continue
                if t[i - 1] == "\r":
                    t[i - 1] = "y"
                seq = {"crlf": ["\r", "\n", "z"], "cr": ["\r", "z", "z"], "crcrlf": ["\r", "\r", "\n"]}[style]
                t[i:i + 3] = seq
                if t[i + 3] == "\n":
                    t[i + 3] = "w"
            docs.append(("targeted/%s/%d" % (style, delta), where, "".join(t)))
    for parity in (0, 1):
        for where in ("doc", "ent"):
            docs.append(("saturated/%d" % parity, where, ("q" * parity) + "\r\n" * 18000))
    # expected text through the extracted spec
    exp = C02.run_lines(xm3, ["eol " + u16hex(t) for _, _, t in docs])
    lines, meta = [], []
    for k, (kind, where, t) in enumerate(docs):
        if where == "doc":
            doc = "<r>" + t + "<e/></r>"
            extra = ""
            scs = C02.SCANNERS
        else:
            doc = '<!DOCTYPE r [<!ENTITY x SYSTEM "big.ent">]><r>&x;<e/></r>'
            extra = " big.ent=" + t.encode("utf-8").hex().upper()
            scs = ["IG", "DG"]
        for sc in scs:
            for a in C02.APIS:
                ns = (k + len(sc) + len(a)) % 2
                lines.append("parse %s %s %d %s l%s" % (a, sc, ns, doc.encode("utf-8").hex().upper(), extra))
                meta.append((k, a, sc, ns))
    out = C02.run_lines(xh, lines, jobs=8)
    nbad = 0
    for (k, a, sc, ns), req, o in zip(meta, lines, out):
        ctx.count()
        kind, where, t = docs[k]
        model_t, spec_t = exp[k].split()
        ev, errs, fh = C02.parse_impl(o)
        ctx.distinct(("eol-large", kind, where, sc, a))
        nline = 1 + (spec_t.count("000A") if where == "doc" else 0)   # '000A' aligned count below
        units = [spec_t[i:i + 4] for i in range(0, len(spec_t), 4)]
        nline = 1 + (units.count("000A") if where == "doc" else 0)
        toks = ev.split(" ")
        want_text = "T" + spec_t
        got_text = toks[1] if len(toks) > 1 else ""
        problem = None
        if errs:
            problem = "errors reported for a well-formed document: %s" % errs[:2]
        elif got_text != want_text:
            gu = [got_text[1:][i:i + 4] for i in range(0, len(got_text) - 1, 4)]
            problem = ("character data differs from the section 2.11 normalisation of the input: %d characters delivered, "
                       "%d expected, %d line feeds delivered, %d expected" % (len(gu), len(units), gu.count("000A"),
                                                                              units.count("000A")))
        elif a in ("sax", "sax2"):
            st = [x for x in toks if x.startswith("S0065")]
            ln = st[0].split("@")[1].split(":")[0] if st and "@" in st[0] else None
            if ln != str(nline):
                problem = "line number of the <e/> start tag is %s, expected %d (1 + normalised line ends)" % (ln, nline)
        if problem:
            nbad += 1
            if nbad <= 3:
                textual = "line number" not in problem
                ctx.violation("eol-large", {"what": "%s/%s (%s, %s entity): %s" % (a, sc, kind, "document" if where == "doc" else "external parsed", problem),
                                            # the replay request drops the line-info flag so that the expected dump is exact
                                            "request": " ".join(x if j != 5 else "-" for j, x in enumerate(req.split(" "))) if textual else req,
                                            "impl": [ev[:200] + "...", errs, fh], "tag": "eol-large",
                                            "expect": {"fatal": False, "events": ("S0072 " + want_text + " S0065 E0065 E0072") if textual else None}})
    ctx.coverage["large_eol_documents"] = len(docs)
    ctx.coverage["traces_validated_against_impl"] += len(lines)


def balanced_entities(ev):
    st = []
    for t in ev.split(" "):
        if t.startswith("R"):
            st.append(t[1:])
        elif t.startswith("r"):
            if not st or st[-1] != t[1:]:
                return False
            st.pop()
    return not st


def progressive(ctx, xh):
    """parse() versus parseFirst/parseNext for SAXParser, SAX2XMLReader and XercesDOMParser on every scanner, with
    entity-reference reporting on (DOM create-entity-reference-nodes, LexicalHandler startEntity/endEntity, advanced
    handler start/endEntityReference) and off: the two must print the identical dump, entity events must be balanced,
    and the dump without entity events must be the one with them after deleting the R/r tokens"""
    import C02_dtd as GD
    rng = ctx.rng
    docs = []
    n = 60 if ctx.tier == "quick" else 2000
    while len(docs) < n:
        d = GD.gen(rng)
        if GD.expected_fatal(d):
            continue
        docs.append((GD.render(d, rng), "", ["IG", "DG"], GD.expected_events(d)))
    for i in range(12 if ctx.tier == "quick" else 200):
        body = "t%d<b>u</b>v" % i
        ent = ("<?xml version='1.0' encoding='UTF-8'?>" if i % 2 else "") + body
        nested = '<!ENTITY n "[&x;]">' if i % 3 == 0 else ""
        ref = "&n;" if nested else "&x;"
        doc = '<!DOCTYPE r [<!ENTITY x SYSTEM "e%d.ent">%s]><r a="1">p%sq<c/>%s</r>' % (i, nested, ref, ref if i % 4 == 0 else "")
        docs.append((doc, " e%d.ent=%s" % (i, ent.encode().hex().upper()), ["IG", "DG"], None))
    for i in range(10):
        docs.append(("<r><a x='1'>t&amp;u<![CDATA[c]]></a><!--k--><?p d?><b/>tail</r>", "", C02.SCANNERS, None))
    lines, meta = [], []
    for k, (doc, extra, scs, exp) in enumerate(docs):
        bx = doc.encode("utf-8").hex().upper()
        for sc in scs:
            for a in ("sax", "sax2", "dom"):
                ns = (k + len(a)) % 2
                for fl in ("-", "p", "r", "pr"):
                    lines.append("parse %s %s %d %s %s%s" % (a, sc, ns, bx, fl, extra))
                    meta.append((k, a, sc, ns, fl))
            lines.append("parse ls %s %d %s r%s" % (sc, k % 2, bx, extra))
            meta.append((k, "ls", sc, k % 2, "r"))
    out = C02.run_lines(xh, lines, jobs=8)
    res = {m: (o, req) for m, o, req in zip(meta, out, lines)}
    nbad = 0

    def bad(what, req, o, other=None):
        nonlocal nbad
        nbad += 1
        if nbad <= 3:
            exp_ev = C02.parse_impl(other)[0] if other and " | " in other and not C02.parse_impl(other)[1] else None
            ctx.violation("progressive", {"what": what, "request": req, "impl": o, "other": other, "tag": "progressive",
                                          "expect": {"fatal": False, "events": exp_ev}})
    strip = lambda ev: " ".join(t for t in ev.split(" ") if not (t.startswith("R") or t.startswith("r"))) or "-"
    for (k, a, sc, ns, fl), (o, req) in res.items():
        ctx.count()
        ctx.distinct(("prog", k, a, sc, fl))
        ev, errs, fh = C02.parse_impl(o)
        if a == "ls":
            if not balanced_entities(ev):
                bad("DOMLSParser tree: entity reference tokens not balanced", req, o)
            continue
        if errs:
            bad("%s/%s flags=%s: errors on a well-formed document: %s" % (a, sc, fl, errs[:2]), req, o)
            continue
        if "p" in fl:
            one = res[(k, a, sc, ns, fl.replace("p", "") or "-")][0]
            if one != o:
                bad("%s/%s: parseFirst/parseNext delivers a different stream than parse() (flags %s)" % (a, sc, fl),
                    req, o, one)
                continue
        if "r" in fl:
            if not balanced_entities(ev):
                bad("%s/%s flags=%s: startEntity/endEntity (entity reference open/close) events are not balanced" % (a, sc, fl),
                    req, o)
                continue
            plain = res[(k, a, sc, ns, fl.replace("r", "") or "-")][0]
            # merged text may be split at an entity boundary: compare after re-merging adjacent T tokens
            if remerge(strip(ev)) != remerge(C02.parse_impl(plain)[0]):
                bad("%s/%s flags=%s: content with entity-reference reporting differs from content without" % (a, sc, fl),
                    req, o, plain)
        exp = docs[k][3]
        if exp is not None and "r" not in fl and ev != exp:
            bad("%s/%s flags=%s: content differs from the entity-expanded document" % (a, sc, fl), req, o, exp)
    # cross API agreement with entity events on (one-shot)
    for k in range(len(docs)):
        for sc in docs[k][2]:
            ref = res.get((k, "sax", sc, (k + 3) % 2, "r"))
            for a in ("sax2", "dom"):
                x = res.get((k, a, sc, (k + len(a)) % 2, "r"))
                if ref and x and remerge(C02.parse_impl(ref[0])[0]) != remerge(C02.parse_impl(x[0])[0]) and not C02.parse_impl(x[0])[1]:
                    bad("sax and %s (scanner %s) disagree on the stream with entity boundaries" % (a, sc), x[1], x[0], ref[0])
    ctx.coverage["progressive_documents"] = len(docs)
    ctx.coverage["traces_validated_against_impl"] += len(lines)


XSD = ("<xs:schema xmlns:xs='http://www.w3.org/2001/XMLSchema' targetNamespace='%s' elementFormDefault='qualified'>"
       + "".join("<xs:element name='%s'><xs:complexType mixed='true'><xs:sequence><xs:any minOccurs='0' maxOccurs='unbounded' "
                 "processContents='lax'/></xs:sequence><xs:anyAttribute processContents='lax'/></xs:complexType></xs:element>" % n
                 for n in ("a", "b", "c")) + "</xs:schema>")


def ns_names(ctx, xh):
    """the SAME expanded name under different prefixes (and prefixed versus default-namespace spelling) within one
    document and across consecutive parses on cached parsers: the qualified name reported (SAX1, SAX2 qName, DOM
    nodeName) must be the one the tag spells, SAX2 uri/localName and DOM namespaceURI/localName the expanded name; all
    scanners with namespaces on, and IG / SG with schema processing against a trivial schema declaring the elements
    (where element declarations are shared per expanded name)"""
    rng = ctx.rng
    H = lambda t: "".join("%04X" % ord(c) for c in t)
    uris = ["urn:x", "urn:y"]
    docs = []
    for k in range(40 if ctx.tier == "quick" else 1500):
        binds = {"p": "urn:x", "q": "urn:x", "r": "urn:y", "s": "urn:y"}
        out = []
        exp = []      # (qname, attrs[(qname, value)], uri, local)  | ("E", qname)

        def elem(depth, default_ns, root=False):
            local = rng.choice("abc")
            uri = "urn:x" if root else rng.choice(uris + uris + [default_ns])
            attrs = []
            spell_default = False
            if uri == "":
                q = local
                if default_ns != "":
                    attrs.append(("xmlns", ""))
                    default_ns = ""
            else:
                cands = [p for p, u in binds.items() if u == uri]
                if rng.random() < 0.3:
                    q = local
                    if default_ns != uri:
                        attrs.append(("xmlns", uri))
                        default_ns = uri
                else:
                    q = rng.choice(cands) + ":" + local
            if root:
                attrs += [("xmlns:" + p, u) for p, u in binds.items()]
                attrs.append(("xmlns:xsi", "http://www.w3.org/2001/XMLSchema-instance"))
                attrs.append(("xsi:schemaLocation", "urn:x x.xsd urn:y y.xsd"))
            if rng.random() < 0.3:
                attrs.append((rng.choice(list(binds)) + ":t", "1"))
            if rng.random() < 0.2:
                attrs.append(("u", "2"))
            out.append("<" + q + "".join(" %s='%s'" % a for a in attrs) + ">")
            exp.append((q, attrs, uri, local))
            for _ in range(rng.choice([0, 1, 2, 3]) if depth < 3 else 0):
                elem(depth + 1, default_ns)
            out.append("</" + q + ">")
            exp.append(("E", q))
        elem(0, "", root=True)
        docs.append(("".join(out), exp))
    res = " x.xsd=%s y.xsd=%s" % ((XSD % "urn:x").encode().hex().upper(), (XSD % "urn:y").encode().hex().upper())

    def expected(exp, api):
        toks = []
        for e in exp:
            if e[0] == "E":
                toks.append("E" + H(e[1]))
                continue
            q, attrs, uri, local = e
            at = sorted(attrs, key=lambda a: [ord(c) for c in a[0]])
            t = "S" + H(q) + "".join(",%s=%s" % (H(a), H(v)) for a, v in at)
            if api != "sax":
                t += "#%s#%s" % (H(uri), H(local))
            toks.append(t)
        return " ".join(toks)
    lines, meta = [], []
    for k, (doc, exp) in enumerate(docs):
        bx = doc.encode().hex().upper()
        for a in C02.APIS:
            for sc in C02.SCANNERS:
                lines.append("parse %s %s 1 %s n%s" % (a, sc, bx, res))
                meta.append((k, a, sc, "n"))
            for sc in ("IG", "SG"):
                lines.append("parse %s %s 1 %s ns%s" % (a, sc, bx, res))
                meta.append((k, a, sc, "ns"))
    out = C02.run_lines(xh, lines, jobs=1)       # one process: consecutive parses share the cached parsers
    nbad = 0
    for (k, a, sc, fl), req, o in zip(meta, lines, out):
        ctx.count()
        ctx.distinct(("nsnames", k, a, sc, fl))
        ev, errs, fh = C02.parse_impl(o)
        want = expected(docs[k][1], a)
        errs = [e for e in errs if not e.startswith("W:")]
        if errs or ev != want:
            nbad += 1
            if nbad <= 4:
                ctx.violation("ns-names", {
                    "what": "%s/%s flags=%s: the names reported differ from the document text (qualified name as spelled "
                            "in the tag, expanded name = namespace bound to its prefix + local part)%s"
                            % (a, sc, fl, "; errors: %s" % errs[:2] if errs else ""),
                    "request": req, "impl": [ev, errs, fh], "expect": {"fatal": False, "events": want}, "tag": "ns-names",
                    "document": docs[k][0]})
    ctx.coverage["ns_name_documents"] = len(docs)
    ctx.coverage["traces_validated_against_impl"] += len(lines)


def dtd_events(ctx, xh):
    """content of DTD-level events: comments and processing instructions inside the internal and the external subset
    as delivered to the SAX DocTypeHandler (SAXParser), to SAX2 LexicalHandler::comment, and as reproduced in
    DOMDocumentType::getInternalSubset(): the text must be the one between the delimiters - with single dashes, a '-'
    followed by a non-dash, leading/trailing blanks, line ends (normalised), non-ASCII characters and texts long enough
    to span character-buffer refills.  The same comment text placed in the document prolog is scanned by the C02 model
    (Model02.scan_comment); the expected DTD text is the model's text for that comment."""
    import re
    rng = ctx.rng
    xm = os.path.join(V.BIN, "xm_C02")
    H = lambda t: "".join("%04X" % ord(c) for c in t)

    def body(rng, big=False):
        n = rng.choice([0, 1, 3, 8, 20, 60]) if not big else rng.choice([17000, 33000])
        out = []
        pool = "ab z-- - -x\n\t!<>&%;'\"]é中"
        for _ in range(n):
            c = rng.choice(pool)
            if c == "-" and out and out[-1] == "-":
                c = rng.choice("ax ")
            out.append(c)
        if out and out[-1] == "-":
            out.append(" ")
        t = "".join(out)
        if big:
            t = t.replace("&", "a").replace("%", "b")
        return t

    def pi_data(rng):
        t = body(rng).replace("?>", "? >").lstrip(" \t\n")
        return t
    docs = []
    for k in range(40 if ctx.tier == "quick" else 1500):
        items_int, items_ext = [], []
        for items in (items_int, items_ext):
            for _ in range(rng.choice([0, 1, 2, 4])):
                r = rng.random()
                if r < 0.55:
                    items.append(("c", body(rng, big=(rng.random() < 0.04))))
                elif r < 0.8:
                    items.append(("p", "p" + rng.choice("abc"), pi_data(rng)))
                else:
                    items.append(("d", "<!ENTITY e%d 'v'>" % rng.randrange(1000)))
        use_ext = bool(items_ext) and rng.random() < 0.7

        def ren(items):
            o = ""
            for it in items:
                if it[0] == "c":
                    o += "<!--" + it[1] + "-->"
                elif it[0] == "p":
                    o += "<?" + it[1] + (" " + it[2] if it[2] else "") + "?>"
                else:
                    o += it[1]
                o += rng.choice(["", " ", "\n"])
            return o
        doc = "<!DOCTYPE a%s [%s]><a/>" % (" SYSTEM 'x.dtd'" if use_ext else "", ren(items_int))
        res = {"x.dtd": ren(items_ext)} if use_ext else {}
        docs.append((doc, res, items_int, items_ext if use_ext else []))
    # model text of every comment body (placed in the prolog of a DTD-less document)
    bodies = sorted({it[1] for d in docs for it in d[2] + d[3] if it[0] == "c"})
    mo = C02.run_lines(xm, ["scan 0 " + (H("<!--" + b + "-->" + "<a/>")) for b in bodies], jobs=4)
    model_text = {}
    for b, o in zip(bodies, mo):
        ev = o.rsplit(" | ", 1)[0].split(" ")
        model_text[b] = ev[0][1:] if ev and ev[0].startswith("M") else None
    lines, meta = [], []
    for k, (doc, res, ii, ie) in enumerate(docs):
        rt = "".join(" %s=%s" % (n, v.encode("utf-8").hex().upper()) for n, v in res.items())
        for a in C02.APIS:
            for sc in ("IG", "DG"):
                lines.append("parse %s %s %d %s t%s" % (a, sc, (k + len(a)) % 2, doc.encode("utf-8").hex().upper(), rt))
                meta.append((k, a, sc))
    out = C02.run_lines(xh, lines, jobs=8)
    nbad = 0
    norm = lambda t: t.replace("\r\n", "\n").replace("\r", "\n")
    for (k, a, sc), req, o in zip(meta, lines, out):
        ctx.count()
        ctx.distinct(("dtdev", k, a, sc))
        doc, res, ii, ie = docs[k]
        ev, errs, fh = C02.parse_impl(o)
        toks = ev.split(" ")
        problem = None
        if errs:
            problem = "errors: %s" % errs[:2]
        elif a in ("sax", "sax2"):
            want = []
            for it in ii + ie:
                if it[0] == "c":
                    want.append("m" + (model_text[it[1]] or H(norm(it[1]))))
                elif it[0] == "p":
                    want.append("p" + H(it[1]) + "," + H(norm(it[2])))
            got = [t for t in toks if t[:1] in ("m", "p")]
            if got != want:
                j = next((i for i in range(min(len(got), len(want))) if got[i] != want[i]), min(len(got), len(want)))
                problem = ("DTD comment / PI events differ from the text between the delimiters: event %d is %s, expected %s"
                           % (j, (got[j] if j < len(got) else "<missing>")[:120], (want[j] if j < len(want) else "<none>")[:120]))
        else:
            it_tok = [t for t in toks if t.startswith("I")]
            sub = "".join(chr(int(it_tok[0][1:][i:i + 4], 16)) for i in range(0, len(it_tok[0]) - 1, 4)) if it_tok else ""
            got = re.findall(r"<!-- (.*?) -->", sub, flags=re.S)
            want = [norm(it[1]) for it in ii if it[0] == "c"]
            if got != want:
                problem = "comments reproduced in DOMDocumentType::getInternalSubset() differ: %r, expected %r" % (
                    [g[:60] for g in got][:3], [w[:60] for w in want][:3])
        if problem:
            nbad += 1
            if nbad <= 4:
                ctx.violation("dtd-events", {"what": "%s/%s: %s" % (a, sc, problem), "request": req, "tag": "dtd-events",
                                             "impl": [ev[:400], errs, fh], "expect": {"fatal": False, "events": None},
                                             "document": doc[:400], "resources": {n: v[:300] for n, v in res.items()}})
    ctx.coverage["dtd_event_documents"] = len(docs)
    ctx.coverage["traces_validated_against_impl"] += len(lines)


def linecol(ctx, xh, xm3):
    """Locator line/column numbers as part of the event stream: line ends (LF, CR, CR LF; NEL, LSEP, CR NEL in XML 1.1
    documents) as the first white space after a PI target, inside multi-line DTD declarations (ELEMENT, ATTLIST, ENTITY),
    between attributes, inside attribute values, comments, CDATA and text.  Oracle (extracted Model03.line_after /
    col_after): at a start tag, line = 1 + number of normalised line ends in the text before the end of the tag,
    column = 1 + characters since the last one; SAXParser and SAX2XMLReader, all scanners."""
    rng = ctx.rng
    H = u16hex
    docs = []
    for k in range(60 if ctx.tier == "quick" else 3000):
        v11 = rng.random() < 0.3
        eols = ["\n", "\r", "\r\n"] + (["\x85", "\u2028", "\r\x85"] if v11 else [])
        style = rng.random()
        one = rng.choice(eols)

        def E():
            return one if style < 0.4 else rng.choice(eols)

        def W():
            return rng.choice(["", " ", "\t"]) + E() + rng.choice(["", " ", "  "])
        out = []
        ctr = [0]

        def uniq():
            # declaration names are unique within a document (a repeated attribute / entity declaration is legal but
            # draws a warning, which is not this stream's subject)
            ctr[0] += 1
            return ctr[0]
        marks = []          # offsets just after each start tag
        lsep_ws = [False]

        def add(t):
            out.append(t)
        if v11:
            add('<?xml version="1.1"?>' + rng.choice(["", E()]))
        elif rng.random() < 0.3:
            add('<?xml version="1.0"?>' + E())
        dtd = rng.random() < 0.5
        if rng.random() < 0.5:
            add("<?pt" + E() + "data" + E() + "?>" + E())
        if dtd:
            add("<!DOCTYPE r" + rng.choice([" ", W()]) + "[" + E())
            for _ in range(rng.choice([1, 2, 4])):
                r = rng.random()
                if r < 0.25:
                    add("<!ELEMENT r" + W() + "ANY" + rng.choice(["", W()]) + ">" + E())
                elif r < 0.5:
                    add("<!ATTLIST r" + W() + "a%d CDATA" % uniq() + W() + "#IMPLIED" + W() + "b%d CDATA" % uniq() + W() + "'d" + E() + "v'>" + E())
                elif r < 0.7:
                    add("<!ENTITY e%d" % uniq() + W() + "'v" + E() + "w'" + rng.choice(["", W()]) + ">" + E())
                elif r < 0.85:
                    add("<!--c" + E() + "d-->" + E())
                else:
                    add("<?dp" + E() + "x?>" + E())
            add("]" + rng.choice(["", W()]) + ">" + E())
        depth = 0
        names = []

        def start(nm, empty):
            t = "<" + nm
            for j in range(rng.choice([0, 1, 2])):
                t += W() + "x%d=" % j + rng.choice(["'", '"']) + "v" + rng.choice(["", E(), " " + E() + "w"]) + rng.choice(["'", '"'])
            # quotes must match
            return t
        def tag(nm, empty):
            t = "<" + nm
            for j in range(rng.choice([0, 1, 2])):
                q = rng.choice(["'", '"'])
                t += W() + "x%d=" % j + q + "v" + rng.choice(["", E(), " " + E() + "w"]) + q
            t += rng.choice(["", W()]) + ("/>" if empty else ">")
            return t
        add(tag("r", False))
        marks.append(sum(len(x) for x in out))
        names.append("r")
        for _ in range(rng.choice([2, 4, 8])):
            r = rng.random()
            if r < 0.3:
                add("t" + rng.choice(["", "\t", "\U00010400", "\u00e9\t"]) + E() + "u" + rng.choice(["", "\t\t", "\U00010400\U0001F600"]))
            elif r < 0.45:
                add("<!--k" + E() + "-->")
            elif r < 0.55:
                add("<![CDATA[c" + E() + "]]>")
            elif r < 0.7:
                add("<?cp" + E() + "d?>")
            elif r < 0.85 and len(names) < 5:
                n = "e%d" % len(marks)
                add(tag(n, False))
                marks.append(sum(len(x) for x in out))
                names.append(n)
            elif r < 0.95:
                add(tag("m%d" % len(marks), True))
                marks.append(sum(len(x) for x in out))
            elif len(names) > 1:
                add("</" + names.pop() + rng.choice(["", W()]) + ">")
        while names:
            add("</" + names.pop() + ">")
        text = "".join(out)
        docs.append((text, marks, v11, dtd))
    req = []
    for text, marks, v11, dtd in docs:
        for m in marks:
            req.append("linecol %s %s" % ("11" if v11 else "10", H(text[:m])))
    mo = C02.run_lines(xm3, req, jobs=4)
    exp = []
    i = 0
    for text, marks, v11, dtd in docs:
        exp.append([tuple(mo[i + j].split()) for j in range(len(marks))])
        i += len(marks)
    lines, meta = [], []
    for k, (text, marks, v11, dtd) in enumerate(docs):
        for sc in (C02.SCANNERS if not dtd else ["IG", "DG"]):
            for a in ("sax", "sax2"):
                lines.append("parse %s %s %d %s l" % (a, sc, (k + len(a)) % 2, text.encode("utf-8").hex().upper()))
                meta.append((k, a, sc))
    out = C02.run_lines(xh, lines, jobs=8)
    nbad = 0
    f46 = 0
    for (k, a, sc), req_, o in zip(meta, lines, out):
        ctx.count()
        ctx.distinct(("linecol", k, a, sc))
        text, marks, v11, dtd = docs[k]
        ev, errs, fh = C02.parse_impl(o)
        got = [tuple(t.split("@")[1].split(":")) for t in ev.split(" ") if t.startswith("S") and "@" in t]
        want = exp[k]
        errs = [e for e in errs if not e.startswith("W:")]       # warnings are not errors
        if errs or got != want:
            if not errs and v11 and "\u2028" in text and len(got) == len(want) and ctx.find_known("F46") and \
                    all(int(g[0]) <= int(w[0]) for g, w in zip(got, want)):
                f46 += 1       # known finding F46: LSEP skipped as a plain blank is not counted as a line end
                continue
            nbad += 1
            if nbad <= 4:
                j = next((i for i in range(min(len(got), len(want))) if got[i] != want[i]), min(len(got), len(want)))
                ctx.violation("linecol", {
                    "what": "%s/%s: Locator position at start tag %d is %s, expected line:col %s (1 + normalised line ends "
                            "before the end of the tag : 1 + characters since)%s" % (
                                a, sc, j, ":".join(got[j]) if j < len(got) else "<missing>",
                                ":".join(want[j]) if j < len(want) else "<none>", "; errors %s" % errs[:2] if errs else ""),
                    "request": req_, "impl": [ev[:500], errs, fh], "expect": {"fatal": False, "events": None},
                    "tag": "linecol", "document": text[:600]})
    if f46:
        ctx.known_finding("F46", "XML 1.1: U+2028 consumed by skipSpaces/getSpaces/skippedSpace is treated as a plain blank: "
                          "not counted as a line end (%d generated documents) and not rejected inside the XML declaration" % f46)
    ctx.coverage["linecol_documents"] = len(docs)
    ctx.coverage["traces_validated_against_impl"] += len(lines)


def eol11_content(ctx, xh, xm3):
    """XML 1.1 end-of-line handling of the real reader against the extracted model AND the extracted section 2.11
    specification (T03_eol11, T03_eol11_decl): character data, CDATA, comment and attribute-value text of XML 1.1
    documents with every line-end form (LF, CR, CR LF, NEL, LSEP, CR NEL, and the adjacent combinations CR CR LF,
    CR NEL NEL, NEL LF, LSEP CR ...), in the document entity (XML declaration with LF / CR / CR LF inside it: the
    declaration is read in XML 1.0 mode) and in an external parsed entity with and without a version 1.1 text
    declaration; an XML 1.0 document keeps NEL / LSEP as data.  All scanners, SAX, SAX2, DOM, DOMLSParser."""
    rng = ctx.rng
    H = u16hex
    forms = ["\n", "\r", "\r\n", "\x85", "\u2028", "\r\x85"]
    docs = []
    n = 36 if ctx.tier == "quick" else 1500
    for k in range(n):
        parts = []
        for _ in range(rng.choice([1, 2, 3, 5, 9])):
            parts.append(rng.choice(["", "a", "bc", " ", "\t", "\u00e9", "\U00010400"]))
            parts.append("".join(rng.choice(forms) for _ in range(rng.choice([1, 1, 1, 2, 3]))))
        parts.append(rng.choice(["", "z"]))
        text = "x" + "".join(parts)
        kind = k % 4          # 0: 1.1 document entity, 1: external entity with 1.1 text declaration, 2: external entity without, 3: XML 1.0 document
        w = rng.choice([" ", "\n", "\r\n", "\r", " \n "])
        decl11 = '<?xml%sversion="1.1"%s?>' % (w, rng.choice(["", w]))
        docs.append((kind, decl11, text))
    # model + spec: eoldoc11 <decl + prefix in 1.0 mode> <rest>; the part read in 1.0 mode is the declaration only
    reqs = []
    for kind, decl11, text in docs:
        if kind == 3:
            reqs.append("eol " + H(text))
        else:
            reqs.append("eol11s " + H(text))
    mo = C02.run_lines(xm3, reqs)
    dreq = ["eoldoc11 %s %s" % (H(d), H("<r>" + t)) for _, d, t in docs]
    do = C02.run_lines(xm3, dreq)
    lines, meta = [], []
    for k, (kind, decl11, text) in enumerate(docs):
        m_t, s_t = mo[k].split()
        d_m, d_s = do[k].split()
        if m_t != s_t or (kind == 0 and d_m != d_s):
            ctx.violation("eol11", {"what": "extracted XML 1.1 reader model and extracted section 2.11 specification differ "
                                            "(T03_eol11 / T03_eol11_decl no longer describe the model)", "request": reqs[k],
                                    "model": m_t, "spec": s_t}, no_input=True)
            continue
        extra = ""
        if kind == 0:
            doc = decl11 + "<r>" + text + "<!--" + text + "--><![CDATA[" + text + "]]></r>"
            scs = C02.SCANNERS
        elif kind == 3:
            doc = rng.choice(["", '<?xml version="1.0"?>']) + "<r>" + text + "<!--" + text + "--><![CDATA[" + text + "]]></r>"
            scs = C02.SCANNERS
        else:
            tdecl = "<?xml version='1.1' encoding='UTF-8'?>" if kind == 1 else ""
            doc = decl11 + '<!DOCTYPE r [<!ENTITY x SYSTEM "t.ent">]><r>&x;</r>'
            extra = " t.ent=" + (tdecl + text + "<!--" + text + "--><![CDATA[" + text + "]]>").encode("utf-8").hex().upper()
            scs = ["IG", "DG"]
        want = "S0072 T%s M%s C%s E0072" % (s_t, s_t, s_t)
        for sc in scs:
            for a in C02.APIS:
                ns = (k + len(sc) + len(a)) % 2
                lines.append("parse %s %s %d %s -%s" % (a, sc, ns, doc.encode("utf-8").hex().upper(), extra))
                meta.append((k, a, sc, want))
    out = C02.run_lines(xh, lines, jobs=8)
    nbad = 0
    for (k, a, sc, want), req, o in zip(meta, lines, out):
        ctx.count()
        kind = docs[k][0]
        ctx.distinct(("eol11", k, a, sc))
        ev, errs, fh = C02.parse_impl(o)
        errs = [e for e in errs if not e.startswith("W:")]
        if errs or ev != want:
            nbad += 1
            if nbad <= 4:
                ctx.violation("eol11", {
                    "what": "%s/%s: %s: text delivered differs from the XML %s section 2.11 normalisation of the input%s" % (
                        a, sc, ["XML 1.1 document entity", "external entity with version 1.1 text declaration",
                                "external entity without text declaration in an XML 1.1 document", "XML 1.0 document"][kind],
                        "1.0" if kind == 3 else "1.1", "; errors %s" % errs[:2] if errs else ""),
                    "request": req, "impl": [ev[:600], errs, fh], "expect": {"fatal": False, "events": want}, "tag": "eol11"})
    ctx.coverage["eol11_documents"] = len(docs)
    ctx.coverage["traces_validated_against_impl"] += len(lines)


def specified_flags(ctx, xh3, xm3):
    """the infoset [specified] property and DTD defaulting: documents whose elements mix attributes written in the tag
    with declared defaults (#FIXED and plain), in element sequences where the number of attributes grows after an
    element that received defaults (the scanner's pooled XMLAttr objects are reused), on parser objects reused from
    request to request (one harness process).  Observed: DOMAttr::getSpecified() of the XercesDOMParser tree and
    XMLAttr::getSpecified() as the scanner hands it to XMLDocumentHandler::startElement (SAXParser advanced handler);
    IG and DG scanners x namespaces on/off.  Expected: the extracted Model03.att_list (T03_specified_*) of the
    attributes written and the defaults declared; additionally literal => specified is checked directly."""
    rng = ctx.rng
    H = lambda t: "".join("%04X" % ord(c) for c in t)
    docs = []
    for k in range(30 if ctx.tier == "quick" else 1500):
        enames = ["a", "b", "c", "d"]
        decl = {}
        dtd = ""
        for e in enames:
            defs = []
            for an in rng.sample(["p", "q", "s", "t", "u"], rng.choice([0, 1, 2, 3])):
                kind = rng.choice(["default", "fixed", "implied"])
                val = rng.choice(["dv", "x y", "1"])
                if kind == "implied":
                    dtd += "<!ATTLIST %s %s CDATA #IMPLIED>" % (e, an)
                else:
                    dtd += "<!ATTLIST %s %s CDATA %s'%s'>" % (e, an, "#FIXED " if kind == "fixed" else "", val)
                    defs.append((an, val, kind))
            decl[e] = defs
        body, exp = [], []
        cnt = 0
        for _ in range(rng.choice([3, 5, 8])):
            e = rng.choice(enames)
            cnt = min(cnt + rng.choice([0, 1, 2]), 6)          # growing attribute counts
            lit = []
            for an in rng.sample(["p", "q", "s", "t", "u", "v", "w"], rng.choice([0, min(cnt, 7)])):
                fixed = [d for d in decl[e] if d[0] == an and d[2] == "fixed"]
                lit.append((an, fixed[0][1] if fixed else rng.choice(["L", "m n", ""])))
            body.append("<%s%s/>" % (e, "".join(' %s="%s"' % a for a in lit)))
            exp.append((e, lit, [(d[0], d[1]) for d in decl[e]]))
        doc = "<!DOCTYPE r [%s]><r>%s</r>" % (dtd, "".join(body))
        docs.append((doc, [("r", [], [])] + exp))
    mreq = []
    for doc, exp in docs:
        for e, lit, defs in exp:
            f = lambda l: ",".join("%s=%s" % (H(n), H(v)) for n, v in l) or "-"
            mreq.append("attlist %s %s" % (f(lit), f(defs)))
    mo = C02.run_lines(xm3, mreq)
    want = []
    i = 0
    for doc, exp in docs:
        toks = []
        for e, lit, defs in exp:
            items = [] if mo[i] == "-" else mo[i].split(" ")
            i += 1
            toks.append(";".join([H(e)] + sorted(items)))
        want.append(" ".join(toks))
    lines, meta = [], []
    for k, (doc, exp) in enumerate(docs):
        for sc in ("IG", "DG"):
            for ns in (0, 1):
                for a in ("dom", "sax"):
                    lines.append("attrs %s %s %d %s" % (a, sc, ns, doc.encode().hex().upper()))
                    meta.append((k, a, sc, ns))
    out = C02.run_lines(xh3, lines, jobs=1)           # one process: the parser objects are reused
    nbad = 0
    for (k, a, sc, ns), req, o in zip(meta, lines, out):
        ctx.count()
        ctx.distinct(("specified", k, a, sc, ns))
        got, errs = (o.split(" | ") + ["-"])[:2]
        if got != want[k] or errs != "-":
            nbad += 1
            if nbad <= 4:
                gt, wt = got.split(" "), want[k].split(" ")
                j = next((i for i in range(min(len(gt), len(wt))) if gt[i] != wt[i]), min(len(gt), len(wt)))
                ctx.violation("specified", {
                    "what": "%s/%s namespaces=%d: attributes (name=value:specified) of element %d are %s, expected %s "
                            "(written in the tag => specified, declared default not written => not specified)%s" % (
                                a, sc, ns, j, gt[j] if j < len(gt) else "<missing>", wt[j] if j < len(wt) else "<none>",
                                "; errors %s" % errs if errs != "-" else ""),
                    "request": req, "harness": "xh_C03", "impl": got, "expected": want[k], "document": docs[k][0], "tag": "specified"})
    ctx.coverage["specified_documents"] = len(docs)
    ctx.coverage["traces_validated_against_impl"] += len(lines)


def nested_locator(ctx, xh3, xm3):
    """Locator and error positions inside nested entities (ReaderMgr::getLastExtEntityInfo): three levels - document
    entity -> external parsed entity (several lines) -> internal entity whose replacement text contains start tags (and,
    in a third of the documents, a reference to an undeclared entity = a fatal error inside the innermost level).
    Expected at every start tag: systemId and line:column of the nearest enclosing EXTERNAL entity = extracted
    Model03.locator of the reader stack (T03_locator_nearest_external); SAXParser and SAX2XMLReader, IG and DG."""
    rng = ctx.rng
    H = lambda t: "".join("%04X" % ord(c) for c in t)
    docs = []
    for k in range(24 if ctx.tier == "quick" else 1000):
        eol = rng.choice(["\n", "\r\n", "\r"])
        pre_doc = "".join(rng.choice(["", " ", "<!--c-->"]) + eol for _ in range(rng.choice([0, 1, 4, 9])))
        inner2 = rng.random() < 0.4
        bad = rng.random() < 0.33
        int_text = "A<e/>B" + ("&in2;" if inner2 else "") + ("&undeclared;" if bad else "<f/>")
        in2_text = "<g/>"
        ext_pre = "".join("l%d" % j + rng.choice(["", " ", "\t"]) + eol for j in range(rng.choice([0, 1, 2, 5]))) + rng.choice(["", " ", "xx\t"])
        ext = ext_pre + "&int;" + " tail<k/>" + eol
        dtd = '<!DOCTYPE r [<!ENTITY int "%s"><!ENTITY in2 "%s"><!ENTITY x SYSTEM "ext.ent">]>' % (int_text, in2_text)
        head = pre_doc + dtd + eol
        doc = head + "<r>&x;</r>"
        # expected S tokens: (name, sysid, reader stack from the top)
        d_r = head + "<r>"
        d_x = head + "<r>&x;"
        e_ref = ext_pre + "&int;"
        toks = [("r", "xh", ["e" + H(d_r)])]
        toks.append(("e", "ext.ent", ["i" + H("A<e/>"), "e" + H(e_ref), "e" + H(d_x)]))
        if inner2:
            toks.append(("g", "ext.ent", ["i" + H("<g/>"), "i" + H("A<e/>B&in2;"), "e" + H(e_ref), "e" + H(d_x)]))
        err = None
        if bad:
            err = ("ext.ent", ["i" + H(int_text), "e" + H(e_ref), "e" + H(d_x)])
        else:
            toks.append(("f", "ext.ent", ["i" + H(int_text), "e" + H(e_ref), "e" + H(d_x)]))
            toks.append(("k", "ext.ent", ["e" + H(e_ref + " tail<k/>"), "e" + H(d_x)]))
        docs.append((doc, ext, toks, err))
    mreq = []
    for doc, ext, toks, err in docs:
        for t in toks:
            mreq.append("locstack 10 " + " ".join(t[2]))
        if err:
            mreq.append("locstack 10 " + " ".join(err[1]))
    mo = C02.run_lines(xm3, mreq)
    want = []
    i = 0
    for doc, ext, toks, err in docs:
        w = []
        for t in toks:
            l, c = mo[i].split()
            i += 1
            w.append("%s@%s:%s:%s" % (H(t[0]), t[1], l, c))
        we = None
        if err:
            we = "%s:%s" % (err[0], mo[i].split()[0])       # line of the error (the column convention of errors is C02's subject)
            i += 1
        want.append((" ".join(w), we))
    lines, meta = [], []
    for k, (doc, ext, toks, err) in enumerate(docs):
        for sc in ("IG", "DG"):
            for a in ("sax", "sax2"):
                lines.append("loc %s %s %d %s ext.ent=%s" % (a, sc, (k + len(a)) % 2, doc.encode().hex().upper(), ext.encode().hex().upper()))
                meta.append((k, a, sc))
    out = C02.run_lines(xh3, lines, jobs=4)
    nbad = 0
    for (k, a, sc), req, o in zip(meta, lines, out):
        ctx.count()
        ctx.distinct(("nested-locator", k, a, sc))
        got, errs = (o.split(" | ") + ["-"])[:2]
        w, we = want[k]
        problem = None
        if got != w:
            problem = "Locator at the start tags is %s, expected %s" % (got, w)
        elif we is None and errs != "-":
            problem = "errors on a well-formed document: %s" % errs
        elif we is not None:
            fe = [e for e in errs.split(" ") if e.startswith("F@")]
            if not fe or ":".join(fe[0][2:].split(":")[:2]) != we:
                problem = "the fatal error inside the internal entity is reported at %s, expected systemId:line %s" % (errs, we)
        if problem:
            nbad += 1
            if nbad <= 4:
                ctx.violation("nested-locator", {
                    "what": "%s/%s: %s (position = the one reached in the nearest enclosing external entity)" % (a, sc, problem),
                    "request": req, "harness": "xh_C03", "impl": o, "document": docs[k][0], "ext.ent": docs[k][1], "tag": "nested-locator"})
    ctx.coverage["nested_locator_documents"] = len(docs)
    ctx.coverage["traces_validated_against_impl"] += len(lines)


def remerge(ev):
    out = []
    for t in ev.split(" "):
        if t.startswith("T") and out and out[-1].startswith("T"):
            out[-1] += t[1:]
        else:
            out.append(t)
    return " ".join(out)


def run(ctx):
    # the document-level correspondence is shared with C02 (its listed findings apply to these documents as well)
    ctx.known = ctx.known + V.load_known_findings("C02")
    C02.run(ctx, for_c03=True)
    if any(not x[2] for x in ctx.violations) and ctx.replay:
        return
    xh = os.path.join(V.BIN, "xh_C02")
    okx, outx = V.coq_make(["theories/C03/Extract_C03.vo"], log=ctx.log, dirs=["Base", "Gen", "C02", "C03"], tag="C03")
    if not okx:
        ctx.violation("extraction", {"what": "extraction of the C03 models failed", "output": outx[-2000:]}, no_input=True)
        return
    xm3 = ctx.ocaml("C03", ["gen_c03"])
    rng = ctx.rng
    # F3 witnesses first
    C02.replay_witnesses(ctx, xh, {"F3": lambda req, errs, fh: True})   # refined below: printed only when the class shows
    ctx.known_hits[:] = [k for k in ctx.known_hits if not k.startswith("F3:")]
    vals = gen_values(rng, 200 if ctx.tier == "quick" else 5000)
    vals = [[(False, 0x78), (True, 9), (True, 9), (False, 0x79), (True, 0x20), (True, 0x20), (False, 0x7A)]] + vals
    lines = []
    idx = []
    mreq = []
    for k, v in enumerate(vals):
        txt = render_value(v, rng)
        doc = ('<!DOCTYPE e [<!ATTLIST e a NMTOKENS #IMPLIED b CDATA #IMPLIED>]><e a="%s" b="%s"/>' % (txt, txt))
        bx = doc.encode("utf-8").hex().upper()
        nv = norm_eol_literal(v)
        mreq.append("attnorm " + (",".join("%d%X" % (1 if e else 0, c) for e, c in nv) or "-"))
        for s in ("IG", "DG"):
            for ns in (0, 1):
                for a in C02.APIS:
                    lines.append("parse %s %s %d %s" % (a, s, ns, bx))
                    idx.append((k, a, s, ns))
    mo = C02.run_lines(xm3, mreq)
    ho = C02.run_lines(xh, lines, jobs=8)
    f3 = 0
    bad = 0
    unexplained = []
    for (k, a, s, ns), o in zip(idx, ho):
        ctx.count()
        cd_m, cd_s, tok_m, tok_inl, tok_s = mo[k].split()
        ev, errs, fh = C02.parse_impl(o)
        ctx.distinct((mreq[k], s, ns))
        want_ev = lambda av, bv: "S0065,0061=%s,0062=%s E0065" % ("" if av == "-" else av, "" if bv == "-" else bv)
        spec_line = want_ev(tok_s, cd_s)
        # which model applies: IG with namespaces on goes through basicAttrValueScan + normalizeAttValue
        model_line = want_ev(tok_m if (s == "IG" and ns == 1) else tok_inl, cd_m)
        req = lines[0]
        if errs:
            bad += 1
            if bad <= 3:
                ctx.violation("divergence", {"what": "well-formed document with DTD rejected / reported with errors",
                                             "request": "parse %s %s %d %s" % (a, s, ns, lines[idx.index((k, a, s, ns))].split()[4]),
                                             "impl": [ev, errs, fh]})
            continue
        if ev == spec_line:
            # (IG with namespaces on and a value of the F3 class: the faithful model differs from the Spec; an
            #  implementation that delivers the Spec value shows the repaired behaviour = Model03.attnorm_tok_inline)
            if model_line != spec_line and not (s == "IG" and ns == 1 and want_ev(tok_inl, cd_m) == spec_line):
                unexplained.append((k, a, s, ns, ev, model_line))
            continue
        # implementation violates section 3.3.3
        if ev == model_line and s == "IG" and ns == 1 and tok_m != tok_s and cd_m == cd_s and ctx.find_known("F3"):
            f3 += 1
            continue
        bad += 1
        if bad <= 3:
            ctx.violation("divergence", {"what": "attribute value delivered by %s/%s namespaces=%d differs from XML 1.0 "
                                         "section 3.3.3" % (a, s, ns),
                                         "request": lines[idx.index((k, a, s, ns))], "impl": ev, "spec": spec_line,
                                         "model": model_line})
    if f3:
        ctx.known_finding("F3", "IGXMLScanner with namespaces on collapses TAB/LF/CR written as character references in "
                          "tokenised attributes (normalizeAttValue); %d generated cases, witness value x&#9;&#9;y -> `x y`" % f3)
    if unexplained and not bad:
        k, a, s, ns, ev, ml = unexplained[0]
        ctx.violation("correspondence", {"what": "attribute normalisation model differs from the implementation although "
                                         "the implementation satisfies the Spec (%d cases)" % len(unexplained),
                                         "request": lines[idx.index((k, a, s, ns))], "impl": ev, "model": ml}, no_input=True)
    large_eol(ctx, xh, xm3)
    progressive(ctx, xh)
    ns_names(ctx, xh)
    dtd_events(ctx, xh)
    linecol(ctx, xh, xm3)
    eol11_content(ctx, xh, xm3)
    xh3 = ctx.harness("C03")
    specified_flags(ctx, xh3, xm3)
    nested_locator(ctx, xh3, xm3)
    ctx.coverage["attnorm_cases"] = len(vals)
    ctx.coverage["traces_validated_against_impl"] += len(lines)
    ctx.coverage["rule"] += ("; attribute normalisation: %d raw values x {NMTOKENS, CDATA} x {IG, DG} x namespaces x 4 APIs "
                             "against extracted attnorm models and the extracted section 3.3.3 spec" % len(vals))
