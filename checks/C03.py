"""C03 -- Reported content equals the document's infoset; SAX, SAX2, DOM, DOMLSParser agree.
Theorems: coq/theories/C03/Properties_C03.v (end-of-line handling = XML 1.0 2.11; attribute-value normalisation =
3.3.3 for CDATA and, on the inline path / under a guard on the namespace path, tokenised types; content
independent of every lexical choice as corollary of C02's accept theorem).
Correspondence: (1) the whole C02 correspondence (random lexical documents x 4 APIs x 4 scanners x namespaces: events =
`events d`, APIs pairwise equal incl. error positions); (2) attribute normalisation: random raw values (literal /
character-reference characters incl. every white-space form) in CDATA and NMTOKENS attributes declared in an internal
subset, IG and DG scanners x namespaces x APIs, against the extracted models and the extracted section 3.3.3 spec."""
import os
import sys

import vcommon as V
import C02


def gen_values(rng, n):
    vals = []
    pool = [0x61, 0x62, 0x7A, 0x20, 0x20, 0x09, 0x0A, 0x0D, 0x41, 0x2D, 0xE9, 0x4E2D]
    for _ in range(n):
        v = []
        for _ in range(rng.choice([0, 1, 2, 3, 5, 8, 12])):
            c = rng.choice(pool)
            esc = rng.random() < 0.4
            v.append((esc, c))
        vals.append(v)
    return vals


def render_value(v, rng):
    out = ""
    for esc, c in v:
        if esc:
            out += ("&#%d;" % c) if rng.random() < 0.5 else ("&#x%X;" % c)
        else:
            out += chr(c)
    return out


def norm_eol_literal(v):
    """what the raw value looks like after the reader's line-end normalisation: a literal CR becomes LF (we never
    generate CR LF pairs of literals next to each other: a literal CR directly followed by a literal LF is merged)"""
    out = []
    i = 0
    while i < len(v):
        esc, c = v[i]
        if not esc and c == 0x0D:
            if i + 1 < len(v) and v[i + 1] == (False, 0x0A):
                i += 1
            out.append((False, 0x0A))
        else:
            out.append((esc, c))
        i += 1
    return out


def run(ctx):
    # the document-level correspondence is shared with C02 (its listed findings apply to these documents as well)
    ctx.known = ctx.known + V.load_known_findings("C02")
    C02.run(ctx, for_c03=True)
    if any(not x[2] for x in ctx.violations) and ctx.replay:
        return
    xh = os.path.join(V.BIN, "xh_C02")
    xm3 = ctx.ocaml("C03", ["gen_c03"])
    rng = ctx.rng
    # F3 witnesses first
    C02.replay_witnesses(ctx, xh, {"F3": lambda errs, fh: True})   # refined below: printed only when the class shows
    ctx.known_hits[:] = [k for k in ctx.known_hits if not k.startswith("F3:")]
    vals = gen_values(rng, 250 if ctx.tier == "quick" else 5000)
    vals = [[(False, 0x78), (True, 9), (True, 9), (False, 0x79), (True, 0x20), (True, 0x20), (False, 0x7A)]] + vals
    lines = []
    idx = []
    mreq = []
    for k, v in enumerate(vals):
        txt = render_value(v, rng)
        doc = ('<!DOCTYPE e [<!ATTLIST e a NMTOKENS #IMPLIED b CDATA #IMPLIED>]><e a="%s" b="%s"/>' % (txt, txt))
        bx = doc.encode("utf-8").hex().upper()
        nv = norm_eol_literal(v)
        mreq.append("attnorm " + (",".join("%d%X" % (1 if e else 0, c) for e, c in nv) or "-"))
        for s in ("IG", "DG"):
            for ns in (0, 1):
                for a in C02.APIS:
                    lines.append("parse %s %s %d %s" % (a, s, ns, bx))
                    idx.append((k, a, s, ns))
    mo = C02.run_lines(xm3, mreq)
    ho = C02.run_lines(xh, lines, jobs=8)
    f3 = 0
    bad = 0
    unexplained = []
    for (k, a, s, ns), o in zip(idx, ho):
        ctx.count()
        cd_m, cd_s, tok_m, tok_inl, tok_s = mo[k].split()
        ev, errs, fh = C02.parse_impl(o)
        ctx.distinct((mreq[k], s, ns))
        want_ev = lambda av, bv: "S0065,0061=%s,0062=%s E0065" % ("" if av == "-" else av, "" if bv == "-" else bv)
        spec_line = want_ev(tok_s, cd_s)
        # which model applies: IG with namespaces on goes through basicAttrValueScan + normalizeAttValue
        model_line = want_ev(tok_m if (s == "IG" and ns == 1) else tok_inl, cd_m)
        req = lines[0]
        if errs:
            bad += 1
            if bad <= 3:
                ctx.violation("divergence", {"what": "well-formed document with DTD rejected / reported with errors",
                                             "request": "parse %s %s %d %s" % (a, s, ns, lines[idx.index((k, a, s, ns))].split()[4]),
                                             "impl": [ev, errs, fh]})
            continue
        if ev == spec_line:
            if model_line != spec_line:
                unexplained.append((k, a, s, ns, ev, model_line))
            continue
        # implementation violates section 3.3.3
        if ev == model_line and s == "IG" and ns == 1 and tok_m != tok_s and cd_m == cd_s and ctx.find_known("F3"):
            f3 += 1
            continue
        bad += 1
        if bad <= 3:
            ctx.violation("divergence", {"what": "attribute value delivered by %s/%s namespaces=%d differs from XML 1.0 "
                                         "section 3.3.3" % (a, s, ns),
                                         "request": lines[idx.index((k, a, s, ns))], "impl": ev, "spec": spec_line,
                                         "model": model_line})
    if f3:
        ctx.known_finding("F3", "IGXMLScanner with namespaces on collapses TAB/LF/CR written as character references in "
                          "tokenised attributes (normalizeAttValue); %d generated cases, witness value x&#9;&#9;y -> `x y`" % f3)
    if unexplained and not bad:
        k, a, s, ns, ev, ml = unexplained[0]
        ctx.violation("correspondence", {"what": "attribute normalisation model differs from the implementation although "
                                         "the implementation satisfies the Spec (%d cases)" % len(unexplained),
                                         "request": lines[idx.index((k, a, s, ns))], "impl": ev, "model": ml}, no_input=True)
    ctx.coverage["attnorm_cases"] = len(vals)
    ctx.coverage["traces_validated_against_impl"] += len(lines)
    ctx.coverage["rule"] += ("; attribute normalisation: %d raw values x {NMTOKENS, CDATA} x {IG, DG} x namespaces x 4 APIs "
                             "against extracted attnorm models and the extracted section 3.3.3 spec" % len(vals))
