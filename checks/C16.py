"""C16 -- A serialised grammar pool restores to a behaviourally identical pool.
Theorems: coq/theories/C16/Properties_C16.v (engine model Model16.v; per-class action lists regenerated from /repo by
translator/c16_ser.py into Gen/GenSerialize.v, one obligation per class in Gen/GenSerializeObl.v).
Correspondence: (a) engine level  bin/xh_C16 `eng` (real XSerializeEngine over BinMem streams) vs bin/xm_C16 (extracted
model): produced bytes and read-back values; (b) pool level (the property's own oracle): generated DTD / XML Schema
grammars -> pool A -> serializeGrammars -> deserializeGrammars -> pool B; same instance documents validated against A and
B (events, defaulted attributes, attribute types, error messages/positions), XSModel component dump of both, second
serialisation, wrong level stamp."""
import json
import os
import re
import subprocess
import sys
import time

import vcommon as V

sys.path.insert(0, os.path.join(V.VERIF, "translator"))
sys.path.insert(0, os.path.join(V.VERIF, "gen"))
import c16_ser as TS  # noqa
import c16_fields as TF  # noqa
import C16_grammars as G  # noqa


def hx(s):
    return s.encode("utf-8").hex().upper() or "-"


def run_bin(binpath, lines, timeout=900, env=None):
    e = dict(os.environ)
    if env:
        e.update(env)
    p = subprocess.run([binpath], input=("\n".join(lines) + "\n").encode(), stdout=subprocess.PIPE,
                       stderr=subprocess.PIPE, timeout=timeout, env=e)
    return p.returncode, p.stdout.decode("utf-8", "replace").splitlines(), p.stderr.decode("utf-8", "replace")


# ------------------------------------------------------------------------------------------------------------
# engine-level generator
# ------------------------------------------------------------------------------------------------------------
EDGE = {"b": [0, 1, 0x7F, 0xFF], "c": [0, 0x41, 0xD800, 0xFFFF], "i": [0, 1, 7, 0x7FFFFFFF, 0x80000000, 0xFFFFFFFF, 0xFFFFFFFE],
        "l": [0, 1, 0xFFFFFFFF, 0xFFFFFFFFFFFFFFFF, 0x8000000000000000, 0x0102030405060708],
        "z": [0, 5, 0xFFFFFFFFFFFFFFFF]}
WIDTH = {"b": 2, "c": 4, "i": 8, "l": 16, "z": 16}
SIZE = {"b": 1, "c": 2, "i": 4, "l": 8, "z": 8}


class Sim:
    """python shadow of the offset arithmetic, only used to AIM raw/string lengths at buffer boundaries"""
    def __init__(self, bs):
        self.bs, self.pos = bs, 0

    def prim(self, size, al=True):
        adj = (-self.pos) % size if al else 0
        if self.pos + adj + size > self.bs:
            self.pos, adj = 0, 0
        self.pos += adj + size

    def raw(self, n):
        if n == 0:
            return
        av = self.bs - self.pos
        if n <= av:
            self.pos += n
        else:
            self.pos = (n - av) % self.bs

    def avail_after_prim8(self, k=1):
        s = Sim(self.bs)
        s.pos = self.pos
        for _ in range(k):
            s.prim(8)
        return s.bs - s.pos


def gen_engine_case(rng, bs, nops, aim):
    sim = Sim(bs)
    toks = []
    f26 = False
    for _ in range(nops):
        k = rng.choice("bbciilzrrsssSx") if not aim else rng.choice("bcilrrrssS")
        if k in "bcilz":
            v = rng.choice(EDGE[k]) if rng.random() < 0.5 else rng.getrandbits(4 * WIDTH[k])
            toks.append("%s:%0*X" % (k, WIDTH[k], v))
            sim.prim(SIZE[k], k != "z")
            continue
        # length aimed at the buffer boundary
        if k == "r":
            av = bs - sim.pos
            unit = 1
        elif k == "S":
            av = sim.avail_after_prim8(2)
            unit = 2
        else:
            av = sim.avail_after_prim8(1)
            unit = 1 if k == "x" else 2
        mode = rng.random()
        if mode < 0.25:
            nbytes = rng.randrange(0, 3 * bs + 4)
        elif mode < 0.75:
            nbytes = max(0, av + rng.choice([0, 1, 2]) * bs + rng.choice([-2, -1, 0, 0, 1, 2]) * unit)
        else:
            nbytes = rng.choice([0, unit, 2 * unit, bs, 2 * bs])
        n = nbytes // unit
        if unit * n > av and (unit * n - av) % bs == 0:
            f26 = True
        if k == "r":
            data = [rng.randrange(256) for _ in range(n)]
            toks.append("r:" + ("".join("%02X" % b for b in data) or "-"))
            sim.raw(n)
        elif k == "x":
            if rng.random() < 0.1:
                toks.append("x:~"); sim.prim(8)
            else:
                data = [rng.randrange(1, 256) for _ in range(n)]
                toks.append("x:" + ("".join("%02X" % b for b in data) or "-"))
                sim.prim(8); sim.raw(n)
        else:
            if rng.random() < 0.1:
                toks.append(k + ":~"); sim.prim(8)
            else:
                data = [rng.choice([0x41, 0x20AC, 0xD800, 0xFFFF, rng.randrange(1, 0x10000)]) for _ in range(n)]
                h = "".join("%04X" % c for c in data) or "-"
                if k == "S":
                    toks.append("S:%016X:%s" % (n + rng.randrange(1, 20), h)); sim.prim(8)
                else:
                    toks.append("s:" + h)
                sim.prim(8); sim.raw(2 * n)
    return toks, f26


def gen_engine(ctx):
    rng = ctx.rng
    thorough = ctx.tier == "thorough"
    cases = []
    sizes = list(range(8, 41)) + [48, 63, 64, 65, 100, 127, 128, 256, 1000]
    per = 60 if thorough else 14
    for bs in sizes:
        for i in range(per):
            toks, f26 = gen_engine_case(rng, bs, rng.randrange(1, 10), aim=i % 2 == 0)
            cases.append(("bs%d" % (bs if bs <= 40 else 41), bs, toks, f26))
    for i in range(40 if thorough else 6):       # the configured default size
        toks, f26 = gen_engine_case(rng, 8192, rng.randrange(2, 6), aim=True)
        cases.append(("bs8192", 8192, toks, f26))
    return cases


F26_WITNESS = ["eng 16 0 b:01 r:0102030405060708090A0B0C0D0E0F101112131415161718191A1B1C1D1E1F i:DEADBEEF",
               "eng 8192 0 i:00000007 s:" + "0041" * (4096 + 4090) + " i:DEADBEEF"]


# ------------------------------------------------------------------------------------------------------------
def run(ctx):
    t0 = time.time()
    ctx.coverage["trusted_base"] = list(V.GLOBAL_TRUSTED_BASE) + [
        "the translator's reading of each serialize() body (translator/c16_ser.py: statement parser + regexes); it is "
        "cross-checked only by the behavioural pool-level correspondence",
        "modelled at tag level (ModelObj16.v, tied by the `obj` correspondence on real objects): store/load pools and class "
        "records; the class-name bytes of XProtoType::store/load are covered by the engine theorem's XMLByte strings and by "
        "the pool-level correspondence; store/load helper pairs "
        "(storeDV/loadDV, storeIC/loadIC, storeElementDecl/loadElementDecl, storeClusive/loadClusive, storeGrammar/"
        "loadGrammar) are compared by name, their bodies are covered by the correspondence only"]
    ctx.assumptions = ["little-endian host with sizeof(long) = sizeof(XMLSize_t) = 8, sizeof(int) = 4, sizeof(XMLCh) = 2",
                       "the engine buffer returned by MemoryManager::allocate is 8-byte aligned (alignment is computed from "
                       "the absolute address in alignAdjust)", "bufSize >= 8 (smaller buffers overflow on a long write)",
                       "exceptions are modelled as an error enum; the XMLExcepts code name is compared"]
    ctx.build_lib()
    # 2. translate
    try:
        side = TS.generate()
    except Exception as e:
        ctx.note("translator failed: %r" % (e,))
        ctx.violation("translator", {"what": "T-ser can no longer read the serialize() bodies / constants", "error": repr(e)},
                      no_input=True)
        return
    try:
        fside = TF.generate()
    except Exception as e:
        ctx.note("field translator failed: %r" % (e,))
        ctx.violation("translator", {"what": "T-ser-fields can no longer read the class headers / serialize() bodies", "error": repr(e)},
                      no_input=True)
        return
    unparsed = [c for c in side["classes"] if c["unparsed"]]
    unknown = [c["name"] for c in side["classes"] if c["unknown_types"]]
    ctx.coverage["ser_classes"] = len(side["classes"])
    ctx.coverage["ser_unparsed"] = {c["name"]: c["unparsed"] for c in unparsed}
    ctx.coverage["ser_unknown_types"] = unknown
    ctx.note("T-ser: %d classes, %d with unparsed items (correspondence only), %d with undetermined field types; level %d, "
             "bufsize %d" % (len(side["classes"]), len(unparsed), len(unknown), side["level"], side["bufsize"]))
    cunparsed = [e for e in side["containers"] if e["unparsed"]]
    ctx.coverage["ser_containers"] = len(side["containers"])
    ctx.coverage["ser_containers_unparsed"] = {e["sig"]: e["unparsed"] for e in cunparsed}
    ctx.coverage["ser_containers_narrowing"] = {e["sig"]: e["narrowing"] for e in side["containers"] if e["narrowing"]}
    ctx.note("T-ser containers: %d storeObject/loadObject pairs, %d with unparsed items" % (len(side["containers"]), len(cunparsed)))
    hunparsed = [h for h in side["helper_pairs"] if h["unparsed"]]
    ctx.coverage["ser_helper_pairs"] = [h["name"] for h in side["helper_pairs"]]
    ctx.coverage["ser_helper_pairs_unparsed"] = {h["name"]: h["unparsed"] for h in hunparsed}
    ctx.coverage["ser_field_members"] = sum(len(c["fields"]) for c in fside["classes"])
    ctx.coverage["ser_enum_members"] = sum(len(c["enums"]) for c in fside["classes"])
    nparsed = len(fside["classes"]) + 3 + len(side["classes"]) - len(unparsed) + len(side["containers"]) - len(cunparsed) + len(side["helper_pairs"]) - len(hunparsed)
    # 3. prove
    ok, out, failed = ctx.prove(["Base", "Gen", "C16"],
                                ["theories/C16/Properties_C16.vo", "theories/C16/Extract_C16.vo"],
                                props_file="theories/C16/Properties_C16.v", extra_obligations=nparsed)
    proof_broken = not ok
    if proof_broken:
        ctx.note("proof obligations failed: %s" % failed)
        ctx.note(out[-1500:])
    # 4. model + harness
    have_model = os.path.exists(os.path.join(V.VERIF, "ocaml", "C16", "gen_c16.ml"))
    if not have_model:
        ctx.violation("extraction", {"what": "extracted model missing (Model16.v / GenSerialize.v do not compile)",
                                     "output": out[-3000:]}, no_input=True)
        return
    xm = ctx.ocaml("C16", ["gen_c16"])
    xh = ctx.harness("C16")
    if ctx.replay:
        r = json.load(open(ctx.replay))
        req = r.get("request")
        if not req:
            ctx.note("replay file has no request")
            return
        rc, impl, err = run_bin(xh, [req])
        ctx.note("replay impl: %s" % (impl[0][:2000] if impl else "crash rc=%d" % rc))
        if req.startswith("obj"):
            _, model, _ = run_bin(xm, [req])
            ctx.note("replay model: %s" % model[0][:2000])
            if not impl or impl[0] != model[0].rsplit(" re=", 1)[0]:
                ctx.violation("obj-divergence", {"request": req, "impl": impl[0] if impl else None, "model": model[0]})
        elif req.startswith("eng"):
            _, model, _ = run_bin(xm, [req])
            ctx.note("replay model: %s" % model[0][:2000])
            if not impl or impl[0] != model[0]:
                ctx.violation("divergence", {"request": req, "impl": impl[0] if impl else None, "model": model[0]})
        elif not impl or not pool_line_ok(impl[0])[0]:
            ctx.violation("pool-divergence", {"request": req, "impl": impl[0][:4000] if impl else None})
        return
    # translator cross-check: constants as compiled into the library; per-class verdicts of the extracted definitions
    _, ci, _ = run_bin(xh, ["consts"])
    _, cm, _ = run_bin(xm, ["consts", "sym"])
    if not ci or ci[0] != cm[0]:
        ctx.violation("constants", {"what": "level stamp / default buffer size read by the translator differ from the built "
                                    "library", "impl": ci, "translator": cm[:1]}, no_input=True)
    sym = cm[1] if len(cm) > 1 else ""
    m = re.search(r"asym=\[([\d,]*)\] open=\[([\d,]*)\]", sym)
    byid = {c["id"]: c for c in side["classes"]}
    asym = [byid[int(x)]["name"] for x in m.group(1).split(",") if x] if m else []
    opn = [byid[int(x)]["name"] for x in m.group(2).split(",") if x] if m else []
    mt = re.search(r"tasym=\[([\d,]*)\] covered=(\w+) inserts=(\w+)", sym)
    cbyid = {e["id"]: e for e in side["containers"]}
    tasym = [cbyid[int(x)]["sig"] for x in mt.group(1).split(",") if x] if mt else []
    if mt and mt.group(2) != "true":
        tasym.append("(a stored container kind has no storeObject/loadObject pair)")
    if mt and mt.group(3) != "true":
        tasym.append("(insertion keys of a loadObject differ from the reviewed table Containers16.v)")
    ctx.coverage["ser_container_obligations_failing"] = tasym
    if tasym:
        ctx.note("container helpers failing their obligation: %s" % tasym)
        for e in side["containers"]:
            if e["sig"] in tasym:
                ctx.note("  %s store: %s" % (e["sig"], " ".join(e["store"])))
                ctx.note("  %s load : %s" % (e["sig"], " ".join(e["load"])))
    mh = re.search(r"hfail=\[([\d,]*)\] hcovered=(\w+) hconds=(\w+)", sym)
    hbyid = {h["id"]: h for h in side["helper_pairs"]}
    hfail = ["store%s/load%s" % (hbyid[int(x)]["name"], hbyid[int(x)]["name"]) for x in mh.group(1).split(",") if x] if mh else []
    if mh and mh.group(2) != "true":
        hfail.append("(a called store/load helper has no pair that was read)")
    if mh and mh.group(3) != "true":
        hfail.append("(decision conditions of a store/load helper differ from the reviewed table Helpers16.v)")
        pinned_txt = open(os.path.join(V.COQ, "theories", "C16", "Helpers16.v")).read()
        for h in side["helper_pairs"]:
            for d in ("store", "load"):
                line = "%s%s%s: %s" % (d, h["name"], " " if d == "load" else "", " ; ".join(h[d + "_conds"]))
                if line.replace("*)", "* )").replace("(*", "( *") not in pinned_txt:
                    ctx.note("  changed decisions: " + line[:400])
    ctx.coverage["ser_helper_obligations_failing"] = hfail
    if hfail:
        ctx.note("store/load helper pairs failing their obligation: %s" % hfail)
    asym = asym + tasym + hfail
    # field coverage: members neither transferred nor listed; open entries of the defect list (F62)
    _, fl, _ = run_bin(xm, ["fields"])
    fline = fl[0] if fl else ""
    mf = re.search(r"uncovered=\[([\d:,]*)\] open=\[([\d:,]*)\] precise=(\w+) enums=(\w+)", fline)
    cname = {v: k for k, v in fside["crc"].items()}
    def fname(pair):
        c, m_ = (int(x) for x in pair.split(":"))
        cn = cname.get(c, "?%d" % c)
        for cl in fside["classes"]:
            if cl["name"] == cn:
                for f in cl["fields"]:
                    if TS.crc(f["name"]) == m_:
                        return "%s::%s [%s%s] %s" % (cn, f["name"], "S" if f["store"] else "-", "L" if f["load"] else "-", f["type"])
        return "%s::?%d" % (cn, m_)
    uncovered = [fname(x) for x in mf.group(1).split(",") if x] if mf else ["(model driver gave no answer)"]
    open_gaps = [fname(x) for x in mf.group(2).split(",") if x] if mf else []
    if mf and mf.group(3) != "true":
        uncovered.append("(an entry of the reviewed table Fields16.v no longer names an untransferred member)")
    if mf and mf.group(4) != "true":
        uncovered += ["enum member %s::%s: store cast %s, load through %s cast to %s" % (c["name"], e["name"], e["store_cast"], e["load_tmp_type"], e["load_cast"])
                      for c in fside["classes"] for e in c["enums"] if not TF.enum_ok(c, e)]
    ctx.coverage["ser_fields_uncovered"] = uncovered
    ctx.coverage["ser_field_gaps_open"] = open_gaps
    if uncovered:
        ctx.note("data members of serialisable classes neither transferred by serialize() in both directions nor listed in "
                 "Fields16.v: %s" % uncovered)
    asym = asym + uncovered
    ctx.coverage["ser_asymmetric"] = asym
    ctx.coverage["ser_abstract_checked_through_subclasses"] = opn
    if asym:
        ctx.note("asymmetric serialize() bodies (store vs load): %s" % asym)
        for c in side["classes"]:
            if c["name"] in asym:
                ctx.note("  %s store: %s" % (c["name"], " ".join(c["store"])))
                ctx.note("  %s load : %s" % (c["name"], " ".join(c["load"])))
    # ---- 5a. engine-level correspondence -------------------------------------------------------------------
    cases = gen_engine(ctx)
    lines = F26_WITNESS + ["eng %d 0 %s" % (bs, " ".join(t)) for _, bs, t, _ in cases]
    # lines of the F26 class desynchronise the loading engine of an unrepaired library; what it then does with garbage
    # lengths includes heap corruption, so each of them gets a process of its own (a crash is an answer, not the end)
    risky = set(range(len(F26_WITNESS))) | {k + len(F26_WITNESS) for k, c in enumerate(cases) if c[3]}
    safe_idx = [k for k in range(len(lines)) if k not in risky]
    rc1, safe_out, err1 = run_bin(xh, [lines[k] for k in safe_idx])
    impl = [None] * len(lines)
    for k, o in zip(safe_idx, safe_out):
        impl[k] = o
    if rc1 == 0 and len(safe_out) == len(safe_idx):
        for k in sorted(risky):
            rck, ok_, _ = run_bin(xh, [lines[k]])
            impl[k] = ok_[0] if rck == 0 and ok_ else "crash rc=%d" % rck
    else:
        impl = [x for x in impl if x is not None][:len(safe_out)]
        lines = [lines[k] for k in safe_idx]
    rc2, model, err2 = run_bin(xm, lines)
    if rc1 != 0 or len(impl) != len(lines):
        ctx.violation("harness-crash", {"what": "engine harness crashed or lost lines", "rc": rc1, "stderr": err1[-2000:],
                                        "request": lines[len(impl)] if len(impl) < len(lines) else None})
        return
    if rc2 != 0 or len(model) != len(lines):
        ctx.violation("model-crash", {"what": "model driver crashed", "stderr": err2[-2000:]}, no_input=True)
        return
    dist = {}
    diverging = []
    f26_class = 0
    for k, (line, i, mo) in enumerate(zip(lines, impl, model)):
        ctx.count()
        if k >= len(F26_WITNESS):
            kind, bs, toks, f26 = cases[k - len(F26_WITNESS)]
            dist[kind] = dist.get(kind, 0) + 1
            f26_class += f26
            if len(i) > 3 + 2 * bs + 8:
                ctx.distinct(line)        # more than one buffer was produced
        if i != mo:
            diverging.append(k)
    ctx.coverage["traces_validated_against_impl"] = len(lines)
    ctx.coverage["input_distribution"] = {"engine": dist, "engine_cases_in_F26_class": f26_class}
    ctx.sample({"kind": "engine", "request": lines[5][:300], "impl": impl[5][:300], "model": model[5][:300]})
    # divergences: Spec oracle = round trip (extracted spec_roundtrip on the implementation's own read-back), attribution to
    # finding F26 through the model's defect switch (stale = 1)
    f26_hits, viol, unexplained = 0, 0, []
    known26 = ctx.find_known("F26")
    if diverging:
        stale_lines = [re.sub(r"^eng (\d+) 0 ", r"eng \1 1 ", lines[k]) for k in diverging]
        _, stale, _ = run_bin(xm, stale_lines)
        spec_req = []
        for k in diverging:
            back = impl[k].split(" | ", 1)[1] if " | " in impl[k] else "err"
            spec_req.append("spec %s | %s" % (" ".join(lines[k].split()[3:]), back))
        _, spec, _ = run_bin(xm, spec_req)
        def norm(x):   # a garbage length ends in an allocation failure or in a short read, depending on its value
            return re.sub(r"err (OutOfMemory|XSerializationException:XSer_InStream_Read_LT_Req|XSer_InStream_Read_LT_Req)$", "err LEN", x)
        for k, st, sp in zip(diverging, stale, spec):
            breaks_spec = sp != "ok 1"
            # attribution to F26 by the defect switch: the faithful (stale) model produces the same bytes and also fails the
            # round trip, and either gives the very same read-back or the implementation stopped on a garbage length
            # (allocation of a garbage bufferLen is not modelled)
            same_bytes = impl[k].split(" | ")[0] == st.split(" | ")[0] == model[k].split(" | ")[0]
            stale_fails = st.split(" | ", 1)[-1] != model[k].split(" | ", 1)[-1]
            crashed = impl[k].startswith("crash")
            if crashed:
                breaks_spec, same_bytes = True, True
            if breaks_spec and same_bytes and stale_fails and (crashed or norm(impl[k]) == norm(st) or norm(impl[k]).endswith("err LEN")):
                f26_hits += 1
                if not known26:
                    viol += 1
                    if viol <= 3:
                        ctx.violation("divergence", {"request": lines[k], "impl": impl[k][-400:], "model": model[k][-400:],
                                                     "what": "XSerializeEngine::read(XMLByte*,len) returns stale data after a raw "
                                                             "read that ends exactly at a buffer boundary: values read back differ "
                                                             "from the values written (round-trip Spec violated)"})
            elif breaks_spec:
                viol += 1
                if viol <= 3:
                    ctx.violation("divergence", {"request": lines[k], "impl": impl[k][-600:], "model": model[k][-600:],
                                                 "what": "engine differs from the model and its read-back violates the round-trip "
                                                         "Spec"})
            else:
                unexplained.append(k)
    if unexplained and not viol:
        k = unexplained[0]
        ctx.violation("correspondence", {"what": "engine bytes differ from the model although the values read back are right: "
                                                 "correspondence xh_C16~xm_C16 no longer checks", "request": lines[k],
                                         "impl": impl[k][:600], "model": model[k][:600], "count": len(unexplained)},
                      no_input=True)
    # Spec oracle on agreeing cases too (a bug shared by model and code cannot hide)
    agree = [k for k in range(len(lines)) if impl[k] == model[k] and " | " in impl[k]]
    ctx.rng.shuffle(agree)
    agree = agree[:600 if ctx.tier == "quick" else 6000]
    _, spec2, _ = run_bin(xm, ["spec %s | %s" % (" ".join(lines[k].split()[3:]), impl[k].split(" | ", 1)[1]) for k in agree])
    for k, sp in zip(agree, spec2):
        if sp != "ok 1":
            ctx.violation("spec", {"request": lines[k], "impl": impl[k][-600:], "what": "agreeing case violates the round-trip Spec"})
            break
    ctx.coverage["spec_oracle_checked"] = len(agree) + len(diverging)
    ctx.note("engine: %d cases, %d divergences (%d attributed to F26), %.1fs" % (len(lines), len(diverging), f26_hits,
                                                                               time.time() - t0))
    # ---- 5a''. truncated streams (T16_truncated_rejects): the loading side gets a prefix of the stream ---------------
    tl, tfull = [], []
    pick = [k for k in range(len(F26_WITNESS), len(lines)) if impl[k] == model[k] and " | " in impl[k] and " err " not in impl[k]]
    ctx.rng.shuffle(pick)
    for k in pick[:150 if ctx.tier == "quick" else 2000]:
        bs = cases[k - len(F26_WITNESS)][1]
        L = len(impl[k].split(" | ")[0].split()[1]) // 2 if impl[k].split(" | ")[0].split()[1] != "-" else 0
        tail0 = len(re.search(r"((?:00)*)$", impl[k].split(" | ")[0].split()[1]).group(1)) // 2      # zero bytes at the end
        cut = ctx.rng.choice([0, bs - 1, bs, max(0, L - bs), max(0, L - bs + 1), max(0, L - 1), max(0, L - tail0), max(0, L - tail0 - 1),
                              ctx.rng.randrange(0, L + 1), bs * ctx.rng.randrange(0, L // bs + 1)])
        tl.append(re.sub(r"^eng (\d+) 0 ", r"eng \1 c%d " % cut, lines[k]))
        tfull.append((k, cut, L))
    rct, timpl, terr = run_bin(xh, tl)
    _, tmodel, _ = run_bin(xm, tl)
    if rct != 0 or len(timpl) != len(tl):
        ctx.violation("harness-crash", {"what": "engine harness crashed on a truncated stream", "rc": rct, "stderr": terr[-1000:],
                                        "request": tl[len(timpl)] if len(timpl) < len(tl) else None})
        return
    trej = 0
    for req, i, mo, (k, cut, L) in zip(tl, timpl, tmodel, tfull):
        ctx.count()
        back = i.split(" | ", 1)[1] if " | " in i else i
        rejected = back == "err XSer_InStream_Read_LT_Req" or back == "err XSerializationException:XSer_InStream_Read_LT_Req"
        trej += rejected
        if rejected and cut < L:
            ctx.distinct(req)
        # Spec (the theorem's statement): rejected with XSer_InStream_Read_LT_Req, or the very items of the whole stream
        spec_ok = rejected or back == impl[k].split(" | ", 1)[1]
        if not spec_ok:
            ctx.violation("truncated", {"request": req, "impl": i[-500:], "model": mo[-500:], "whole_stream_answer": impl[k][-300:],
                                        "what": "a truncated stream is neither rejected with XSer_InStream_Read_LT_Req nor read as "
                                                "the whole stream is: the loader silently returns different items"})
            break
        if i.replace(" err XSerializationException:", " err ") != mo:
            ctx.violation("correspondence", {"request": req, "impl": i[-500:], "model": mo[-500:],
                                             "what": "engine and model differ on a truncated stream although the engine's answer "
                                                     "satisfies the Spec"}, no_input=True)
            break
    ctx.coverage["traces_validated_against_impl"] += len(tl)
    ctx.coverage["input_distribution"]["engine_truncated_streams"] = len(tl)
    ctx.coverage["input_distribution"]["engine_truncated_streams_rejected"] = trej
    ctx.note("truncated streams: %d cases, %d rejected with XSer_InStream_Read_LT_Req, the others read as the whole stream" % (len(tl), trej))
    # ---- 5a'. object references: real store/load pools vs ModelObj16 --------------------------------------------
    olines = []
    for n in range(300 if ctx.tier == "quick" else 5000):
        na, nt = ctx.rng.randrange(1, 7), ctx.rng.randrange(0, 3)
        evs = []
        for _ in range(ctx.rng.randrange(1, 26)):
            r = ctx.rng.random()
            if r < 0.12:
                evs.append(ctx.rng.choice(["n0", "n1", "nt"]))
            elif r < 0.3 and nt:
                evs.append("t%d" % (100 + ctx.rng.randrange(nt)))
            else:
                ad = ctx.rng.randrange(na)
                evs.append("o%d:%d" % (ad, ad % 2))         # one class per address
        olines.append("obj %d %s" % (ctx.rng.choice([8, 12, 16, 64, 8192]), " ".join(evs)))
    rco, oimpl, oerrs = run_bin(xh, olines)
    _, omodel, _ = run_bin(xm, olines)
    if rco != 0 or len(oimpl) != len(olines):
        ctx.violation("harness-crash", {"what": "object-reference harness crashed", "rc": rco, "stderr": oerrs[-1000:],
                                        "request": olines[len(oimpl)] if len(oimpl) < len(olines) else None})
        return
    shared = 0
    for req, i, mo in zip(olines, oimpl, omodel):
        ctx.count()
        toks = req.split()[2:]
        if len(set(toks)) < len(toks):
            shared += 1
            ctx.distinct(req)
        if not mo.endswith(" re=1") or i != mo[:-5]:
            # Spec: the loaded sharing pattern must be the stored one (computed here from the request itself)
            first, want = {}, []
            for tk in toks:
                if tk[0] == "n":
                    want.append("-")
                else:
                    key = tk.split(":")[0]
                    first.setdefault(key, len(first))
                    want.append(str(first[key]))
            if i != "ok " + " ".join(want):
                ctx.violation("obj-divergence", {"request": req, "impl": i, "model": mo,
                                                 "what": "loaded object graph is not isomorphic to the stored one (sharing / null pattern differs)"})
            else:
                ctx.violation("correspondence", {"request": req, "impl": i, "model": mo,
                                                 "what": "object-layer model differs from the engine although the engine's answer is right"},
                              no_input=True)
            break
    ctx.coverage["traces_validated_against_impl"] += len(olines)
    ctx.coverage["input_distribution"]["object_reference_runs"] = len(olines)
    ctx.coverage["input_distribution"]["object_reference_runs_with_sharing"] = shared
    ctx.note("object references: %d runs (%d with shared pointers), all equal to the model" % (len(olines), shared))
    # ---- 5b. pool-level correspondence ---------------------------------------------------------------------
    t1 = time.time()
    n_gr = (48 if ctx.tier == "quick" else 1500)
    if asym:
        n_gr *= 3            # refuter budget when an obligation broke
    preq, pmeta = [], []
    feats_seen = {}
    for n in range(n_gr):
        if n % 3 == 0:
            g, ins, feats = G.dtd_case(ctx.rng)
            kind = "dtd"
        elif n % 3 == 2:
            # user-defined components named like built-ins / like each other in two namespaces (imported grammar first)
            gs, ins, feats = G.xsd_clash_case(ctx.rng)
            for f in feats:
                feats_seen[f] = feats_seen.get(f, 0) + 1
            preq.append("pool xsd cmp %s %s" % ("+".join(hx(x) for x in gs), " ".join(hx(i) for i in ins)))
            pmeta.append(("xsd", "\n".join(gs), ins))
            continue
        else:
            g, ins, feats = G.xsd_case(ctx.rng)
            kind = "xsd"
        for f in feats:
            feats_seen[f] = feats_seen.get(f, 0) + 1
        preq.append("pool %s cmp %s %s" % (kind, hx(g), " ".join(hx(i) for i in ins)))
        pmeta.append((kind, g, ins))
    # wrong level stamps and the right one
    g0 = pmeta[1][1]
    lev = side["level"]
    lv_req = ["pool xsd level:%08X %s" % (v, hx(g0)) for v in (lev + 1, lev - 1, 0, 9999, 10000, 0xFFFFFFFF, lev << 8, lev)]
    lv_mod = ["level %d %08X" % (bs, v) for bs in (8, 16, 8192) for v in (lev + 1, lev - 1, 0, 0xFFFFFFFF, lev << 8, lev)]
    # F26 at pool level: an annotation aimed so that its text ends exactly at a buffer boundary
    rcp, pout, perr = run_bin(xh, preq + lv_req, timeout=1500)
    if rcp != 0 or len(pout) != len(preq) + len(lv_req):
        k = len(pout)
        ctx.violation("harness-crash", {"what": "pool harness crashed (segfault inside the library) on this request",
                                        "rc": rcp, "stderr": perr[-1500:],
                                        "request": (preq + lv_req)[k] if k < len(preq) + len(lv_req) else None})
        return
    nogram, ninst, ninvalid, reser = 0, 0, 0, {}
    f62_hits = []
    for (kind, g, ins), req, o in zip(pmeta, preq, pout):
        ctx.count()
        if o.startswith("nogrammar"):
            nogram += 1
            continue
        good, why = pool_line_ok(o)
        parts = o.split(" | ")
        ninst += len(parts) - 1
        inval = sum(1 for p in parts[1:] if not p.split()[1] == "e0")
        ninvalid += inval
        mre = re.search(r"reser=(\S+)", o)
        if mre:
            reser[mre.group(1)] = reser.get(mre.group(1), 0) + 1
        if inval:
            ctx.distinct(req)
        if not good and open_gaps and kind == "xsd" and f62_attributed(xh, g, ins, why):
            f62_hits.append(req)
            continue
        if not good:
            ctx.violation("pool-divergence", {"request": req, "what": "restored pool differs from the original: " + why,
                                              "grammar": g, "instances": ins, "impl": o[:6000]})
            if len(ctx.violations) > 3:
                break
    ctx.coverage["traces_validated_against_impl"] += ninst
    ctx.coverage["input_distribution"].update({"pool_grammars": len(preq), "pool_grammars_rejected_by_loadGrammar": nogram,
                                               "pool_instances": ninst, "pool_instances_with_errors": ninvalid,
                                               "features": feats_seen, "reserialisation": reser})
    if nogram * 4 > len(preq):
        ctx.violation("generator", {"what": "more than a quarter of the generated grammars are rejected by loadGrammar",
                                    "sample": next(o for o in pout if o.startswith("nogrammar"))[:500]}, no_input=True)
    ctx.sample({"kind": "pool", "grammar": pmeta[1][1][:400], "instance": pmeta[1][2][0][:300], "impl": pout[1][:300]})
    # level stamp
    _, lm, _ = run_bin(xm, lv_mod)
    for req, o in zip(lv_req, pout[len(preq):]):
        ctx.count()
        want_ok = req.split()[2] == "level:%08X" % lev
        okk = ("level-accepted" in o) if want_ok else ("level-rejected:XSerializationException:XSer_Storer_Loader_Mismatch grammars=0" in o)
        if not okk and int(req.split()[2][6:], 16) > 9999 and "level-rejected:IllegalArgumentException" in o and "grammars=0" in o:
            f27 = ("deserializeGrammars formats the foreign level stamp into XMLCh[5] with binToText(..., 4, ...): a stamp above 9999 "
                   "is rejected with IllegalArgumentException (Str_TargetBufTooSmall) instead of XSerializationException "
                   "(witness stamp %s; nothing is loaded)" % req.split()[2][6:])
            if ctx.find_known("F27"):
                ctx.known_finding("F27", f27)
            else:
                ctx.violation("F27", {"request": req, "impl": o[:400], "what": f27})
        elif not okk:
            ctx.violation("level", {"request": req, "impl": o[:500], "what": "stream with level stamp %s: %s" % (
                req.split()[2], "rejected" if want_ok else "not rejected with XSerializationException before anything was loaded")})
    for req, o in zip(lv_mod, lm):
        want = "ok" if req.endswith("%08X" % lev) else "err XSer_Storer_Loader_Mismatch"
        if o != want:
            ctx.violation("level-model", {"request": req, "model": o}, no_input=True)
    # F26 through the pool API
    pool26 = f26_pool_witness(ctx, xh)
    ctx.coverage["F26_pool_witness"] = pool26
    ctx.note("pool: %d grammars (%d rejected by loadGrammar), %d instances (%d with errors), %.1fs" % (
        len(preq), nogram, ninst, ninvalid, time.time() - t1))
    # ---- findings ------------------------------------------------------------------------------------------
    # F62: XMLDateTime::serialize does not transfer fMilliSecond / fHasTime.  The fixed witness is replayed on every run.
    _, o62, _ = run_bin(xh, [F62_WITNESS])
    wit62 = bool(o62) and o62[0].startswith("ok ") and " | DIFF" in o62[0]
    ctx.coverage["F62_witness_reproduced"] = wit62
    ctx.coverage["F62_generated_grammars_attributed"] = len(f62_hits)
    if wit62 or f62_hits:
        txt = ("XMLDateTime::serialize() transfers neither fMilliSecond nor fHasTime: a date/time facet or enumeration value with "
               "fractional seconds loses them in the restored pool, so the restored pool gives another verdict (witness: dateTime "
               "maxInclusive 2000-01-01T00:00:00.5, instance ...00.3 is valid against the original pool and rejected against the "
               "restored one%s; %d generated schemas attributed by the counterfactual `same schema without the fractions "
               "agrees`; field coverage reports the members open: %s)" % ("" if wit62 else " - NOT reproduced this run", len(f62_hits),
                                                                            [g_.split(" ")[0] for g_ in open_gaps]))
        if ctx.find_known("F62") and open_gaps:
            ctx.known_finding("F62", txt)
        else:
            ctx.violation("F62", {"request": F62_WITNESS if wit62 else f62_hits[0], "impl": (o62[0][:600] if o62 else None), "what": txt})
    elif open_gaps:
        ctx.note("field coverage lists %s as untransferred but the F62 witness does not reproduce" % open_gaps)
    wit_hit = impl[0] != model[0]
    if wit_hit or f26_hits or pool26.get("reproduced"):
        txt = ("XSerializeEngine::read(XMLByte*, len) leaves fBufCur at the start of the buffer it just consumed when the bytes "
               "remaining after the available part are an exact multiple of fBufSize: the next reads return stale data "
               "(witness `%s` reads back %s; %d generated engine cases of this class; pool-level: %s)" % (
                   F26_WITNESS[0][:60] + "...", impl[0].split(" | ")[-1].split()[-1] if " | " in impl[0] else impl[0][:40], f26_hits,
                   pool26.get("summary", "not reproduced")))
        if known26:
            ctx.known_finding("F26", txt)
        elif not any(t == "divergence" for _, t, _ in ctx.violations):
            ctx.violation("F26", {"request": F26_WITNESS[0], "impl": impl[0][-300:], "model": model[0][-300:], "what": txt})
    # ---- a failed obligation -------------------------------------------------------------------------------
    if proof_broken and not ctx.violations:
        ctx.violation("obligation", {"what": "Coq obligation no longer checks and the correspondence sweeps (engine + %d grammars) "
                                             "found no behavioural difference" % len(preq), "failed": failed,
                                     "asymmetric_classes": asym, "output": out[-3000:]}, no_input=True)
    elif proof_broken:
        ctx.note("proof obligation failed; a concrete failing input was found by the correspondence")
    ctx.coverage["rule"] = ("object references: 300 seeded event sequences (objects of two real classes with sharing, nulls, template "
                            "containers) through the real engine vs ModelObj16, sharing pattern compared.  engine: seeded operation sequences (1-9 typed writes: 1/2/4/8-byte primitives, writeSize, raw blocks, "
                            "XMLCh/XMLByte strings with and without buffer length, null strings) at every buffer size 8..40 and "
                            "48..1000, 8192; half of the cases aim raw/string lengths at the buffer boundary (avail + {0,1,2}*bufSize "
                            "+-2); bytes and read-back compared with the extracted model; a case is non-trivial when more than one "
                            "buffer is produced.  pool: generated DTDs (all content-model kinds, all attribute types/defaults, "
                            "notations, entities) and schemas (20 facet-bearing simple types incl. list/union, 11 complex-type "
                            "kinds, groups, wildcards, substitution groups, identity constraints, notations, annotations) with "
                            "valid and invalid instances; non-trivial = at least one instance reports a validation error; "
                            "distinct by request text")
    ctx.coverage["exhaustive"] = False


F62_SCHEMA = ('<xs:schema xmlns:xs="http://www.w3.org/2001/XMLSchema"><xs:simpleType name="t"><xs:restriction base="xs:dateTime">'
              '<xs:maxInclusive value="2000-01-01T00:00:00.5"/></xs:restriction></xs:simpleType><xs:element name="r" type="t"/></xs:schema>')
F62_WITNESS = "pool xsd cmp %s %s" % (hx(F62_SCHEMA), " ".join(hx(i) for i in (
    "<r>2000-01-01T00:00:00.3</r>", "<r>2000-01-01T00:00:00.7</r>", "<r>2000-01-01T00:00:00</r>")))
FRAC_VALUE = re.compile(r'(value="[^"]*?\d\d:\d\d:\d\d)\.\d+')


def f62_attributed(xh, g, ins, why):
    """exact attribution of a pool divergence to F62: only instance verdicts differ, the schema has date/time facet values
    with fractional seconds, and the very same request with the fractions removed from those facet values agrees"""
    if why != "validation of an instance differs" or not FRAC_VALUE.search(g):
        return False
    g2 = FRAC_VALUE.sub(lambda m: m.group(1), g)
    _, o, _ = run_bin(xh, ["pool xsd cmp %s %s" % (hx(g2), " ".join(hx(i) for i in ins))])
    return bool(o) and pool_line_ok(o[0])[0]


def pool_line_ok(o):
    """the property's oracle on one harness answer"""
    if not o.startswith("ok "):
        return False, o[:200]
    if "deser-failed" in o or "ser1-failed" in o or "ser2-failed" in o:
        return False, re.search(r"\S+-failed:\S+", o).group(0)
    m = re.search(r"reser=(\S+)", o)
    if not m or not (m.group(1) == "same" or m.group(1).startswith("samelen")):
        return False, "second serialisation has another length (%s)" % (m.group(1) if m else "?")
    m = re.search(r"grammars=(\d+)/(\d+)", o)
    if not m or m.group(1) != m.group(2):
        return False, "grammar count differs"
    if "model=DIFF" in o:
        return False, "schema component model differs"
    for p in o.split(" | ")[1:]:
        if not p.startswith("same"):
            return False, "validation of an instance differs"
    return True, ""


def f26_pool_witness(ctx, xh):
    """aim the text of a schema annotation so that the string ends exactly at a buffer boundary of the default 8192-byte
    engine buffer, then run the ordinary pool comparison on it"""
    import random
    res = {"reproduced": False}
    try:
        rng = random.Random(26)
        marker = "Z" * 64
        pat = marker.encode("utf-16-le").hex().upper()

        def mk(n):
            r = random.Random(26)
            return G.xsd_case(r, annotation_len=n)
        # the finding is specific to one length: a pool that fails for an ordinary annotation has another problem
        gb, insb, _ = mk(100)
        _, ob, _ = run_bin(xh, ["pool xsd cmp %s %s" % (hx(gb), hx(insb[0]))])
        if not ob or not pool_line_ok(ob[0])[0]:
            res["summary"] = "baseline schema already differs - not attributed to F26"
            return res
        base = 5000
        g, ins, _ = mk(base)
        _, o, _ = run_bin(xh, ["pool xsd find:%s %s" % (pat, hx(g))])
        m = re.search(r"at=(-?\d+)", o[0]) if o else None
        if not m or int(m.group(1)) < 0:
            res["summary"] = "marker not found"
            return res
        at = int(m.group(1))
        # the string starts `pre` characters before the marker run; its bytes start at at - 2*pre
        pre = g.index("Z" * base) - g.index("<xs:annotation>")
        tail = len("</xs:documentation></xs:annotation>")
        tried = []
        for pre_adj in (0,):
            start = at - 2 * pre
            avail = 8192 - start % 8192
            total_chars = (avail + 8192) // 2            # 2*L - avail = 8192
            n = total_chars - pre - tail
            for dn in [0, -1, 1, -2, 2, -3, 3, -4, 4] + [6861 - n, 7045 - n]:
                g2, ins2, _ = mk(n + dn)
                rc, o2, _ = run_bin(xh, ["pool xsd cmp %s %s" % (hx(g2), " ".join(hx(i) for i in ins2[:3]))])
                tried.append(n + dn)
                if rc != 0 or not o2:
                    res.update(reproduced=True, summary="annotation of %d chars: harness crashed rc=%d" % (n + dn, rc),
                               request_len=n + dn)
                    return res
                good, why = pool_line_ok(o2[0])
                if not good:
                    res.update(reproduced=True, annotation_chars=n + dn,
                               summary="schema whose annotation text has %d characters: %s" % (n + dn, why))
                    return res
        res["summary"] = "not reproduced (tried annotation lengths %s)" % tried
    except Exception as e:  # the witness search is auxiliary
        res["summary"] = "search failed: %r" % (e,)
    return res
