"""C17 -- Distinct parser, document and transcoder objects are safe to use concurrently.   CLAIM: PARTIAL.

Proof part (decides the modelled protocol for all interleavings and any number of threads):
  coq/theories/C17/Properties_C17.v -- T17_lockset, T17_initonly, T17_lazy_once, T17_determinacy,
  T17_locked_pool_readonly and the generated obligation T17_inventory, which confronts the committed classification
  (Classify17.v) with what translator/c17_globals.py measures on THIS tree: every writable symbol of the rebuilt .so
  (nm), every mention of it in the source with the XMLMutexLock scopes lexically held there, the
  Initialize/Terminate call lists.
Exploration part (labelled as such in the evidence; it cannot prove absence of races):
  bin/xh_C17-tsan built against the ThreadSanitizer build of the library: many short fresh processes, N in {2,4,8,16}
  threads released from a barrier right after Initialize, seeded independent workloads, seeded yields around every
  library mutex operation; TSan reports, time-outs (deadlock) and per-thread digests compared with the sequential run
  of the same workloads."""
import concurrent.futures
import hashlib
import json
import os
import re
import subprocess
import sys
import time

import vcommon as V

sys.path.insert(0, os.path.join(V.VERIF, "translator"))
import c17_globals as T  # noqa

TSAN_ENV = {"TSAN_OPTIONS": "halt_on_error=0 exitcode=66 second_deadlock_stack=1 history_size=4"}


def utf8_locale():
    """a UTF-8 locale for the harness processes: under it the local-code-page form of CJK/Cyrillic text is 2-4 bytes per
    UTF-16 unit, which is what drives ICULCPTranscoder::transcode into its overflow-retry path"""
    try:
        names = subprocess.run(["locale", "-a"], stdout=subprocess.PIPE, stderr=subprocess.DEVNULL, timeout=20).stdout.decode().split()
    except Exception:  # noqa
        names = []
    for want in ("C.utf8", "C.UTF-8", "en_US.utf8", "en_US.UTF-8"):
        if want in names:
            return want
    for n in names:
        if n.lower().endswith(("utf8", "utf-8")):
            return n
    return None


LOCALE = utf8_locale()
TIMEOUT = 150

# known findings: how a ThreadSanitizer report is attributed (precise predicates, see known-findings.d/C17.json)
F_KIDOK, F_WSFACETS, F_LAZYCM, F_CASEI, F_DESER, F_VALREGEX = "F17-1", "F17-2", "F17-3", "F17-4", "F17-5", "F17-6"
POOLBITS = 0x2 | 0x80 | 0x200 | 0x4000 | 0x8000


def inventory(ctx, audit_text):
    """T-globals/T-locks/T-init, cached on (tree state, .so, translator source): the translation is a pure function
    of those, so the cache only saves the 10 s of scanning when nothing changed."""
    so = V.lib_so("lib")
    h = hashlib.sha1()
    h.update(V.repo_state_key().encode())
    h.update(open(os.path.join(V.VERIF, "translator", "c17_globals.py"), "rb").read())
    st = os.stat(so)
    h.update(("%d-%d" % (st.st_size, int(st.st_mtime))).encode())
    h.update(audit_text.encode())
    key = h.hexdigest()
    side = os.path.join(V.BUILD, "c17_inventory.json")
    stamp = side + ".key"
    gen = os.path.join(V.COQ, "theories", "Gen")
    have = all(os.path.exists(os.path.join(gen, f)) for f in ("GenGlobals.v", "GenLocks.v", "GenInit17.v"))
    if have and os.path.exists(side) and os.path.exists(stamp) and open(stamp).read() == key:
        return json.load(open(side))
    inv = T.generate(so, V.REPO, range_audit=T.parse_audit(audit_text))
    open(stamp, "w").write(key)
    return inv


def run_one(xh, mode, cfg):
    seed, n, mask, pert, iters = cfg
    tmo = 20 if mask & 0x1000 else TIMEOUT      # bit12 = witness of F17-4, which can crash or hang the process
    env = dict(os.environ)
    env.update(TSAN_ENV)
    if LOCALE:
        env["LC_ALL"] = LOCALE
    if os.environ.get("VERIF_C17_LIBDIR"):       # testing aid: run against a separately (re)linked TSan library
        env["LD_LIBRARY_PATH"] = os.environ["VERIF_C17_LIBDIR"]   # (the harness carries a RUNPATH, which this precedes)
    t0 = time.time()
    try:
        p = subprocess.run([xh, mode, str(seed), str(n), str(mask), str(pert), str(iters)], stdout=subprocess.PIPE,
                           stderr=subprocess.PIPE, env=env, timeout=tmo)
        return {"rc": p.returncode, "out": p.stdout.decode("ascii", "replace"), "err": p.stderr.decode("utf-8", "replace"),
                "timeout": False, "t": time.time() - t0}
    except subprocess.TimeoutExpired as e:
        return {"rc": 124, "out": (e.stdout or b"").decode("ascii", "replace"),
                "err": (e.stderr or b"").decode("utf-8", "replace"), "timeout": True, "t": time.time() - t0}


FRAME_RE = re.compile(r"^\s+#(\d+) (.*?) (\S+:\d+(?::\d+)?|\S+|<null>)(?: \(.*)?$")


def parse_reports(err):
    """split TSan output into reports: kind, stacks (list of list of (function, file)), global location name"""
    reps = []
    for chunk in err.split("WARNING: ThreadSanitizer: ")[1:]:
        chunk = chunk.split("SUMMARY: ThreadSanitizer:")[0]
        kind = re.sub(r"\s*\(pid=\d+\)", "", chunk.split("\n", 1)[0]).strip()
        stacks = []
        cur = None
        for ln in chunk.split("\n")[1:]:
            m = FRAME_RE.match(ln)
            if m:
                if cur is None:
                    cur = []
                    stacks.append(cur)
                cur.append((m.group(2), m.group(3)))
            elif ln.strip() == "" or not ln.startswith("    "):
                if ln.strip().endswith(":") or ln.strip() == "":
                    cur = None
        g = re.search(r"Location is global '([^']*)'", chunk)
        reps.append({"kind": kind, "stacks": stacks, "global": g.group(1) if g else None, "text": chunk[:6000]})
    if "ThreadSanitizer: SEGV" in err or "ThreadSanitizer:DEADLYSIGNAL" in err:
        reps.append({"kind": "crash (deadly signal)", "stacks": [], "global": None, "text": err[-6000:]})
    return reps


def lib_frames(rep):
    return [f for st in rep["stacks"] for (f, where) in st if "/src/xercesc/" in where]


def top_lib_frame(stack):
    for f, where in stack:
        if "/src/xercesc/" in where:
            return f
    return None


def attribute(rep, cfg):
    """-> finding id or None.  The predicates are deliberately narrow."""
    fr = lib_frames(rep)
    g = rep["global"] or ""
    tops = [top_lib_frame(st) or "" for st in rep["stacks"][:2]]
    if (cfg[2] & 0x1000) and (rep["kind"].startswith("crash") or any("RangeToken::" in f or "RangeTokenMap::getRange" in f for f in fr)):
        return F_CASEI          # only the unrestrained regex mode (option i on shared tokens, lazily created complements)
    if rep["kind"].startswith("data race"):
        if "isKidOK" in g and g.endswith("::kidOK"):
            return F_KIDOK
        if not g and tops and all("DOMDocumentImpl::isKidOK" in t for t in tops if t) and any(tops):
            return F_KIDOK
        if "getElementAttValue" in g and (g.endswith("::wsFacets") or g.endswith("::bInitialized")):
            return F_WSFACETS
        if not g and tops and any(tops) and all("TraverseSchema::getElementAttValue" in t for t in tops if t):
            return F_WSFACETS
        pool_run = bool(cfg[2] & POOLBITS)
        if pool_run and (cfg[2] & 64) and any(("ComplexTypeInfo::getContentModel" in f or "ComplexTypeInfo::makeContentModel" in f)
                                               for f in fr):
            return F_LAZYCM     # schema content models: only when the pool was preloaded without validation + full checking
        if pool_run and any(("DTDElementDecl::getContentModel" in f or "DTDElementDecl::makeContentModel" in f or
                             "getFormattedContentModel" in f or "formatContentModel" in f) for f in fr):
            return F_LAZYCM     # DTD content models and the cached content-model text are built lazily in any pooled grammar
        if (cfg[2] & 0x20000) and any(("RangeToken::" in f or "RangeTokenMap::" in f or "RangeTokenElemMap::" in f) for f in fr):
            return F_CASEI      # the workload that asks for the complements Initialize does not pre-build
        if any(("RangeToken::createMap" in f or "RangeToken::doCreateMap" in f or "RangeToken::match" in f) for f in fr) and \
           any("DatatypeValidator" in f or "AbstractStringValidator" in f for f in fr):
            return F_VALREGEX   # pattern facet of a shared datatype validator: range bitmaps built on first match
    if (cfg[2] & 0x10000) and rep["kind"].startswith("crash"):
        return F_DESER
    return None


def report_key(rep):
    tops = [top_lib_frame(st) or (st[0][0] if st else "?") for st in rep["stacks"][:2]]
    return (rep["kind"], rep["global"] or "", tuple(t[:90] for t in tops))


def gen_configs(ctx):
    rng = ctx.rng
    quick = ctx.tier == "quick"
    nruns = 30 if quick else 1500
    #  bit0 private parsers, bit1 shared locked pool, bit2 DOM, bit3 regex, bit4 transcode, bit5 create/destroy,
    #  bit7 shared locked pool + per-thread schemas via schemaLocation + URI growth, bit8 heavy local-code-page transcoding
    masks = [0xCFBD, 0xEFBF, 0x82, 0x01, 0x04, 0x20808, 0x110, 0x20, 0x600, 0x4014, 0x221, 0x03, 0x6080, 0x100, 0xCE00, 0x3D]
    cfgs = []
    for k in range(nruns):
        n = (2, 4, 8, 16)[k % 4]
        mask = masks[(k // 4) % len(masks)] if k < 4 * len(masks) else rng.choice(masks + [rng.randrange(1, 64), 0x180 | rng.randrange(0, 64), (rng.randrange(1, 8) << 9) | rng.randrange(0, 64)])
        cfgs.append((rng.randrange(1, 10 ** 9), n, mask, rng.randrange(0, 3), rng.randrange(2, 6)))
    return cfgs


def targeted_configs(ctx, rounds=1):
    """workloads aimed at lock scopes that ordinary documents hardly reach: the synchronised URI pool of a locked grammar
    pool under growth (getId/exists/addOrFind with parse-time schemas), the overflow-retry path of the local-code-page
    transcoder, the owner-less doctype document.  Always part of the run; the refuter runs more of them."""
    rng = ctx.rng
    out = []
    for _ in range(rounds):
        out += [(rng.randrange(1, 10 ** 9), 16, 0x80, 1, 3), (rng.randrange(1, 10 ** 9), 8, 0x80, 2, 4),
                (rng.randrange(1, 10 ** 9), 16, 0x100, 1, 3), (rng.randrange(1, 10 ** 9), 8, 0x100, 0, 4),
                (rng.randrange(1, 10 ** 9), 16, 0x200, 1, 3), (rng.randrange(1, 10 ** 9), 16, 0x400, 1, 2),
                (rng.randrange(1, 10 ** 9), 16, 0x800, 1, 2), (rng.randrange(1, 10 ** 9), 8, 0x800, 2, 3),
                (rng.randrange(1, 10 ** 9), 8, 0x6000, 1, 3), (rng.randrange(1, 10 ** 9), 16, 0x4000, 1, 2),
                (rng.randrange(1, 10 ** 9), 8, 0xE000, 2, 3), (rng.randrange(1, 10 ** 9), 8, 0xC200, 1, 3),
                (rng.randrange(1, 10 ** 9), 8, 0x20000, 1, 2), (rng.randrange(1, 10 ** 9), 16, 0x20800, 2, 2)]
        if rounds > 1:
            out += [(rng.randrange(1, 10 ** 9), 16, 0x04, 1, 6), (rng.randrange(1, 10 ** 9), 16, 0x182, 2, 6),
                    (rng.randrange(1, 10 ** 9), 16, 0x3F, 1, 6), (rng.randrange(1, 10 ** 9), 4, 0x180, 1, 8)]
    return out


def looks_bad(job, out):
    """cheap pre-scan used by the refuter: does this run already contain something the decision below will report?"""
    fid, cfg = job
    seq, conc = out
    if cfg[2] & 0x11000:
        return False
    if conc["timeout"] or "DONE" not in conc["out"] or seq["rc"] != 0:
        return True
    if any(attribute(rp, cfg) is None for rp in parse_reports(conc["err"])):
        return True
    if pool_changed(seq["out"]) or pool_changed(conc["out"]):
        return True
    if pool_lines(seq["out"], cfg, lambda f: True)[0] or pool_lines(conc["out"], cfg, lambda f: True)[0]:
        return True
    a = [ln for ln in seq["out"].splitlines() if ln.startswith("T ")]
    b = [ln for ln in conc["out"].splitlines() if ln.startswith("T ")]
    return a != b


def pool_lines(out, cfg, known):
    """the harness' observations of the locked pool / the token map -> list of (tag, text) violations, list of finding ids"""
    bad, fids = [], []
    for ln in out.splitlines():
        if ln.startswith("POOLMEM "):
            kv = dict(x.split("=") for x in ln.split() if "=" in x)
            if int(kv.get("other", 0)) > 0:
                bad.append(("pool-allocated-while-locked", ln))
            if int(kv.get("xsdcm", 0)) > 0:
                if (cfg[2] & 64) and known(F_LAZYCM):
                    fids.append(F_LAZYCM)
                else:
                    bad.append(("pool-allocated-while-locked", ln))
            if int(kv.get("dtdcm", 0)) > 0 or int(kv.get("fmt", 0)) > 0:
                if known(F_LAZYCM):
                    fids.append(F_LAZYCM)
                else:
                    bad.append(("pool-allocated-while-locked", ln))
        elif ln.startswith("XSMODEL ") and ("nonnull=0" in ln or "same=0" in ln or "changed=1" in ln):
            bad.append(("xsmodel-changed-while-locked", ln))
        elif ln.startswith("RANGEMAP ") and ("CHANGED" in ln or "BAD" in ln):
            bad.append(("rangemap-corrupted", ln))
    return bad, fids


def pool_changed(out):
    """the harness prints what the locked pool holds before and after the workloads"""
    b = [ln[len("POOL before "):] for ln in out.splitlines() if ln.startswith("POOL before ")]
    a = [ln[len("POOL after "):] for ln in out.splitlines() if ln.startswith("POOL after ")]
    return bool(b) and bool(a) and a != b


def witness_configs(ctx):
    """fixed configurations aimed at the known findings, run first"""
    return [
        (F_KIDOK, [(1001 + i, 8, 0x04, 1, 2) for i in range(3)]),               # DOM only: first isKidOK calls collide
        (F_WSFACETS, [(2001 + i, 16, 0x01, 1, 3) for i in range(6)]),           # private schema parsers: first traversal
        (F_LAZYCM, [(3001 + i, (8, 16)[i % 2], 0x42, 1 + i % 2, 3) for i in range(6)]),
        (F_CASEI, [(4001 + i, 4, 0x1800, 1, 1) for i in range(1)]),             # option i on shared range tokens
        (F_DESER, [(5001, 2, 0x16000, 0, 1)]),                                  # pool serialised while LOCKED, then de-serialised              # shared pool, plain preload
    ]


def run(ctx):
    t0 = time.time()
    ctx.level = "proof"
    ctx.coverage["trusted_base"] = list(V.GLOBAL_TRUSTED_BASE) + [
        "C17 is PARTIAL: the theorems are about an interleaving model (sequentially consistent, mutex granularity); the "
        "tie to the code is the measured inventory (nm + lexical lock-scope scan, regex/brace matching over the C++ "
        "text, trusted) and the committed classification table coq/theories/C17/Classify17.v (trusted reading of what "
        "each class means); method calls through an InitOnly pointer are taken as reads of the pointee",
        "modelled rather than verified: C++ memory model below mutex granularity, heap objects shared in ways the "
        "inventory does not list, ICU and libc internals -- covered only by the ThreadSanitizer EXPLORATION "
        "(clang 14 -fsanitize=thread build of the library + harness/C17.cpp), which can find races but not prove "
        "their absence"]
    ctx.assumptions = [
        "every parser / document / serializer / transcoder object is used by one thread at a time (property premise)",
        "XMLPlatformUtils::Initialize has returned before any worker thread starts and Terminate runs after all joined",
        "the process-configuration API (recognizeNEL, strictIANAEncoding) is not called while workers run",
        "destructors of the singletons listed in Classify17.singleton_dtors run only in Terminate"]
    ctx.build_lib()
    ctx.build_lib("lib-tsan")
    xh = ctx.harness("C17", variant="lib-tsan", extra="-fsanitize=thread -rdynamic -ldl")
    # ---- translate -------------------------------------------------------------------------------------------
    try:
        a = run_one(xh, "audit", (0, 0, 0, 0, 0))          # the built library reports the state of its shared range tokens
        if a["rc"] != 0 or "DONE" not in a["out"]:
            raise RuntimeError("range token audit failed: rc=%s %s" % (a["rc"], a["err"][-500:]))
        inv = inventory(ctx, "\n".join(ln for ln in a["out"].splitlines() if ln.startswith("TOKEN ")))
    except Exception as e:  # noqa
        ctx.note("translator failed: %r" % (e,))
        ctx.violation("translator", {"what": "T-globals/T-locks/T-init can no longer read the tree", "error": repr(e)},
                      no_input=True)
        return
    nsym = len(inv["symbols"])
    ctx.coverage["inventory"] = {
        "writable_symbols": len([e for e in inv["symbols"] if e["sect"] != "h"]),
        "member_facilities": len([e for e in inv["symbols"] if e["sect"] == "h"]),
        "access_sites": len(inv["sites"]),
        "sites_inside_lock_scope": len([s for s in inv["sites"] if s["held"]]),
        "store_sites_outside_init_tree": len([s for s in inv["sites"] if s["kind"] in ("write", "dwrite") and not s["init"]]),
        "init_order": inv["init"]["init_order"], "pool_guards": inv["pool_guards"],
        "range_tokens": {"audited": len(inv["range_audit"]),
                         "without_bitmap": [t["key"] for t in inv["range_audit"] if t["present"] and not t["map"]],
                         "complement_created_on_first_use": [t["key"] for t in inv["range_audit"] if t["compl"] and not t["present"]],
                         "case_insensitive_twin_not_preset": len([t for t in inv["range_audit"] if t["present"] and not t["casei"]])}}
    # ---- prove -----------------------------------------------------------------------------------------------
    ok, out, failed = ctx.prove(["Base", "Gen", "C17"], ["theories/C17/Properties_C17.vo"],
                                props_file="theories/C17/Properties_C17.v", timeout=900)
    proof_broken = not ok
    if proof_broken:
        ctx.note("proof obligations failed: %s" % failed)
        ctx.note(out[-2500:])
    racy_static = sorted({(e["owner"], e["base"]) for e in inv["symbols"]
                          if (e["owner"], e["base"]) in (("DOMDocumentImpl::isKidOK", "kidOK"),
                                                         ("TraverseSchema::getElementAttValue", "bInitialized"),
                                                         ("TraverseSchema::getElementAttValue", "wsFacets"))
                          and any(s["sym"] == e["id"] and s["kind"] in ("write", "dwrite") and not s["held"] and not s["init"]
                                  for s in inv["sites"])})
    # ---- exploration -----------------------------------------------------------------------------------------
    if ctx.replay:
        r = json.load(open(ctx.replay))
        req = r.get("request")
        if not req:
            ctx.note("replay file carries no request (an obligation/translator failure): re-running the whole check")
            todo = [(None, c) for c in gen_configs(ctx)]
            ntarget = 0
        else:
            cfg = tuple(int(x) for x in req.split())
            todo = [(None, cfg)] * 6          # schedules vary: repeat the recorded configuration
        ntarget = 0
        wit = []
    else:
        wit = witness_configs(ctx)
        tcs = targeted_configs(ctx)
        ntarget = len(tcs)
        todo = [(None, c) for c in tcs + gen_configs(ctx)]
    def work(job):
        fid, cfg = job
        seq = run_one(xh, "seq", cfg)
        conc = run_one(xh, "conc", cfg)
        if conc["timeout"]:                       # overloaded machine or deadlock?  once more, then it counts
            conc2 = run_one(xh, "conc", cfg)
            if not conc2["timeout"]:
                conc = conc2
        return seq, conc
    # time budget: the quick tier must stay below 3 minutes even on a loaded machine, so the generated configurations
    # are a seed-determined sequence of which a prefix is run (at least 8); the number run is in the evidence
    explore_t0 = time.time()
    deadline = explore_t0 + (50 if ctx.tier == "quick" else 1500)
    jobs, outs = [], []
    with concurrent.futures.ThreadPoolExecutor(max_workers=4) as ex:
        for fid, cfgs in wit:                     # witnesses: stop a group as soon as its finding reproduced
            if not ctx.find_known(fid):           # fixed findings: one configuration remains as a regression guard
                cfgs = cfgs[:1]
            else:
                cfgs = cfgs[:3]
            for c in cfgs:
                o = work((fid, c))
                jobs.append((fid, c))
                outs.append(o)
                if any(attribute(rp, c) == fid for rp in parse_reports(o[1]["err"])):
                    break
        k = 0
        while k < len(todo) and ((k < ntarget and time.time() < explore_t0 + 110) or time.time() < deadline):
            chunk = todo[k:k + 4]
            outs += list(ex.map(work, chunk))
            jobs += chunk
            k += len(chunk)
        # refuter: an obligation failed (an access left its lock scope, a new mutable static, ...) and nothing above
        # exhibits it yet: run the targeted workloads with more processes / iterations before giving up
        refuter_runs = 0
        if proof_broken and not ctx.replay and not any(looks_bad(j, o) for j, o in zip(jobs, outs)):
            rdeadline = max(time.time() + 45, ctx.t0 + (165 if ctx.tier == "quick" else 1700))
            extra = [(None, c) for c in targeted_configs(ctx, rounds=6 if ctx.tier == "quick" else 40)]
            k2 = 0
            while k2 < len(extra) and time.time() < rdeadline:
                chunk = extra[k2:k2 + 4]
                o = list(ex.map(work, chunk))
                outs += o
                jobs += chunk
                k2 += len(chunk)
                refuter_runs += len(chunk)
                if any(looks_bad(j, x) for j, x in zip(chunk, o)):
                    break
        ctx.coverage["refuter_configurations_run"] = refuter_runs
    ctx.coverage["configurations_generated"] = len(todo)
    ctx.coverage["configurations_run"] = len(jobs)
    seen_findings = {}
    kinds = {}
    nrep = 0
    viol = 0
    distinct_reports = {}
    first_op_digests = set()
    for (fid, cfg), (seq, conc) in zip(jobs, outs):
        ctx.count()
        req = " ".join(str(x) for x in cfg)
        key = "n%d mask%02x perturb%d" % (cfg[1], cfg[2], cfg[3])
        kinds[key] = kinds.get(key, 0) + 1
        if (cfg[2] & 0x1000) and ctx.find_known(F_CASEI) and (conc["timeout"] or "DONE" not in conc["out"] or "DONE" not in seq["out"]):
            # the unrestrained regex mode can crash or hang the process, even the single-threaded reference run
            seen_findings.setdefault(F_CASEI, []).append((req, ("crash-or-hang", "sequential" if "DONE" not in seq["out"] else "concurrent")))
            continue
        if (cfg[2] & 0x10000) and ctx.find_known(F_DESER) and ("DONE" not in seq["out"] or "DONE" not in conc["out"]):
            seen_findings.setdefault(F_DESER, []).append((req, ("crash", "sequential" if "DONE" not in seq["out"] else "concurrent")))
            continue
        if seq["rc"] != 0 or "DONE" not in seq["out"]:
            reps = parse_reports(seq["err"])
            viol += 1
            if viol <= 5:
                ctx.violation("sequential-run-failed", {"request": req, "what": "the single-threaded reference run failed",
                                                        "rc": seq["rc"], "stderr": seq["err"][-3000:], "reports": len(reps)})
            continue
        for which, r_ in (("sequential", seq), ("concurrent", conc)):
            pbad, pfids = pool_lines(r_["out"], cfg, ctx.find_known)
            for f in pfids:
                seen_findings.setdefault(f, []).append((req, ("pool-memory", which)))
            for tag, text in pbad:
                viol += 1
                if viol <= 8:
                    ctx.violation(tag, {"request": req, "run": which, "what": {
                        "pool-allocated-while-locked": "a LOCKED grammar pool allocated through its memory manager (outside the "
                                                       "synchronised URI pool): it is not read-only",
                        "xsmodel-changed-while-locked": "getXSModel() of a LOCKED pool returned null / another object / 'changed'",
                        "rangemap-corrupted": "RangeTokenMap: a positive slot denotes another set than before the workload, or a "
                                              "complement slot is not the complement of its positive slot"}[tag],
                                        "line": text, "stderr": r_["err"][-2500:] if tag == "pool-allocated-while-locked" else ""})
            if pool_changed(r_["out"]):
                viol += 1
                if viol <= 6:
                    ctx.violation("pool-changed-while-locked",
                                  {"request": req, "run": which, "what": "the grammar registry of a LOCKED pool changed while parsers used it",
                                   "pool": [ln for ln in r_["out"].splitlines() if ln.startswith("POOL ")]})
        if conc["timeout"]:
            viol += 1
            if viol <= 5:
                ctx.violation("deadlock", {"request": req, "what": "concurrent run did not finish within %ds (twice)" % TIMEOUT,
                                           "stdout": conc["out"][-1000:], "stderr": conc["err"][-3000:]})
            continue
        reps = parse_reports(conc["err"])
        nrep += len(reps)
        unattributed = []
        for rp in reps:
            f = attribute(rp, cfg)
            if f:
                seen_findings.setdefault(f, []).append((req, report_key(rp)))
            else:
                unattributed.append(rp)
        if "DONE" not in conc["out"] or (conc["rc"] not in (0, 66)):
            viol += 1
            if viol <= 5:
                ctx.violation("crash", {"request": req, "what": "concurrent run crashed or was killed", "rc": conc["rc"],
                                        "stderr": conc["err"][-4000:]})
            continue
        for rp in unattributed:
            k = report_key(rp)
            if k in distinct_reports:
                continue
            distinct_reports[k] = req
            viol += 1
            if viol <= 6:
                glob = rp["global"]
                sentinel = bool(glob) and glob.startswith("sentinel::")
                libglob = bool(glob) and not sentinel
                ctx.violation("tsan-inventory-contradicted" if libglob else "tsan-report",
                              {"request": req, "kind": rp["kind"], "global": glob,
                               "top_frames": [top_lib_frame(st) for st in rp["stacks"][:3]],
                               "what": ("ThreadSanitizer report on a global the inventory classifies as safe" if libglob else
                                        "two threads were inside one ICU UConverter at the same time (converter sentinel of "
                                        "harness/C17.cpp): the library used the converter outside its mutex" if sentinel else
                                        "ThreadSanitizer report not attributed to a known finding"),
                               "report": rp["text"]})
        a = [ln for ln in seq["out"].splitlines() if ln.startswith("T ")]
        b = [ln for ln in conc["out"].splitlines() if ln.startswith("T ")]
        for ln in a:
            first_op_digests.add(ln.split()[2])
        if a != b:
            diff = [(x, y) for x, y in zip(a, b) if x != y]
            # a digest mismatch in a run whose only reports are known findings is attributed to them only for the
            # flag-before-data defect (F17-2 makes a reader see the table before it is filled)
            fids = {attribute(rp, cfg) for rp in reps}
            if fids == {F_WSFACETS} and ctx.find_known(F_WSFACETS):
                seen_findings.setdefault(F_WSFACETS, []).append((req, ("digest-mismatch",)))
            else:
                viol += 1
                if viol <= 6:
                    ctx.violation("digest-mismatch", {"request": req, "what": "a thread obtained a different result than the "
                                                      "same workload run single-threaded", "pairs": diff[:4]})
        if len(reps) or cfg[1] >= 4:
            ctx.distinct((cfg, a))
        ctx.sample({"request": req, "threads": cfg[1], "mask": cfg[2], "tsan_reports": len(reps),
                    "digests_equal": a == b, "secs": round(conc["t"], 2)})
    # ---- known findings ----------------------------------------------------------------------------------------
    descr = {F_KIDOK: "DOMDocumentImpl::isKidOK fills its function-local table kidOK[] on first use without any "
                      "synchronisation (data race between first DOM insertions of different documents)",
             F_WSFACETS: "TraverseSchema::getElementAttValue sets bInitialized=true BEFORE filling wsFacets[] and without "
                         "synchronisation (data race; a second schema-loading thread can read an unfilled table)",
             F_CASEI: "shared RangeTokens of RangeTokenMap carry lazily built state: RangeToken::getCaseInsensitiveToken caches a "
                      "regex-PRIVATE case-insensitive twin inside the shared token (option i on \\s \\w \\d \\i \\c, block escapes, "
                      "\\P{..}), unsynchronised and freed with that regex (data race, then use-after-free/crash in other "
                      "threads); four complement tokens (ALL, ASSIGNED, IsAlnum, IsAlpha) are created on first use",
             F_DESER: "a grammar pool serialised while LOCKED cannot be de-serialised: deserializeGrammars reads fLocked=true before "
                      "the synchronised URI pool exists and XTemplateSerializer::loadObject dereferences the null pool (SIGSEGV)",
             F_VALREGEX: "the RegularExpression of a pattern facet in a shared DatatypeValidator (built-in registry, pooled grammars) "
                         "builds the bitmaps of its range tokens lazily on first match (RangeToken::createMap), unsynchronised",
             F_LAZYCM: "a locked, shared XMLGrammarPool is not read-only: ComplexTypeInfo::getContentModel builds "
                       "fContentModel lazily inside the shared grammar when the grammar was cached without "
                       "validation+full schema checking (data race between parsers sharing the pool)"}
    static_ids = set()
    if ("DOMDocumentImpl::isKidOK", "kidOK") in racy_static:
        static_ids.add(F_KIDOK)
    if any(o == "TraverseSchema::getElementAttValue" for o, _ in racy_static):
        static_ids.add(F_WSFACETS)
    for fid in (F_KIDOK, F_WSFACETS, F_LAZYCM, F_CASEI, F_DESER, F_VALREGEX):
        hits = seen_findings.get(fid, [])
        if not hits and fid not in static_ids:
            continue
        how = []
        if hits:
            how.append("ThreadSanitizer: %d report(s), e.g. `%s`" % (len(hits), hits[0][0]))
        if fid in static_ids:
            how.append("inventory: unlocked stores outside Initialize (T17_inventory_racy_confirmed)")
        if ctx.find_known(fid):
            ctx.known_finding(fid, descr[fid] + " [" + "; ".join(how) + "]")
        else:
            ctx.violation(fid, {"request": hits[0][0] if hits else None, "what": descr[fid], "evidence": how,
                                "reports": [h[1] for h in hits[:3]]}, no_input=not hits)
    # ---- a failed obligation: the exploration above is the search for a concrete failing run -------------------
    if proof_broken and not ctx.violations:
        ctx.violation("obligation", {"what": "Coq obligation no longer checks (inventory vs committed classification, or a "
                                             "theorem) and the exploration found no failing run", "failed": failed,
                                     "output": out[-3000:]}, no_input=True)
    ctx.coverage["traces_validated_against_impl"] = len(jobs)
    ctx.coverage["input_distribution"] = kinds
    ctx.coverage["exploration"] = {
        "label": "EXPLORATION (ThreadSanitizer runs; finds races, cannot prove their absence)",
        "processes": 2 * len(jobs), "configurations": len(jobs), "tsan_reports_total": nrep,
        "reports_attributed_to_known_findings": {k: len(v) for k, v in seen_findings.items()},
        "unattributed_distinct_reports": len(distinct_reports), "threads": [2, 4, 8, 16],
        "schedule_perturbation": "wrapper XMLMutexMgr installed through the public XMLPlatformUtils::fgMutexMgr: seeded "
                                 "sched_yield / usleep around every lock and unlock (levels 0,1,2)",
        "suppressions": "none", "locale": LOCALE,
        "icu_sentinel": "ICU is not TSan-instrumented: the harness interposes ucnv_fromUChars/toUChars/fromUnicode/toUnicode/"
                        "setFromUCallBack (executable linked -rdynamic) and performs an instrumented write to a per-converter "
                        "shadow word before forwarding, so unsynchronised use of one UConverter is reported by TSan"}
    ctx.coverage["rule"] = ("one evaluation = one configuration (seed, N threads, workload mask, perturbation level, "
                            "iterations) run twice in fresh processes (sequential reference + concurrent under TSan); "
                            "non-trivial = at least 4 threads or at least one TSan report; distinct by configuration and "
                            "reference digests")
    ctx.coverage["exhaustive"] = False
    ctx.note("inventory %d symbols / %d sites; exploration %d configurations, %d TSan reports (%d unattributed kinds), %.1fs"
             % (nsym, len(inv["sites"]), len(jobs), nrep, len(distinct_reports), time.time() - t0))
