"""C09 -- Schema datatypes: lexical, value-space, facet and canonical-form correctness.
Theorems: coq/theories/C09/Properties_C09.v (models Model09*.v follow XMLBigDecimal / Base64 / HexBin / XMLDateTime ...).
Correspondence: bin/xh_C09 (XSValue, DatatypeValidator, in-parse validation against generated schemas) vs bin/xm_C09
(extracted models) on the same request lines; the oracle is the extracted *Spec* (requests `spec_*` of xm_C09);
order axioms are checked on the implementation's own answers."""
import json
import os
import subprocess
import sys
import time

import vcommon as V

sys.path.insert(0, os.path.join(V.VERIF, "gen"))
sys.path.insert(0, os.path.join(V.VERIF, "translator"))
import C09_gen as G  # noqa
import c09_tables as TT  # noqa


def run_bin(binpath, lines, timeout=3000):
    p = subprocess.run([binpath], input=("\n".join(lines) + "\n").encode(), stdout=subprocess.PIPE,
                       stderr=subprocess.PIPE, timeout=timeout)
    out = p.stdout.decode("ascii", "replace").splitlines()
    return p.returncode, out, p.stderr.decode("utf-8", "replace")


# witnesses of the findings seen by reading (DESIGN.md section 5); replayed first on every run.  Each entry:
# id -> (requests, answer that shows the defect, model switch name, what)
WITNESS = {
    "F10": (["xsv decimal " + G.hx("."), "xsv decimal " + G.hx("-."), "xsv decimal " + G.hx("+."),
             "pe decimal " + G.hx(".")], ["1", "1", "1", "valid"], "f10",
            "xs:decimal accepts a literal without any digit ('.', '-.', '+.') as 0, through XSValue::validate and "
            "through in-parse validation (XMLBigDecimal::parseDecimal)"),
    "F11": (["xsv dateTime " + G.hx("2000-01-01T00:00:60"), "pe dateTime " + G.hx("2000-01-01T00:00:60")], ["1", "valid"], "f11",
            "xs:dateTime accepts seconds = 60 (XMLDateTime::validateDateTime tests Second > 60); Part 2 section 3.2.7 "
            "does not allow leap seconds"),
    "F29": (["xsv dateTime " + G.hx("2000-01-01T00:00:00.Z"), "pe dateTime " + G.hx("2000-01-01T00:00:00.+01:00")], ["1", "valid"], "f29",
            "xs:dateTime accepts a decimal point with no fraction digit when a time zone follows ('00:00:00.Z'): "
            "XMLDateTime::getTime only tests that something follows the '.', then parseMiliSecond over an empty range"),
    "F30": (["cmp dateTime %s %s" % (G.hx("2000-01-01T12:00:00"), G.hx("2000-01-01T12:00:00+14:00"))], ["0"], "f30",
            "DatatypeValidator::compare on xs:dateTime returns EQUAL (0) for an unzoned and a zoned value that are exactly "
            "14 hours apart; by Part 2 section 3.2.7.4 such a pair is indeterminate, never equal"),
    "F31": (["cmp dateTime %s %s" % (G.hx("2000-01-01T24:00:00"), G.hx("2000-01-02T00:00:00")),
             "xsc dateTime " + G.hx("2000-01-01T24:00:00")], ["-1", "ok " + G.hx("2000-01-01T00:00:00")], "f31",
            "xs:dateTime hour 24 is not carried into the following day: 2000-01-01T24:00:00 compares less than "
            "2000-01-02T00:00:00 (the same instant) and its canonical form is 2000-01-01T00:00:00 (a day earlier)"),
    "F32": (["xsc dateTime " + G.hx("0001-01-01T05:00:00+14:00")], ["ok " + G.hx("0000-12-31T15:00:00Z")], "f32",
            "time-zone normalisation of a dateTime in year 0001 steps into year 0000, which does not exist in XML Schema 1.0: "
            "the canonical form of 0001-01-01T05:00:00+14:00 is 0000-12-31T15:00:00Z, which is not in the lexical space "
            "(XSValue rejects it) -- XMLDateTime::normalize decrements the year without skipping 0"),
    "F33": (["xsv double " + G.hx("-."), "pe double " + G.hx("+."), "xsv float " + G.hx("-.")], ["1", "valid", "1"], "f33",
            "xs:double / xs:float accept '+.' and '-.' (a sign followed by a lone decimal point): "
            "XMLAbstractDoubleFloat::normalizeZero rewrites every sign? [0.]* string with at most one '.' to a zero without "
            "requiring a digit"),
    "F34": (["cmp double %s %s" % (G.hx("1"), G.hx("NaN"))], ["-2"], "f34",
            "compare on xs:double with NaN as the right operand and a finite left operand returns -2 "
            "(XMLAbstractDoubleFloat::compareValues computes (-1) * compareSpecial = -1 * INDETERMINATE), a value outside "
            "{-1, 0, 1, INDETERMINATE = 2}; the pair is incomparable"),
    "F35": (["xsv duration " + G.hx("PY"), "pe duration " + G.hx("PT.5S")], ["1", "valid"], "f35",
            "xs:duration accepts a designator without a number ('PY', 'P1YM', 'PTS', 'PD') and seconds without integer "
            "digits ('PT.5S'): XMLDateTime::parseDuration calls parseInt on an empty range, which yields 0"),
    "F36": (["cmp duration %s %s" % (G.hx("PT0.5S"), G.hx("PT0.6S"))], ["0"], "f36",
            "compare on xs:duration ignores fractional seconds (fMilliSecond is neither added by addDuration nor compared "
            "because fHasTime is false): PT0.5S and PT0.6S compare EQUAL"),
    "F37": (["cmp duration %s %s" % (G.hx("-P1M"), G.hx("-P30D"))], ["0"], "f37",
            "compare on negative xs:durations: the EQUAL shortcut runs compareOrder, whose normalize() treats the sign flag "
            "(UTC_NEG) as a time zone and rolls the negative month/day fields into calendar fields, so -P1M and -P30D "
            "(incomparable by 3.2.6.2) compare EQUAL"),
    "F38": (["pe U(int+boolean)[enum=1|false] " + G.hx("true"), "pe L(U(int+boolean))[enum=1~true] " + G.hx("1 1")], ["valid", "valid"], "f38",
            "value equality on union types ignores the member type: UnionDatatypeValidator::compare and its enumeration "
            "check accept a pair as equal when ANY member type validates both literals and compares them equal, so the "
            "boolean literal 'true' matches the enumerated integer 1 (and 0 matches false) for a union of int and boolean"),
    "F39": (["xsc dateTime " + G.hx("-0012-01-01T00:00:00")], ["ok " + G.hx("-12-01-01T00:00:00")], "f39",
            "canonical representation of a negative year: XMLDateTime::fillYearString pads with zeros from the text length "
            "INCLUDING the sign, so -0012 is written '-12' (not a legal year) and a one-digit negative year writes one "
            "character more than the caller allocated (getDateCanonicalRepresentation: heap overflow by one XMLCh, seen "
            "as `free(): invalid next size` on `can date -0001-12-31Z`)"),
    "F40": (["xsc double " + G.hx("0.001"), "can float " + G.hx("0.01")],
            ["ok " + G.hx("0.01E-1"), "ok " + G.hx("0.1E-1")], "f40",
            "canonical representation of xs:double / xs:float values below 0.1 written with zeros after the decimal point: "
            "XMLAbstractDoubleFloat::getCanonicalRepresentation takes manBuf[0] as the single non-zero digit, but "
            "XMLBigDecimal::parseDecimal keeps the zeros between the point and the first significant digit, so 0.001 -> "
            "'0.01E-1' (expected 1.0E-3): not canonical (3.2.4.2) and not idempotent (0.01E-1 -> 0.1E-2)"),
    "F12": (["xsv base64Binary " + G.hx("\u0141AAA"), "pe base64Binary " + G.hx("\u0141AAA"),
             "xsv base64Binary " + G.hx("AAAA\u0100!!")], ["1", "valid", "1"], "f12",
            "base64Binary narrows UTF-16 code units to bytes: a character >= U+0100 whose low byte is a base64 letter is "
            "accepted (U+0141 'AAA' validates), and one whose low byte is 0 silently ends the data (Base64::decodeToXMLByte / "
            "getCanonicalRepresentation, XMLCh overloads)"),
    "F26": (["xsv base64Binary " + G.hx("\u00ffAAA"), "pe base64Binary " + G.hx("\u00ffAAA")], ["1", "valid"], "f26",
            "base64Binary accepts U+00FF as a data character: base64Inverse has BASELENGTH = 255 entries, so byte 0xFF is "
            "looked up one element past the table (out-of-bounds read whose result decides validity)"),
    "F27": (["dv hexBinary[enum=0a] " + G.hx("0A")], ["0 VALUE_NotIn_Enumeration"], "f27",
            "enumeration of hexBinary is compared on the lexical strings: the value 0A is rejected by enumeration {0a} "
            "although both literals denote the same octet"),
    "F28": (["can hexBinary " + G.hx("0a"), "can base64Binary " + G.hx("AA AA")], ["ok " + G.hx("0a"), "ok " + G.hx("AA AA")], "f28",
            "DatatypeValidator::getCanonicalRepresentation of hexBinary/base64Binary returns the raw literal (lower-case "
            "hex digits, embedded spaces), not the canonical form that XSValue::getCanonicalRepresentation computes"),
}


def verdict_of(op, ans):
    """valid?/None from an answer line of the harness/model"""
    if op in ("xsv", "dv"):
        return ans.split()[0] == "1" if ans[:1] in "01" else None
    if op in ("pe", "pa"):
        return {"valid": True, "invalid": False}.get(ans)
    return None


def run(ctx):
    t0 = time.time()
    ctx.coverage["trusted_base"] = list(V.GLOBAL_TRUSTED_BASE) + [
        "modelled rather than verified: the regular-expression engine behind the pattern facet (C11), float/double "
        "conversion (host strtod), anyURI/QName/NOTATION/ID/IDREF/ENTITY kernels, schema component construction in "
        "TraverseSchema (the harness builds the derived types by loading generated schemas, so facet parsing and "
        "inheritance are exercised, but only their effect on instance validity is compared)"]
    ctx.assumptions = ["strings are sequences of UTF-16 code units; exceptions are modelled as an error enum whose "
                       "XMLExcepts code name is compared",
                       "the generated derived types are valid restrictions (a schema the library rejects is skipped)",
                       "dateTime: years of at most 9 digits (the implementation keeps years in a C int; longer years wrap "
                       "and are outside the claim); leap years computed on the numeric year, also for negative years"]
    ctx.build_lib()
    try:
        ctx.coverage["translator"] = TT.generate()   # Base64/HexBin decoding tables -> Gen/GenC09.v (every run)
    except Exception as e:
        ctx.note("translator c09_tables failed: %r" % (e,))
        ctx.violation("translator", {"what": "translator/c09_tables.py can no longer read the decoding tables of "
                                             "Base64.cpp / HexBin.cpp", "error": repr(e)}, no_input=True)
    ok, out, failed = ctx.prove(["Base", "Gen", "C09"],
                                ["theories/C09/Properties_C09.vo", "theories/C09/Extract_C09.vo"],
                                props_file="theories/C09/Properties_C09.v")
    proof_broken = not ok
    if proof_broken:
        ctx.note("proof obligations failed: %s" % failed)
        ctx.note(out[-1500:])
    have_model = os.path.exists(os.path.join(V.VERIF, "ocaml", "C09", "gen_c09.ml"))
    xm = ctx.ocaml("C09", ["gen_c09"]) if have_model else None
    # VERIF_C09_XH: run against a given harness binary (used to try a patched/mutated translation unit quickly by
    # linking it into the harness in front of the shared library)
    xh = os.environ.get("VERIF_C09_XH") or ctx.harness("C09")
    if xm is None:
        ctx.violation("model-missing", {"what": "extraction produced no model"}, no_input=True)
        return

    # ---- 1. witnesses of the listed findings: decide which behaviour the tree has (defect switches of the model)
    mode = {}
    wlines, wkeys = [], []
    for fid, (reqs, bad, sw, what) in sorted(WITNESS.items()):
        for r, b in zip(reqs, bad):
            wlines.append(r); wkeys.append((fid, b))
    rc, wans, werr = run_bin(xh, wlines)
    if rc != 0 or len(wans) != len(wlines):
        ctx.violation("harness-crash", {"what": "harness crashed on the witness requests", "stderr": werr[-2000:],
                                        "request": wlines[len(wans)] if len(wans) < len(wlines) else None})
        return
    present = {}
    for (fid, b), r, a in zip(wkeys, wlines, wans):
        present.setdefault(fid, []).append((r, a, a == b))
    for fid, (reqs, bad, sw, what) in sorted(WITNESS.items()):
        hits = [x for x in present[fid] if x[2]]
        mode[sw] = 0 if hits else 1           # 0 = faithful (defect present), 1 = repaired behaviour
        if hits:
            if ctx.find_known(fid):
                ctx.known_finding(fid, "%s (witness `%s` -> %s)" % (what, hits[0][0], hits[0][1]))
            else:
                ctx.violation(fid, {"request": hits[0][0], "impl": hits[0][1], "what": what,
                                    "spec": "violates the Spec of the type (T09_*_refuted)"})
    setlines = ["set %s %d" % (sw, v) for sw, v in sorted(mode.items())]
    ctx.coverage["defect_switches"] = mode

    # ---- 2. cases
    if ctx.replay:
        r = json.load(open(ctx.replay))
        cases = [("replay", q) for q in (r.get("requests") or [r["request"]])]
        triples = []
    else:
        cases, pools = G.gen_cases(ctx.rng, ctx.tier)
    if mode.get("f39") == 0 and not ctx.replay:
        # while finding F39 is present, canonical forms of negative-year DATES overflow a heap buffer in the library:
        # those requests would corrupt the harness process, they are left out (stated in the evidence)
        before = len(cases)
        cases = [c for c in cases if not G.f39_overflow(c[1])]
        ctx.coverage["left_out_because_of_F39_heap_overflow"] = before - len(cases)
    lines = [c[1] for c in cases]
    rc1, impl, err1 = run_bin(xh, setlines + lines)
    rc2, model, err2 = run_bin(xm, setlines + lines)
    impl, model = impl[len(setlines):], model[len(setlines):]
    if rc1 != 0 or len(impl) != len(lines):
        ctx.violation("harness-crash", {"what": "implementation harness crashed or lost lines", "rc": rc1,
                                        "stderr": err1[-2000:], "answered": len(impl), "asked": len(lines),
                                        "request": lines[len(impl)] if len(impl) < len(lines) else None})
        return
    if rc2 != 0 or len(model) != len(lines):
        ctx.violation("model-crash", {"what": "model driver crashed", "stderr": err2[-2000:],
                                      "request": lines[len(model)] if len(model) < len(lines) else None}, no_input=True)
        return

    # ---- 3. Spec oracle on every case that has one
    oracle_req = [G.oracle_request(req) for _, req in cases]
    oidx = [k for k, o in enumerate(oracle_req) if o]
    rc3, oans, err3 = run_bin(xm, [oracle_req[k] for k in oidx])
    if rc3 != 0 or len(oans) != len(oidx):
        ctx.violation("model-crash", {"what": "spec oracle crashed", "stderr": err3[-2000:]}, no_input=True)
        return
    spec = dict(zip(oidx, oans))

    kinds, answers, impl_only = {}, {}, {}
    divergences, skipped = [], 0
    attributed = {}
    nviol = 0
    for k, ((kind, req), i, m) in enumerate(zip(cases, impl, model)):
        if i.startswith("schema-") or i in ("skip", "bad-spec", "no-validator"):
            skipped += 1
            if skipped <= 3:
                ctx.note("skipped (generator made something the library does not load): %s -> %s" % (req, i))
            continue
        ctx.count()
        kinds[kind] = kinds.get(kind, 0) + 1
        a0 = i.split()[0] if i else ""
        answers[a0] = answers.get(a0, 0) + 1
        if G.nontrivial(req, i):
            ctx.distinct(req)
        sv = G.spec_judgement(req, i, spec.get(k))       # 'ok' | 'violates' | None (no oracle for this request)
        if i != m and m != "unmodelled":
            divergences.append((kind, req, i, m, sv))
        if m == "unmodelled":
            impl_only[kind] = impl_only.get(kind, 0) + 1
        if sv == "violates":
            fid = G.attribute(req, mode)
            if (i == m or m == "unmodelled") and fid and mode.get(WITNESS[fid][2]) == 0 and ctx.find_known(fid):
                attributed[fid] = attributed.get(fid, 0) + 1
            else:
                nviol += 1
                if nviol <= 5:
                    ctx.violation("divergence" if i != m else "spec",
                                  {"request": req, "impl": i, "model": m, "spec": spec.get(k), "kind": kind,
                                   "what": "the implementation's answer violates the Spec (%s)" %
                                           ("and differs from the model" if i != m else "the model mirrors it; not a listed finding")})
    for fid, n in attributed.items():
        ctx.note("%d generated cases attributed to %s" % (n, fid))
    ctx.coverage["attributed_to_known_findings"] = attributed

    # ---- 3b. follow-up requests built from the implementation's answers (canonical forms judged by the Spec,
    #          idempotence asked from the implementation itself)
    fu = []
    for k, ((kind, req), i) in enumerate(zip(cases, impl)):
        fu += G.followups(req, i, spec.get(k))
    for target, binp in (("spec", xm), ("impl", xh)):
        sel = [f for f in fu if f[0] == target]
        if not sel:
            continue
        rcf, fans, errf = run_bin(binp, setlines + [f[1] for f in sel])
        fans = fans[len(setlines):]
        if rcf != 0 or len(fans) != len(sel):
            ctx.violation("harness-crash", {"what": "follow-up run crashed (%s)" % target, "stderr": errf[-2000:]},
                          no_input=(target == "spec"))
            return
        for (t, q, want, what, orig), a in zip(sel, fans):
            ctx.count()
            if a != want:
                fid = G.attribute(orig, mode)
                if fid and mode.get(WITNESS[fid][2]) == 0 and ctx.find_known(fid):
                    attributed[fid] = attributed.get(fid, 0) + 1
                    continue
                nviol += 1
                if nviol <= 8:
                    ctx.violation("canonical", {"request": orig, "requests": [orig, q], "followup": q, "answer": a,
                                                "expected": want, "what": what})
    ctx.coverage["followups"] = len(fu)
    # model and implementation differ although neither the Spec oracle nor the follow-ups found a failing input
    unexplained = [d for d in divergences if d[4] != "violates"]
    if unexplained and not nviol:
        kind, req, i, m, sv = unexplained[0]
        ctx.violation("correspondence", {"what": "model and implementation differ but the Spec oracle found no failing "
                                         "input: correspondence xh_C09~xm_C09 no longer checks", "request": req,
                                         "impl": i, "model": m, "count": len(unexplained)}, no_input=True)

    # ---- 4. cross-API agreement and order axioms on the implementation's own answers
    if not ctx.replay:
        byreq = {req: i for (_, req), i in zip(cases, impl)}
        for what, reqs, detail in G.consistency(byreq, pools):
            if what.startswith("KNOWN:"):
                fid = what[6:]
                text = ("DatatypeValidator::compare on xs:dateTime returns EQUAL (0) for an unzoned and a zoned value that "
                        "are exactly 14 hours apart; by Part 2 section 3.2.7.4 such a pair is indeterminate, never equal "
                        "(witness `%s` -> 0; %s)" % (reqs[0], detail))
                if ctx.find_known(fid):
                    ctx.known_finding(fid, text)
                else:
                    ctx.violation(fid, {"request": reqs[0], "requests": reqs, "impl": [byreq.get(r) for r in reqs], "what": text})
                continue
            nviol += 1
            if nviol <= 8:
                ctx.violation("axiom", {"what": what, "requests": reqs, "impl": [byreq.get(r) for r in reqs],
                                        "detail": detail})
        ctx.coverage["order_axioms"] = G.last_axiom_stats

    ctx.coverage["traces_validated_against_impl"] = len(lines) - skipped
    ctx.coverage["spec_oracle_checked"] = len(oidx)
    ctx.coverage["implementation_only_requests"] = impl_only
    ctx.coverage["input_distribution"] = {"kinds": kinds, "answers": answers, "skipped": skipped}
    for k in (len(cases) // 7, len(cases) // 3, len(cases) // 2, len(cases) - 1):
        if 0 <= k < len(cases):
            ctx.sample({"kind": cases[k][0], "request": cases[k][1], "impl": impl[k], "model": model[k],
                        "spec": spec.get(k)})
    if proof_broken and not ctx.violations:
        ctx.violation("obligation", {"what": "Coq obligation no longer checks and no failing input was found by the "
                                     "correspondence sweeps", "failed": failed, "output": out[-3000:]}, no_input=True)
    elif proof_broken:
        ctx.note("proof obligation failed; a concrete failing input was found by the correspondence")
    ctx.coverage["rule"] = G.RULE
    ctx.note("correspondence: %d cases, %d divergences, %d spec-checked, %.1fs" % (
        len(lines), len(divergences), len(oidx), time.time() - t0))
