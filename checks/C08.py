"""C08 -- XML Schema structure validation accepts exactly the schema-valid instances.
Theorems: coq/theories/C08/Properties_C08.v (Spec08.v, Model08.v).
Correspondence: bin/xh_C08 (real library: schema loaded with loadGrammar, instances parsed with IGXMLScanner and
SGXMLScanner, DOM and SAX2, schema-full-checking off and on) vs bin/xm_C08 (extracted model + extracted Spec deciders)
on schemas rendered from a typed schema model whose governing particle is known to the generator."""
import json
import os
import re
import subprocess
import sys
import time

import vcommon as V

sys.path.insert(0, os.path.join(V.VERIF, "gen"))
import C08_gen as G  # noqa
import C08_gen2 as G2  # noqa
import C08_gen3 as G3  # noqa


FIXED_NOW = set()      # ids of findings with status "fixed" (or assumed fixed through C08_ASSUME_FIXED)


def strip_max0(p):
    """3.9.2: a particle with minOccurs = maxOccurs = 0 corresponds to no component at all"""
    if p[0] in ("S", "C"):
        return (p[0], p[1], p[2], [strip_max0(c) for c in p[3] if not (c[1] == 0 and c[2] == 0)], p[4])
    return p


def enum_codes(path):
    t = open(path).read()
    body = t[t.index("enum Codes"):]
    body = body[body.index("{") + 1:body.index("}")]
    names, v = {}, 0
    for item in body.split(","):
        item = item.strip()
        m = re.match(r"(\w+)\s*(?:=\s*(\d+))?", item)
        if not m:
            continue
        if m.group(2) is not None:
            v = int(m.group(2))
        names[v] = m.group(1)
        v += 1
    return names


def code_names():
    d = os.path.join(V.REPO, "src", "xercesc", "framework")
    return {"V": enum_codes(os.path.join(d, "XMLValidityCodes.hpp")),
            "E": enum_codes(os.path.join(d, "XMLErrorCodes.hpp"))}


def run_bin(binpath, lines, timeout=3000):
    p = subprocess.run([binpath], input=("\n".join(lines) + "\n").encode(), stdout=subprocess.PIPE,
                       stderr=subprocess.PIPE, timeout=timeout)
    return p.returncode, p.stdout.decode("ascii", "replace").splitlines(), p.stderr.decode("utf-8", "replace")


# ------------------------------------------------------------------------------------------------
# case construction.  A case = dict(kind, request, n, expect=[...per instance...], info=...)
# ------------------------------------------------------------------------------------------------
def strict_undeclared(p, declared):
    """(namespace constraint, pc) of the strict wildcards of p"""
    return [l for l in G.leaves(p) if l[0] == "W" and l[5] == "strict"]


def cm_case(kind, p, words, rng, named_type=None, mixed=False, info=None):
    """content-model case: root element r whose type has content particle p; words = child name sequences"""
    sc = G.Schema()
    sc.uses_u = True
    sc.globals_t.add(5)          # t:e is always a declared global (foreign symbol / strict wildcard target)
    body = sc.render_particle(p)
    mx = ' mixed="true"' if mixed else ""
    if named_type:
        root = '<xs:element name="r" type="t:T"/>'
        types = '<xs:complexType name="T"%s>%s</xs:complexType>' % (mx, body)
    else:
        root = '<xs:element name="r"><xs:complexType%s>%s</xs:complexType></xs:element>' % (mx, body)
        types = ""
    docs = [("u.xsd", G.U_XSD)]
    if named_type == "include":
        # the type (and the named groups it uses) live in an included document of the same target namespace
        inc = ('<xs:schema xmlns:xs="%s" xmlns:t="urn:t" xmlns:u="urn:u" targetNamespace="urn:t" '
               'elementFormDefault="qualified"><xs:import namespace="urn:u" schemaLocation="u.xsd"/>%s%s</xs:schema>'
               % (G.XSD, types, "".join(sc.groups)))
        sc.groups = []
        doc = sc.document('<xs:include schemaLocation="inc.xsd"/>' + root, "").replace(
            '<xs:import namespace="urn:u" schemaLocation="u.xsd"/><xs:include schemaLocation="inc.xsd"/>',
            '<xs:include schemaLocation="inc.xsd"/><xs:import namespace="urn:u" schemaLocation="u.xsd"/>')
        docs.append(("inc.xsd", inc))
    else:
        doc = sc.document(root, types)
    declared = {(2, l) for l in sc.globals_t} | {(3, 1), (3, 2), (3, 6), (3, 7)}
    stricts = strict_undeclared(p, declared)
    insts, pen = [], []
    for w in words:
        insts.append(G.instance(w, text_between=("x y" if mixed else None)))
        # a child matched by a strict wildcard must have a global declaration
        names = {l[3] for l in G.leaves(p) if l[0] == "E"}
        bad = any(q not in declared and q not in names and any(G.wild_allows(s[3], q[0]) for s in stricts) for q in w)
        pen.append(bad)
    # once C08-max0 is repaired, the model and the Spec read the particle as the schema component it denotes
    mp = strip_max0(p) if "C08-max0" in FIXED_NOW else p
    model = "cm P %s ; %s" % (G.model_particle(mp), " ; ".join(",".join(G.qtext(q) for q in w) or "-" for w in words))
    req = G.request(model, [("main.xsd", doc)] + docs, "main.xsd", insts)
    return {"kind": kind, "request": req, "n": len(words), "strict_penalty": pen, "particle": p, "words": words,
            "info": info or {}}


def all_case(kind, opt, members, words, mixed=False):
    """members: list of ((uri,local), required)"""
    sc = G.Schema()
    sc.uses_u = True
    sc.globals_t.add(5)
    inner = "".join(sc.render_particle(("E", 1 if r else 0, 1, q, "local")) for q, r in members)
    body = "<xs:all%s>%s</xs:all>" % (' minOccurs="0"' if opt else "", inner)
    mx = ' mixed="true"' if mixed else ""
    root = '<xs:element name="r"><xs:complexType%s>%s</xs:complexType></xs:element>' % (mx, body)
    doc = sc.document(root, "")
    insts = [G.instance(w, text_between=("text" if mixed else None)) for w in words]
    if mixed:
        insts = [G.instance(w, text_between="text") if w else G.instance([], text_between=None).replace("></t:r>", ">text</t:r>")
                 for w in words]
    model = "cm A %d %d %s ; %s" % (1 if opt else 0, len(members),
                                    " ".join("%d %d %d" % (q[0], q[1], 1 if r else 0) for q, r in members),
                                    " ; ".join(",".join(G.qtext(q) for q in w) or "-" for w in words))
    req = G.request(model, [("main.xsd", doc), ("u.xsd", G.U_XSD)], "main.xsd", insts)
    return {"kind": kind, "request": req, "n": len(words), "strict_penalty": [False] * len(words), "words": words,
            "info": {"all": True}}


def wc_case(tns_text, attr_model, attr_text, pc="skip"):
    """one wildcard with the given namespace attribute in a schema with (tns urn:t); one child per namespace"""
    uris = [1, 2, 3, 4]
    kids = [(1, 8), (2, 5), (3, 6), (4, 8)]
    sc = G.Schema()
    sc.uses_u = True
    sc.globals_t.add(5)
    ns = "" if attr_text is None else ' namespace="%s"' % attr_text
    body = '<xs:sequence><xs:any%s processContents="%s"/></xs:sequence>' % (ns, pc)
    doc = sc.document('<xs:element name="r"><xs:complexType>%s</xs:complexType></xs:element>' % body, "")
    insts = [G.instance([q]) for q in kids]
    model = "wc 2 %s %s" % (attr_model, " ".join(str(u) for u in uris))
    req = G.request(model, [("main.xsd", doc), ("u.xsd", G.U_XSD)], "main.xsd", insts)
    return {"kind": "wildcard-table", "request": req, "n": len(uris), "strict_penalty": [False] * 4, "info": {"wc": attr_text}}


def schema_case(kind, doc, must_fail_full, must_fail_always, info=None):
    """an invalid (or valid) schema document: expectation on s0/s1 only"""
    req = G.request("sch", [("main.xsd", doc), ("u.xsd", G.U_XSD)], "main.xsd", [])
    return {"kind": kind, "request": req, "n": 0, "schema_expect": (must_fail_always, must_fail_full), "info": info or {}}



ATT_NAME = {(1, 1): "a", (1, 2): "b", (1, 3): "c", (3, 9): "u:ga", (4, 9): "v:zz", (2, 9): "t:tt"}
for _i in range(1, 231):
    ATT_NAME[(1, 100 + _i)] = "p%d" % _i
ATT_BY_TEXT = {("|a"): (1, 1), "|b": (1, 2), "|c": (1, 3), "urn:u|ga": (3, 9), "urn:v|zz": (4, 9), "urn:t|tt": (2, 9)}


def at_case(kind, uses, wild, sets, via_group=False):
    """uses: list of (qname, use 'o'|'r'|'p', vc 'n'|'d'|'f', value); wild: None | (constraint, nsattr text, pc)
    sets: list of attribute sets [(qname, value)]"""
    body = ""
    for q, use, vc, val in uses:
        u = {"o": "optional", "r": "required", "p": "prohibited"}[use]
        v = "" if vc == "n" else (' default="%s"' % val if vc == "d" else ' fixed="%s"' % val)
        if q[0] == 1:
            body += '<xs:attribute name="%s" type="xs:string" use="%s"%s/>' % (ATT_NAME[q], u, v)
        else:
            body += '<xs:attribute ref="%s" use="%s"%s/>' % (ATT_NAME[q], u, v)
    wm = "none"
    if wild:
        c, txt, pc = wild
        body += '<xs:anyAttribute namespace="%s" processContents="%s"/>' % (txt, pc)
        wm = ("any" if c[0] == "any" else ("not %d" % c[1] if c[0] == "not" else "set %d %s" % (len(c[1]), " ".join(map(str, c[1]))))) + " " + pc
    sc = G.Schema()
    sc.uses_u = True
    if via_group:
        sc.extra.append('<xs:attributeGroup name="ag">%s</xs:attributeGroup>' % body)
        body = '<xs:attributeGroup ref="t:ag"/>'
    doc = sc.document('<xs:element name="r"><xs:complexType>%s</xs:complexType></xs:element>' % body, "")
    insts = [G.instance([], attrs="".join(' %s="%s"' % (ATT_NAME[q], v) for q, v in st)) for st in sets]
    model = "at %d %s %s ; %s" % (len(uses), " ".join("%d %d %s %s %s" % (q[0], q[1], use, vc, G.hx(val)) for q, use, vc, val in uses),
                                  wm + " 3:9", " ; ".join(",".join("%d:%d=%s" % (q[0], q[1], G.hx(v)) for q, v in st) or "-" for st in sets))
    req = G.request(model, [("main.xsd", doc), ("u.xsd", G.U_XSD)], "main.xsd", insts)
    return {"kind": kind, "request": req, "n": len(sets), "attr": True, "strict_penalty": [False] * len(sets),
            "info": {"uses": uses, "wild": wild}}


for _i in range(1, 231):
    ATT_BY_TEXT["|p%d" % _i] = (1, 100 + _i)


def bigattr_cases(rng, thorough):
    """types with 65..220 attribute declarations, several documents parsed one after the other by the same parser
    objects with the cached grammar (the harness keeps the 8 parsers for all instances of a request line): per-attribute
    'seen' bookkeeping of the scanners (fUIntPool rows beyond the first 64 ids) must not leak from one document to the
    next: required / default / duplicate verdicts vs the Spec"""
    cases = []
    for n in ([66, 130, 200] if not thorough else [65, 66, 100, 129, 130, 200, 220]):
        req_at = sorted({1, 63, 64, 65, 66, n - 1, n, rng.randrange(min(67, n), n + 1)})
        dfl_at = sorted({2, 67 if n >= 67 else 3, n - 2} - set(req_at))
        uses = []
        for i in range(1, n + 1):
            if i in req_at:
                uses.append(((1, 100 + i), "r", "n", ""))
            elif i in dfl_at:
                uses.append(((1, 100 + i), "o", "d", "F"))
            else:
                uses.append(((1, 100 + i), "o", "n", ""))
        full = [((1, 100 + i), "v") for i in range(1, n + 1) if i in req_at or i in dfl_at or i % 7 == 0 or i > n - 4]
        sets = [full]
        for drop in [r for r in req_at if r >= 64][:3]:
            sets.append([x for x in full if x[0] != (1, 100 + drop)])
            sets.append(full)
        sets.append([x for x in full if x[0][1] - 100 in req_at])
        sets.append([x for x in full if x[0][1] - 100 not in dfl_at])
        sets.append([x for x in full if x[0] != (1, 100 + req_at[-1])])
        sets.append([])
        sets.append(full)
        c = at_case("attribute-uses-many-declarations", uses, None, sets)
        c["info"] = {"uses": [], "wild": None, "n_declarations": n}
        cases.append(c)
    return cases


def feature_case(kind, doc, model_particle_text, items, info=None):
    """hand-built schema; items = list of (instance text, child names for the model, forced_invalid)"""
    model = "cm P %s ; %s" % (model_particle_text, " ; ".join(",".join(G.qtext(q) for q in w) or "-" for _, w, _ in items))
    req = G.request(model, [("main.xsd", doc), ("u.xsd", G.U_XSD)], "main.xsd", [t for t, _, _ in items])
    return {"kind": kind, "request": req, "n": len(items), "strict_penalty": [f for _, _, f in items],
            "words": [w for _, w, _ in items], "info": info or {}}

def same_map_entry(l1, l2):
    """do two leaves get the same DFAContentModel element-map entry (buildDFA: equal leaf type, URI and local part)?
    elements: same qualified name; wildcards: same kind incl. processContents and same namespace"""
    if l1[0] != l2[0]:
        return False
    if l1[0] == "E":
        return tuple(l1[3]) == tuple(l2[3])
    c1, c2 = l1[3], l2[3]
    if l1[5] != l2[5] or c1[0] != c2[0]:
        return False
    if c1[0] == "any":
        return True
    if c1[0] == "not":
        return c1[1] == c2[1]
    return bool(set(c1[1]) & set(c2[1]))


def shared_name_counting(p):
    """two leaves with the same element-map entry (same element name / same wildcard kind and namespace), at least one of them with an occurrence
    range that is not one of 1..1, 0..1, 0..inf, 1..inf (so that the compact counting form may be used).  Consulted only
    when the runs with schema-full-checking off disagree with the runs with it on and the latter satisfy the Spec."""
    ls = G.leaves(p)
    plain = {(1, 1), (0, 1), (0, -1), (1, -1)}
    for i in range(len(ls)):
        for j in range(i + 1, len(ls)):
            same = same_map_entry(ls[i], ls[j])
            if same and ((ls[i][1], ls[i][2]) not in plain or (ls[j][1], ls[j][2]) not in plain):
                return True
    return False


# kinds whose model particle is not the particle of the schema (generator-side expansion of substitution groups,
# xsi:type / xsi:nil / content-kind expectations): the DFA model is not compared there
NO_DFA_KINDS_PREFIX = ("substitution-", "xsitype-", "xsinil-", "content-", "restriction-", "element-default")


class _NoDfa:
    def __contains__(self, k):
        return k.startswith(NO_DFA_KINDS_PREFIX)


NO_DFA_KINDS = _NoDfa()


def attderiv_finding(info, mv, sv):
    """attribution of a schema-level deviation shared by model and implementation.  By T08_attr_derivation the model
    (= checkAttDerivationOK) and the Spec can only differ when the restriction declares a prohibited attribute the base
    does not have (then the model is stricter) or when a list containing ##local is accepted under a ##other base
    wildcard (then the model is laxer)"""
    base_names = {d[0] for d in info["base"]}
    stray = any(d[1] == "p" and d[0] not in base_names for d in info["decls"])
    absent = info.get("base_wild") == "##other" and "##local" in (info.get("derived_wild") or "")
    if sv and not mv and stray:
        return "C08-attderiv-strayprohibited"
    if mv and not sv and absent:
        return "C08-wcsubset-absent"
    return None


def has_max0(p):
    if p[1] == 0 and p[2] == 0:
        return True
    return p[0] in ("S", "C") and any(has_max0(c) for c in p[3])


def empty_group(p):
    return p[0] in ("S", "C") and all(empty_group(c) for c in p[3])


def has_empty_in_choice(p):
    if p[0] == "C" and any(empty_group(c) for c in p[3]):
        return True
    return p[0] in ("S", "C") and any(has_empty_in_choice(c) for c in p[3])


def has_empty_nslist(p):
    if p[0] == "W":
        return p[3] == ("set", [])
    return p[0] in ("S", "C") and any(has_empty_nslist(c) for c in p[3])


def gen_cases(ctx):
    rng = ctx.rng
    thorough = ctx.tier == "thorough"
    cases = []
    E = lambda m, n, q, style="local": ("E", m, n, q, style)
    a, b, c, d, e = (2, 1), (2, 2), (2, 3), (2, 4), (2, 5)
    # ---- 0. witnesses of the known findings (replayed first) -------------------------------------------------
    p = ("S", 1, 1, [E(0, 0, a), E(1, 1, b)], "inline")
    cases.append(cm_case("witness-C08-max0-max0", p, [[b], [a, b], [a, a, b], []], rng))
    p = ("C", 1, 1, [E(1, 1, a), ("S", 1, 1, [], "inline")], "inline")
    cases.append(cm_case("witness-C08-emptychoice-empty-in-choice", p, [[], [a], [a, a]], rng))
    p = ("S", 1, 1, [("W", 1, 1, ("set", []), "", "skip")], "inline")
    cases.append(cm_case("witness-C08-emptyns-empty-nslist", p, [[], [e], [(4, 8)]], rng))
    p = ("S", 1, 1, [E(2, 3, a), E(1, 1, b), E(1, 2, a)], "inline")
    cases.append(cm_case("witness-counting-shared-name", p, [[a, a, b, a], [a, a, b, a, a, a], [a, a, b, a, a]], rng))
    cases.append(at_case("witness-prohibited-wildcard", [((1, 1), "p", "n", "")], (("set", [1]), "##local", "skip"),
                         [[], [((1, 1), "x")], [((1, 2), "y")]]))
    p = ("S", 1, 1, [("W", 0, 0, ("not", 2), "##other", "skip"), E(1, 1, b)], "inline")
    cases.append(cm_case("wildcard-max0-control", p, [[b], [(3, 6), b], [], [(3, 6)]], rng))
    # ---- 1. occurrence boundaries of single leaves and of small groups, exhaustive ---------------------------
    occs = G.OCCS + [(0, 4), (5, 5), (3, 5), (1, 4), (5, -1)]
    for (m, n) in occs:
        top = (m + 3) if n < 0 else n + 2
        words1 = [[a] * k for k in range(0, top + 1)]
        cases.append(cm_case("occ-leaf", ("S", 1, 1, [E(m, n, a)], "inline"), words1 + [[b], [a, b]], rng))
        cases.append(cm_case("occ-leaf-then", ("S", 1, 1, [E(m, n, a), E(1, 1, b)], "inline"),
                             [w + [b] for w in words1] + words1[:3] + [[b, a]], rng))
        cases.append(cm_case("occ-group1", ("S", m, n, [E(1, 1, a)], "inline"), words1 + [[b]], rng,
                             named_type=True))
        if top <= 5 or thorough:
            al = [a, b]
            ws = G.exhaustive(al, min(2 * top, 8 if thorough else 6), 300 if not thorough else 2000)
            cases.append(cm_case("occ-seq2", ("S", m, n, [E(1, 1, a), E(0, 1, b)], "inline"), ws, rng))
            cases.append(cm_case("occ-choice2", ("C", m, n, [E(1, 1, a), E(1, 2, b)], "group"), ws, rng))
        wild = ("W", m, n, ("not", 2), "##other", "lax")
        wk = [[(3, 6)] * k for k in range(0, top + 1)]
        cases.append(cm_case("occ-wild", ("S", 1, 1, [wild, E(0, 1, a)], "inline"), wk + [w + [a] for w in wk] + [[e]], rng))
    # ---- 1b. names used by two particles of one content model, separated so that UPA holds (counting states) -----
    oth = lambda m, n: ("W", m, n, ("not", 2), "##other", "skip")
    reps = [("S", 1, 1, [E(2, 3, a), E(1, 1, b), E(1, 2, a)], "inline"),
            ("S", 1, 1, [E(2, 2, a), E(0, 1, b), E(1, 1, c), E(1, 3, a)], "inline"),
            ("C", 1, 1, [("S", 1, 1, [E(1, 1, a), E(1, 1, b)], "inline"), ("S", 1, 1, [E(1, 1, c), E(2, 2, a)], "inline")], "inline"),
            ("S", 1, 1, [("C", 2, 4, [E(1, 1, a), E(1, 1, b)], "inline"), E(1, 1, c), E(0, 2, a)], "inline"),
            ("S", 0, 2, [E(3, 3, a), E(1, 1, b), E(0, 1, a), E(1, 1, c)], "inline"),
            ("S", 1, 1, [E(2, -1, a), E(1, 1, b), E(3, -1, a), E(1, 1, c, "ref")], "inline"),
            ("S", 1, 1, [oth(2, 3), E(1, 1, a), oth(0, 2)], "inline"),
            ("S", 1, 2, [E(1, 1, a), oth(1, 2), E(1, 1, b), oth(2, 2)], "inline")]
    for p in reps:
        if any(l[0] == "W" for l in G.leaves(p)):
            al = [a, b, (3, 6)]
        else:
            al = [a, b, c]
        cases.append(cm_case("repeated-name-upa-valid", p, G.exhaustive(al, 7 if thorough else 6, 1100 if not thorough else 4000), rng))
    # ---- 1c. a counted particle followed by a counted particle that matches the same name (handleRepetitions:
    #          overflow search "deeper in the element map", counter of the newly entered counting state) -----------
    x_ = (3, 6)
    seconds = [("W", ("any",), "##any", "skip"), ("W", ("set", [2]), "##targetNamespace", "lax"),
               ("W", ("set", [2, 3]), "##targetNamespace urn:u", "skip"), ("E", a)]
    first_occs = [(n, n) for n in (2, 3, 4)] + [(2, 3), (3, 5), (2, -1), (4, -1)]
    second_occs = [(2, 3), (3, 3), (2, -1), (1, 1), (0, 1), (1, 2), (4, 4)]
    combos = [(fo, so, sk) for fo in first_occs for so in second_occs for sk in range(len(seconds))]
    if not thorough:
        keep = [c for c in combos if c[0][0] == c[0][1]]
        rest = [c for c in combos if c[0][0] != c[0][1]]
        rng.shuffle(keep); rng.shuffle(rest)
        combos = keep[:40] + rest[:8]
    for (fm, fn), (sm, sn), sk in combos:
        sec = seconds[sk]
        second = ("W", sm, sn, sec[1], sec[2], sec[3]) if sec[0] == "W" else E(sm, sn, a, "ref")
        # a trailing particle that the second particle does not match (else the model is genuinely ambiguous)
        tail = rng.random() < 0.3 and not (sec[0] == "W" and sec[1] == ("any",))
        tb = (1, 2)
        kids = [E(fm, fn, a), second] + ([E(1, 1, tb)] if tail else [])
        p = ("S", 1, 1, kids, "inline")
        upa_ok = fm == fn
        if not upa_ok:
            # {n,m} with n<m (or unbounded) followed by a particle matching the same name violates UPA
            sc = G.Schema(); sc.uses_u = True; sc.globals_t.add(5)
            body = sc.render_particle(p)
            doc = sc.document('<xs:element name="r"><xs:complexType>%s</xs:complexType></xs:element>' % body, "")
            cases.append(schema_case("schema-upa-counted-overlap", doc, True, False, info={"particle": G.model_particle(p)}))
            continue
        smax = sm + 2 if sn < 0 else sn
        other = x_ if (sec[0] == "W" and G.wild_allows(sec[1], 3)) else None
        words, seen = [], set()
        def addw(w):
            if tuple(w) not in seen and len(w) <= fm + smax + 4:
                seen.add(tuple(w)); words.append(w)
        for i in range(max(0, fm - 1), fm + smax + 3):
            for j in range(0, smax + 2):
                for k in range(0, 3):
                    w = [a] * i + ([other] * j if other else []) + [a] * (k if other else 0)
                    addw(w + ([tb] if tail else []))
                    if tail and i == fm and k == 0:
                        addw(w)
        cases.append(cm_case("counted-overlap", p, words, rng, info={"first": [fm, fn], "second": [sm, sn], "kind": sec[2] if sec[0] == "W" else "same-name"}))
    # ---- 2. random deterministic particles: exhaustive short child sequences + boundary samples --------------
    nrand = 110 if not thorough else 2000
    for i in range(nrand):
        p = G.random_particle(rng)
        al, foreign = G.alphabet_for(p, rng)
        alphabet = (al + foreign)[:5]
        L = {1: 6, 2: 5, 3: 4, 4: 3, 5: 3}[max(1, len(alphabet))]
        cap = 130 if not thorough else 400
        words = G.exhaustive(alphabet, L + (1 if thorough else 0), cap)
        pool = [(3, 6), (4, 8), (1, 8), (2, 5), (3, 7)]
        seen = {tuple(w) for w in words}
        for _ in range(30):
            w = G.sample_word(p, rng, pool)
            if w is not None and len(w) <= 14 and tuple(w) not in seen:
                seen.add(tuple(w)); words.append(w)
        nn = G.count_nodes(p)
        for node in range(nn):
            for delta in (-1, 1):
                w = G.sample_word(p, rng, pool, mutate_at=(node, delta))
                if w is not None and len(w) <= 16 and tuple(w) not in seen:
                    seen.add(tuple(w)); words.append(w)
        cases.append(cm_case("random-particle", p, words, rng, named_type=rng.choice([None, None, True, "include"]),
                             mixed=rng.random() < 0.15))
    # ---- 3. all-groups --------------------------------------------------------------------------------------
    members_pool = [a, b, c, (1, 1)]
    nall = 24 if not thorough else 120
    for i in range(nall):
        k = rng.randrange(1, 5)
        ms = [(q, rng.random() < 0.5) for q in members_pool[:k]]
        if i < 4:
            ms = [(q, i % 2 == 0) for q in members_pool[:3]]
        opt = (i // 2) % 2 == 0 if i < 4 else rng.random() < 0.4
        al = [q for q, _ in ms] + [e]
        words = G.exhaustive(al, 4 if len(al) <= 4 else 3, 400)
        cases.append(all_case("all-group", opt, ms, words, mixed=(i % 6 == 5)))
    # ---- 4. wildcard table: every form of the namespace attribute x every namespace -------------------------
    forms = [("any", "##any"), ("any", None), ("other", "##other"), ("list 0", ""), ("list 1 l", "##local"),
             ("list 1 t", "##targetNamespace"), ("list 1 u3", "urn:u"), ("list 1 u4", "urn:v"),
             ("list 2 l t", "##local ##targetNamespace"), ("list 2 u3 u4", "urn:u urn:v"),
             ("list 3 t u3 t", "##targetNamespace urn:u ##targetNamespace"), ("list 2 u2 l", "urn:t ##local"),
             ("list 4 l t u3 u4", "##local ##targetNamespace urn:u urn:v")]
    for am, at in forms:
        cases.append(wc_case("urn:t", am, at))
    # ---- 5. invalid schemas ---------------------------------------------------------------------------------
    S = lambda body, extra="": ('<xs:schema xmlns:xs="%s" xmlns:t="urn:t" targetNamespace="urn:t" '
                                'elementFormDefault="qualified">%s%s</xs:schema>' % (G.XSD, body, extra))
    rt = lambda ct: '<xs:element name="r"><xs:complexType>%s</xs:complexType></xs:element>' % ct
    el = lambda n, o="": '<xs:element name="%s" type="xs:string"%s/>' % (n, o)
    cases.append(schema_case("schema-valid-control", S(rt("<xs:sequence>%s%s</xs:sequence>" % (el("a"), el("b")))), False, False))
    cases.append(schema_case("schema-dup-attribute", S(rt('<xs:attribute name="p" type="xs:string"/><xs:attribute name="p" type="xs:string"/>')), True, True))
    cases.append(schema_case("schema-upa-opt-then-same", S(rt("<xs:sequence>%s%s</xs:sequence>" % (el("a", ' minOccurs="0"'), el("a")))), True, False))
    cases.append(schema_case("schema-upa-choice-same", S(rt("<xs:choice><xs:sequence>%s%s</xs:sequence><xs:sequence>%s%s</xs:sequence></xs:choice>" % (el("a"), el("b"), el("a"), el("c")))), True, False))
    cases.append(schema_case("schema-upa-wildcard", S(rt('<xs:sequence>%s<xs:any namespace="##any" processContents="skip"/></xs:sequence>' % el("a", ' minOccurs="0"'))), True, False))
    cases.append(schema_case("schema-upa-range", S(rt("<xs:sequence>%s%s</xs:sequence>" % (el("a", ' minOccurs="2" maxOccurs="3"'), el("a")))), True, False))
    cases.append(schema_case("schema-circular-group", S(rt('<xs:group ref="t:g"/>'), '<xs:group name="g"><xs:sequence><xs:group ref="t:g"/></xs:sequence></xs:group>'), True, True))
    cases.append(schema_case("schema-min-gt-max", S(rt("<xs:sequence>%s</xs:sequence>" % el("a", ' minOccurs="3" maxOccurs="2"'))), True, True))
    cases.append(schema_case("schema-all-max2", S(rt("<xs:all>%s</xs:all>" % el("a", ' maxOccurs="2"'))), True, True))
    cases.append(schema_case("schema-all-nested", S(rt("<xs:sequence><xs:all>%s</xs:all></xs:sequence>" % el("a"))), True, True))
    base = '<xs:complexType name="B"><xs:sequence>%s</xs:sequence></xs:complexType>' % el("a", ' minOccurs="1" maxOccurs="2"')
    der_bad = ('<xs:complexType name="D"><xs:complexContent><xs:restriction base="t:B"><xs:sequence>%s</xs:sequence>'
               '</xs:restriction></xs:complexContent></xs:complexType>' % el("a", ' minOccurs="0" maxOccurs="3"'))
    der_ok = ('<xs:complexType name="D"><xs:complexContent><xs:restriction base="t:B"><xs:sequence>%s</xs:sequence>'
              '</xs:restriction></xs:complexContent></xs:complexType>' % el("a", ' minOccurs="1" maxOccurs="1"'))
    cases.append(schema_case("schema-restriction-range", S('<xs:element name="r" type="t:D"/>', base + der_bad), True, False))
    cases.append(schema_case("schema-restriction-ok-control", S('<xs:element name="r" type="t:D"/>', base + der_ok), False, False))
    cases.append(schema_case("schema-undefined-type", S('<xs:element name="r" type="t:Nope"/>'), True, True))
    cases.append(schema_case("schema-dup-element", S(el("r") + el("r")), True, True))
    cases.append(schema_case("schema-dup-type", S(el("r"), '<xs:complexType name="B"/><xs:complexType name="B"/>'), True, True))
    cases.append(schema_case("schema-attr-default-and-fixed", S(rt('<xs:attribute name="p" type="xs:string" default="x" fixed="x"/>')), True, True))
    cases.append(schema_case("schema-attr-default-required", S(rt('<xs:attribute name="p" type="xs:string" default="x" use="required"/>')), True, True))
    cases.append(schema_case("schema-subst-cycle", S('<xs:element name="r" type="xs:string" substitutionGroup="t:s"/><xs:element name="s" type="xs:string" substitutionGroup="t:r"/>'), True, True))
    cases.append(schema_case("schema-edc-inconsistent", S(rt("<xs:sequence>%s<xs:element name=\"b\" type=\"xs:string\"/><xs:element name=\"a\" type=\"xs:int\"/></xs:sequence>" % el("a"))), True, False))
    # ---- 6. attribute uses --------------------------------------------------------------------------------
    import itertools
    aw = [None, (("set", [4, 3]), "urn:v urn:u", "strict"), (("not", 2), "##other", "skip"), (("set", [1]), "##local", "lax"), (("any",), "##any", "skip"),
          (("set", [3]), "urn:u", "strict"), (("set", [4, 1]), "urn:v ##local", "skip")]
    natt = 36 if not thorough else 150
    for i in range(natt):
        uses = []
        for q in [(1, 1), (1, 2), (1, 3), (3, 9)]:
            if rng.random() < 0.7:
                use = rng.choice("oorp")
                vc = "n"
                if use == "o":
                    vc = rng.choice("nndf")
                elif use == "r":
                    vc = rng.choice("nnf")
                uses.append((q, use, vc, "F" if vc != "n" else ""))
        wild = rng.choice(aw)
        cand = [[None, "x", "F"], [None, "y", "F"], [None, "F"], [None, "w", "F"], [None, "k"], [None, "t"]]
        names = [(1, 1), (1, 2), (1, 3), (3, 9), (4, 9), (2, 9)]
        sets = []
        for combo in itertools.product(*cand):
            sets.append([(q, v) for q, v in zip(names, combo) if v is not None])
        if not thorough:
            rng.shuffle(sets)
            sets = sets[:70]
        cases.append(at_case("attribute-uses", uses, wild, sets, via_group=(i % 3 == 2)))
    # ---- 7. substitution groups, abstract / block, xsi:type, xsi:nil, mixed / empty / simple content ---------
    HDR = ('<xs:schema xmlns:xs="%s" xmlns:t="urn:t" xmlns:u="urn:u" targetNamespace="urn:t" '
           'elementFormDefault="qualified"><xs:import namespace="urn:u" schemaLocation="u.xsd"/>' % G.XSD)
    m_, n_ = (2, 9), (2, 10)
    G.LOCAL[9], G.LOCAL[10] = "m", "n"
    for variant in ("plain", "abstract-head", "block-substitution", "member-final-ok"):
        head_attrs = {"plain": "", "abstract-head": ' abstract="true"', "block-substitution": ' block="substitution"',
                      "member-final-ok": ""}[variant]
        doc = (HDR + '<xs:element name="r"><xs:complexType><xs:sequence><xs:element ref="t:a" maxOccurs="2"/>'
               '<xs:element ref="t:b" minOccurs="0"/></xs:sequence></xs:complexType></xs:element>'
               '<xs:element name="a" type="xs:string"%s/><xs:element name="b" type="xs:string"/>'
               '<xs:element name="m" type="xs:string" substitutionGroup="t:a"/>'
               '<xs:element name="n" type="xs:string" substitutionGroup="t:m"/><xs:element name="e" type="xs:string"/>'
               '</xs:schema>' % head_attrs)
        alts = {"plain": [a, m_, n_], "abstract-head": [m_, n_], "block-substitution": [a], "member-final-ok": [a, m_, n_]}[variant]
        mp = "S 1 1 2 C 1 2 %d %s E 0 1 2 2" % (len(alts), " ".join("E 1 1 %d %d" % q for q in alts))
        words = G.exhaustive([a, m_, n_, b], 3, 200)
        cases.append(feature_case("substitution-" + variant, doc, mp, [(G.instance(w), w, False) for w in words]))
    # xsi:type / abstract type / block=extension
    for variant in ("plain", "abstract-base", "block-extension-type", "block-extension-element"):
        tattr = {"plain": "", "abstract-base": ' abstract="true"', "block-extension-type": ' block="extension"',
                 "block-extension-element": ""}[variant]
        eattr = ' block="extension"' if variant == "block-extension-element" else ""
        doc = (HDR + '<xs:element name="r" type="t:T"%s/>'
               '<xs:complexType name="T"%s><xs:sequence><xs:element name="a" type="xs:string" maxOccurs="2"/></xs:sequence></xs:complexType>'
               '<xs:complexType name="T2"><xs:complexContent><xs:extension base="t:T"><xs:sequence>'
               '<xs:element name="b" type="xs:string" minOccurs="0"/></xs:sequence></xs:extension></xs:complexContent></xs:complexType>'
               '<xs:complexType name="T3"><xs:sequence><xs:element name="a" type="xs:string"/></xs:sequence></xs:complexType>'
               '</xs:schema>' % (eattr, tattr))
        words = G.exhaustive([a, b], 4, 100)
        base_forced = variant == "abstract-base"
        cases.append(feature_case("xsitype-%s-declared" % variant, doc, "S 1 1 1 E 1 2 2 1",
                                  [(G.instance(w), w, base_forced) for w in words]))
        ext_forced = variant in ("block-extension-type", "block-extension-element")
        cases.append(feature_case("xsitype-%s-extension" % variant, doc, "S 1 1 2 S 1 1 1 E 1 2 2 1 S 1 1 1 E 0 1 2 2",
                                  [(G.instance(w, rootattrs=' xsi:type="t:T2"'), w, ext_forced) for w in words]))
        cases.append(feature_case("xsitype-%s-unrelated" % variant, doc, "S 1 1 1 E 1 1 2 1",
                                  [(G.instance(w, rootattrs=' xsi:type="t:T3"'), w, True) for w in words[:8]]))
    # derivation by restriction: declared base type, xsi:type naming the restricted type, and the restricted type itself
    doc = (HDR + '<xs:element name="r" type="t:B"/><xs:element name="r2" type="t:R"/>'
           '<xs:complexType name="B"><xs:sequence><xs:element name="a" type="xs:string" minOccurs="0" maxOccurs="3"/>'
           '<xs:element name="b" type="xs:string" minOccurs="0"/></xs:sequence><xs:attribute name="p" type="xs:string"/></xs:complexType>'
           '<xs:complexType name="R"><xs:complexContent><xs:restriction base="t:B"><xs:sequence>'
           '<xs:element name="a" type="xs:string" minOccurs="1" maxOccurs="2"/></xs:sequence></xs:restriction></xs:complexContent></xs:complexType>'
           '</xs:schema>')
    words = G.exhaustive([a, b], 4, 100)
    cases.append(feature_case("restriction-base", doc, "S 1 1 2 E 0 3 2 1 E 0 1 2 2", [(G.instance(w), w, False) for w in words]))
    cases.append(feature_case("restriction-xsitype", doc, "S 1 1 1 E 1 2 2 1",
                              [(G.instance(w, rootattrs=' xsi:type="t:R"'), w, False) for w in words]))
    cases.append(feature_case("restriction-declared", doc, "S 1 1 1 E 1 2 2 1",
                              [(G.instance(w, root="t:r2"), w, False) for w in words]))
    # element default / fixed value constraints: reported content of empty children
    doc = (HDR + '<xs:element name="r"><xs:complexType><xs:sequence><xs:element name="a" type="xs:string" default="dv" minOccurs="0"/>'
           '<xs:element name="b" type="xs:string" fixed="fv" minOccurs="0"/><xs:element name="c" type="xs:string" minOccurs="0"/>'
           '</xs:sequence></xs:complexType></xs:element></xs:schema>')
    items = [('<t:a/><t:b/><t:c/>', [a, b, c], False, "a=dv,b=fv,c="), ('<t:a>x</t:a><t:b>fv</t:b>', [a, b], False, "a=x,b=fv"),
             ('<t:a></t:a>', [a], False, "a=dv"), ('<t:b>zz</t:b>', [b], True, None), ('<t:a/><t:c>q</t:c>', [a, c], False, "a=dv,c=q")]
    fc = feature_case("element-default-fixed", doc, "S 1 1 3 E 0 1 2 1 E 0 1 2 2 E 0 1 2 3",
                      [(G.instance([t]), w, f) for t, w, f, _ in items])
    fc["expect_kids"] = [x[3] for x in items]
    cases.append(fc)
    # xsi:type along derivation chains T1 <- T2 <- T3 <- T4 with mixed methods x block on element / declared type /
    # blockDefault; the instance content (one <a/>) is valid for every type of the chain, so the verdict is the
    # xsi:type decision alone (Spec: xsitype_okb, proved = 3.3.4 clause 4.3 / 3.4.6 in T08_xsitype_dec)
    blk_vals = [None, "", "extension", "restriction", "#all", "extension restriction"]
    bset = lambda v: (("extension" in v or "#all" in v), ("restriction" in v or "#all" in v))
    configs = []
    for methods in itertools.product("er", repeat=3):
        for declared in (1, 2):
            for ebv in blk_vals:
                for tbv in blk_vals:
                    for bd in (None, "extension", "restriction", "#all"):
                        configs.append((methods, declared, ebv, tbv, bd))
    rng.shuffle(configs)
    # always include the canonical witnesses: Base <-ext- Mid <-restr- Leaf with block=extension on element / on type
    fixed_cfgs = [(("e", "r", "e"), 1, "extension", None, None), (("e", "r", "r"), 1, None, "extension", None),
                  (("r", "e", "e"), 1, "restriction", None, None), (("r", "e", "r"), 1, None, None, "restriction"),
                  (("e", "e", "r"), 2, None, "restriction", None), (("e", "r", "e"), 1, None, None, "#all")]
    nx = 70 if not thorough else 900
    for (methods, declared, ebv, tbv, bd) in fixed_cfgs + configs[:nx]:
        abstract_k = rng.choice([None, None, None, 2, 3, 4, 1])
        new_el = {2: b, 3: c, 4: d}
        content = {1: ("S", 1, 1, [E(0, 2, a)], "inline")}
        types = ""
        scx = G.Schema()
        for k in (1, 2, 3, 4):
            attrs = ""
            if k == declared and tbv is not None:
                attrs += ' block="%s"' % tbv
            if abstract_k == k:
                attrs += ' abstract="true"'
            if k == 1:
                types += '<xs:complexType name="T1"%s>%s</xs:complexType>' % (attrs, scx.render_particle(content[1]))
                continue
            m = methods[k - 2]
            if m == "e":
                own = ("S", 1, 1, [E(0, 1, new_el[k])], "inline")
                content[k] = ("S", 1, 1, [content[k - 1], own], "inline")
                inner = "<xs:extension base=\"t:T%d\">%s</xs:extension>" % (k - 1, scx.render_particle(own))
            else:
                content[k] = content[k - 1]
                inner = "<xs:restriction base=\"t:T%d\">%s</xs:restriction>" % (k - 1, scx.render_particle(content[k]))
            types += '<xs:complexType name="T%d"%s><xs:complexContent>%s</xs:complexContent></xs:complexType>' % (k, attrs, inner)
        types += '<xs:complexType name="U"><xs:sequence><xs:element name="a" type="xs:string" minOccurs="0"/></xs:sequence></xs:complexType>'
        eattr = "" if ebv is None else ' block="%s"' % ebv
        sattr = "" if bd is None else ' blockDefault="%s"' % bd
        doc = ('<xs:schema xmlns:xs="%s" xmlns:t="urn:t" targetNamespace="urn:t" elementFormDefault="qualified"%s>'
               '<xs:element name="r" type="t:T%d"%s/>%s</xs:schema>' % (G.XSD, sattr, declared, eattr, types))
        eff_e = bset(ebv if ebv is not None else (bd or ""))
        eff_t = bset(tbv if tbv is not None else (bd or ""))
        fl = lambda bs_: "%d%d" % (1 if bs_[0] else 0, 1 if bs_[1] else 0)
        items, insts = [], []
        for k in (1, 2, 3, 4, 9, 0):
            if k == 0:
                # no xsi:type at all: valid unless the declared type is abstract (then modelled as an abstract xsi:type)
                chain = ",".join("%d:%s" % (j, methods[j - 2] if j > 1 else "r") for j in range(declared, 0, -1))
                items.append("%d %s" % (1 if abstract_k == declared else 0, chain))
                insts.append(G.instance([a]))
                continue
            if k == 9:
                items.append("0 9:r")
                insts.append(G.instance([a], rootattrs=' xsi:type="t:U"'))
                continue
            chain = ",".join("%d:%s" % (j, methods[j - 2] if j > 1 else "r") for j in range(k, 0, -1))
            items.append("%d %s" % (1 if abstract_k == k else 0, chain))
            insts.append(G.instance([a], rootattrs=' xsi:type="t:T%d"' % k))
        model = "xt %d %s %s ; %s" % (declared, fl(eff_e), fl(eff_t), " ; ".join(items))
        req = G.request(model, [("main.xsd", doc)], "main.xsd", insts)
        cases.append({"kind": "xsitype-chain", "request": req, "n": len(items), "strict_penalty": [False] * len(items),
                      "words": [[a]] * len(items),
                      "info": {"methods": "".join(methods), "declared": declared, "elem_block": ebv, "type_block": tbv,
                               "blockDefault": bd, "abstract": abstract_k}})
    # xsi:nil
    for nillable in (True, False):
        doc = (HDR + '<xs:element name="r" nillable="%s"><xs:complexType><xs:sequence><xs:element name="a" type="xs:string" '
               'minOccurs="0" maxOccurs="2"/></xs:sequence></xs:complexType></xs:element></xs:schema>' % ("true" if nillable else "false"))
        words = G.exhaustive([a], 3, 10)
        cases.append(feature_case("xsinil-%s-true" % nillable, doc, "S 1 1 0",
                                  [(G.instance(w, rootattrs=' xsi:nil="true"'), w, not nillable) for w in words]
                                  + [(G.instance([], rootattrs=' xsi:nil="true"').replace("></t:r>", ">x</t:r>"), [], True)]))
        # 3.3.4 clause 3.1: a non-nillable element must not carry xsi:nil at all (even "false")
        cases.append(feature_case("xsinil-%s-false" % nillable, doc, "S 1 1 1 E 0 2 2 1",
                                  [(G.instance(w, rootattrs=' xsi:nil="false"'), w, not nillable) for w in words],
                                  info={"nilfalse": nillable}))
    # element-only / mixed / empty / simple content and character data
    for mixed in (False, True):
        doc = (HDR + '<xs:element name="r"><xs:complexType mixed="%s"><xs:sequence><xs:element name="a" type="xs:string" '
               'maxOccurs="2"/></xs:sequence></xs:complexType></xs:element></xs:schema>' % ("true" if mixed else "false"))
        items = []
        for w in G.exhaustive([a], 3, 10):
            items.append((G.instance(w), w, False))
            items.append((G.instance(w, text_between="txt") if w else G.instance([]).replace("></t:r>", ">txt</t:r>"), w, not mixed))
            items.append((G.instance(w, text_between=" \n ") if w else G.instance([]).replace("></t:r>", "> \n </t:r>"), w, False))
            items.append((G.instance(w, text_between="<!--c--><?pi x?>") if w else G.instance([]).replace("></t:r>", "><!--c--></t:r>"), w, False))
        cases.append(feature_case("content-%s" % ("mixed" if mixed else "element-only"), doc, "S 1 1 1 E 1 2 2 1", items))
    doc = HDR + '<xs:element name="r"><xs:complexType/></xs:element><xs:element name="e" type="xs:string"/></xs:schema>'
    cases.append(feature_case("content-empty", doc, "S 1 1 0",
                              [(G.instance([]), [], False), (G.instance([e]), [e], False),
                               (G.instance([]).replace("></t:r>", ">x</t:r>"), [], True),
                               (G.instance([]).replace("></t:r>", "> </t:r>"), [], True),
                               (G.instance([]).replace("></t:r>", "><!--c--></t:r>"), [], False)]))
    doc = (HDR + '<xs:element name="r"><xs:complexType><xs:simpleContent><xs:extension base="xs:int"><xs:attribute name="a" '
           'type="xs:string"/></xs:extension></xs:simpleContent></xs:complexType></xs:element><xs:element name="e" type="xs:string"/></xs:schema>')
    cases.append(feature_case("content-simple", doc, "S 1 1 0",
                              [(G.instance([]).replace("></t:r>", ">12</t:r>"), [], False),
                               (G.instance([]).replace("></t:r>", "> 12 </t:r>"), [], False),
                               (G.instance([]).replace("></t:r>", ">x</t:r>"), [], True),
                               (G.instance([]), [], True),
                               (G.instance([e]), [e], False),
                               (G.instance([]).replace("></t:r>", ">1<t:e/>2</t:r>"), [e], False)]))
    # ---- 8. deep instances over recursive types (per-depth content-model state of the scanners) --------------
    cases += G2.deep_cases(rng, thorough)
    # ---- 9. substitution groups over type chains; 10. attribute wildcard intersection / union --------------------
    cases += G2.subst_cases(rng, thorough)
    cases += G2.attwild_cases(rng, thorough)
    # ---- 11. substitution groups through every content model implementation; 12. attribute-use derivation -------
    cases += G2.subst_cm_cases(rng, thorough)
    cases += G2.attderiv_cases(rng, thorough)
    # ---- 13. one element against its declaration; 14. processContents trees; 15. UPA overlap; 16. restrictions that
    #          omit base particles; 17. types with > 64 attribute declarations on re-used parsers ----------------------
    cases += G3.elem_cases(rng, thorough)
    cases += G3.pc_cases(rng, thorough)
    cases += G3.upa_cases(rng, thorough)
    cases += G3.restr_cases(rng, thorough)
    cases += bigattr_cases(rng, thorough)
    return cases


# ------------------------------------------------------------------------------------------------
def parse_impl(line):
    """-> (s0, s1, [per instance (codes:str, attrs, kids) or ('DIS', text)])"""
    toks = line.split(" ")
    s0 = toks[0][3:] if toks and toks[0].startswith("s0=") else "?"
    s1 = toks[1][3:] if len(toks) > 1 and toks[1].startswith("s1=") else "?"
    out = []
    for t in toks[2:]:
        if t.startswith("cm="):
            continue
        if t.startswith("DIS("):
            # the 8 runs did not print the same text: they must still agree on the verdict and on what they report
            rs = [x.split("@") for x in t[4:-1].split(";")]
            verdicts = {x[0] == "ok" for x in rs}
            rest = {tuple(x[1:]) for x in rs}
            offv = {x[0] == "ok" for x in rs[:4]}
            onv = {x[0] == "ok" for x in rs[4:]}
            if len(verdicts) == 2 and len(offv) == 1 and len(onv) == 1 and len(rest) == 1:
                # schema-full-checking off and on give different verdicts (each consistently over scanners and APIs)
                out.append((rs[4][0], rs[4][1] if len(rs[4]) > 1 else "", rs[4][2] if len(rs[4]) > 2 else "", t, rs[0][0]))
            elif len(verdicts) == 1 and len(rest) == 1:
                longest = max(rs, key=lambda x: len(x[0]))
                out.append((longest[0], longest[1] if len(longest) > 1 else "", longest[2] if len(longest) > 2 else "", t))
            else:
                out.append(("DIS", t, ""))
        else:
            parts = t.split("@")
            out.append((parts[0], parts[1] if len(parts) > 1 else "", parts[2] if len(parts) > 2 else ""))
    return s0, s1, out


def run(ctx):
    t0 = time.time()
    # C08_ASSUME_FIXED=id,id : treat these known findings as repaired (used to verify proposed fixes in a scratch tree)
    assume_fixed = set(x for x in os.environ.get("C08_ASSUME_FIXED", "").split(",") if x)
    if assume_fixed:
        ctx.known = [f for f in ctx.known if f.get("id") not in assume_fixed]
    FIXED_NOW.clear()
    FIXED_NOW.update(assume_fixed)
    try:
        for f in json.load(open(os.path.join(V.VERIF, "known-findings.d", "C08.json")))["findings"]:
            if f.get("status") == "fixed":
                FIXED_NOW.add(f["id"])
    except Exception:
        pass
    ctx.coverage["trusted_base"] = list(V.GLOBAL_TRUSTED_BASE) + [
        "modelled rather than verified: schema component construction in TraverseSchema (which particle / attribute "
        "uses a given <xs:complexType> denotes) and the construction of DFAContentModel from the converted "
        "ContentSpecNode tree (incl. the counting states of CMRepeatingLeaf) are tied by the correspondence only"]
    ctx.assumptions = ["namespace ids: the absent namespace is id 1 in the model as in XMLScanner (fEmptyNamespaceId)",
                       "child elements of the tested parent are locally valid by construction (xs:string, empty)"]
    ctx.build_lib()
    ok, out, failed = ctx.prove(["Base", "C08"], ["theories/C08/Properties_C08.vo", "theories/C08/Extract_C08.vo"],
                                props_file="theories/C08/Properties_C08.v")
    proof_broken = not ok
    if proof_broken:
        ctx.note("proof obligations failed: %s" % failed)
        ctx.note(out[-1500:])
    have_model = os.path.exists(os.path.join(V.VERIF, "ocaml", "C08", "gen_c08.ml"))
    xm = ctx.ocaml("C08", ["gen_c08"]) if have_model else None
    xh = ctx.harness("C08")
    names = code_names()
    if ctx.replay:
        r = json.load(open(ctx.replay))
        cases = [{"kind": r.get("kind", "replay"), "request": r["request"], "n": r.get("n", 0),
                  "strict_penalty": r.get("strict_penalty", [False] * r.get("n", 0)),
                  "schema_expect": tuple(r["schema_expect"]) if r.get("schema_expect") else None,
                  "info": r.get("info", {}), "particle": r.get("particle"), "words": r.get("words"),
                  "attr": r.get("attr"), "attwild": r.get("attwild"), "schema_verdict": r.get("schema_verdict"), "expect_cm": r.get("expect_cm"), "expect_kids": r.get("expect_kids"), "custom": r.get("custom")}]
    else:
        cases = gen_cases(ctx)
    lines = [c["request"] for c in cases]
    rc1, impl, err1 = run_bin(xh, lines)
    rc2, model, err2 = run_bin(xm, lines)
    if rc1 != 0 or len(impl) != len(lines):
        ctx.violation("harness-crash", {"what": "implementation harness crashed or lost lines", "rc": rc1,
                                        "stderr": err1[-2000:], "answered": len(impl), "asked": len(lines),
                                        "request": lines[len(impl)] if len(impl) < len(lines) else None,
                                        "kind": cases[len(impl)]["kind"] if len(impl) < len(lines) else None})
        return
    if rc2 != 0 or len(model) != len(lines):
        ctx.violation("model-crash", {"what": "model driver crashed", "stderr": err2[-2000:]}, no_input=True)
        return
    kinds, codes_seen = {}, {}
    n_valid = n_invalid = 0
    divergences, shared, dis = [], [], []
    known = {"C08-max0": 0, "C08-emptychoice": 0, "C08-emptyns": 0, "C08-prohibited": 0, "C08-nilfalse": 0, "C08-counting": 0, "C08-nilchildren": 0, "C08-attwild-anylist": 0, "C08-attwild-emptyunion": 0,
             "C08-nildefault": 0, "C08-mixedvc": 0, "C08-nilwhitespace": 0}
    notexpr_code = "E%d" % [k for k, v in names["E"].items() if v == "NotExpressibleWildCardIntersection"][0]
    prohibited_code = [k for k, v in names["V"].items() if v == "ProhibitedAttributePresent"][0]
    nviol = 0
    code_dis = [0]
    dfa_checked = [0]
    per_kind = {}
    cm_classes = {}

    def viol(tag, payload, no_input=False):
        nonlocal nviol
        nviol += 1
        # at most 3 replay files per case kind and 15 in all, so that one noisy kind cannot hide another
        kd = payload.get("kind", "?")
        per_kind[kd] = per_kind.get(kd, 0) + 1
        if per_kind[kd] <= 3 and sum(min(v, 3) for v in per_kind.values()) <= 15:
            ctx.violation(tag, payload, no_input=no_input)


    upa_code = "V%d" % [k for k, v in names["V"].items() if v == "UniqueParticleAttributionFail"][0]
    letter_of = {"NillNotAllowed": "N", "NoCharDataInCM": "C", "NilAttrNotEmpty": "E", "SimpleTypeHasChild": "H",
                 "FixedDifferentFromActual": "F", "DatatypeError": "D"}
    cls_finding = {"nildefault": "C08-nildefault", "mixedvc": "C08-mixedvc", "nilws": "C08-nilwhitespace"}

    def code_letters(codes):
        out = set()
        for cd in codes.split(","):
            if cd == "ok" or not cd:
                continue
            nm = names.get(cd[0], {}).get(int(cd[1:]), "?") if cd[1:].isdigit() else "?"
            out.add(letter_of.get(nm, "X") if cd[0] == "V" else "X")
            codes_seen[cd] = codes_seen.get(cd, 0) + 1
        return out

    def custom_eval(case, base, s0, s1, res, ml):
        nonlocal n_valid, n_invalid
        tag = case["custom"]
        nm = lambda: [names.get(c[0], {}).get(int(c[1:]), c) for c in (s0 + "," + s1).split(",") if c[1:].isdigit()]
        if tag in ("uc", "pr"):
            ctx.count()
            ctx.distinct((tag, case["request"][:300]))
            if "DIS" in s0 or "DIS" in s1:
                viol("schema", dict(base, what="scanners / APIs disagree on schema errors", s0=s0, s1=s1))
                return
            if s0 != "ok":
                viol("schema", dict(base, what="schema reported as erroneous with schema-full-checking off", s0=s0, s1=s1, names=nm()))
                return
            if tag == "uc":
                mv, sv = ml[:1] == "1", ml[1:2] == "1"
                iv = upa_code in s1.split(",")
                if s1 != "ok" and not iv:
                    viol("schema", dict(base, what="two-leaf content model reported with an unexpected error", s1=s1, names=nm()))
                elif iv != mv:
                    if iv != sv:
                        viol("divergence", dict(base, impl_conflict=iv, model_conflict=mv, spec_overlap=sv, s1=s1,
                                                what="UPA verdict on two leaves differs from the model and from the Spec "
                                                "(leaves_overlap: some name attributable to both leaves)"))
                    else:
                        viol("correspondence", dict(base, impl_conflict=iv, model_conflict=mv, spec_overlap=sv,
                                                    what="m_conflict no longer follows XercesElementWildcard::conflict"), no_input=True)
                elif mv != sv:
                    viol("spec", dict(base, what="overlap test agrees with the model but not with the Spec (not a listed finding)"))
                return
            legal, incl = ml[:1] == "V", ml[1:2] == "i"
            if legal and not incl:
                viol("generator", dict(base, what="restriction judged legal but the derived language is not included in the base language"), no_input=True)
                return
            if (s1 == "ok") != legal:
                viol("divergence", dict(base, s1=s1, names=nm(), spec_legal=legal,
                                        what="restriction that omits particles of the base sequence: the schema loads with%s error "
                                        "under full checking although Particle Valid (Restriction) Recurse (every omitted particle "
                                        "emptiable, Spec nullable) says %s" % ("out" if s1 == "ok" else " an", "legal" if legal else "illegal")))
            return
        if s0 != "ok" or s1 != "ok":
            viol("schema", dict(base, what="schema rendered from a valid typed schema model reported as erroneous", s0=s0, s1=s1, names=nm()))
            return
        mt = ml.split(" ")
        if tag == "pw":
            ctx.count()
            codes = res[0][0] if res else "DIS"
            if codes == "DIS" or len(res) != 1:
                viol("divergence", dict(base, what="scanners / APIs / full-checking settings disagree on one instance", detail=str(res)[:600]))
                return
            iv, mv, sv = codes == "ok", mt[0][:1] == "V", mt[0][1:2] == "V"
            code_letters(codes)
            n_valid, n_invalid = n_valid + (1 if iv else 0), n_invalid + (0 if iv else 1)
            if "S" in case["info"]["tree"] or "L" in case["info"]["tree"] or not iv:
                ctx.distinct(("pw", case["request"][:300]))
            if iv != mv:
                if iv != sv:
                    viol("divergence", dict(base, impl_valid=iv, model_valid=mv, spec_valid=sv, codes=codes,
                                            what="processContents: verdict differs from the model and violates the Spec (tree_valid)"))
                else:
                    viol("correspondence", dict(base, impl_valid=iv, model_valid=mv, spec_valid=sv, codes=codes,
                                                what="m_walk no longer follows scanStartTagNS / laxElementValidation"), no_input=True)
            elif mv != sv:
                viol("spec", dict(base, what="processContents verdict agrees with the model but violates the Spec (not a listed finding)"))
            return
        # tag == "ev"
        if len(res) != case["n"] or len(mt) != case["n"]:
            viol("protocol", dict(base, what="answer count mismatch", impl_n=len(res), model_n=len(mt)), no_input=True)
            return
        for k in range(case["n"]):
            ctx.count()
            codes, _, kids = res[k][:3]
            if codes == "DIS":
                viol("divergence", dict(base, instance=k, what="scanners / APIs / full-checking settings disagree on one instance", detail=res[k][1][:600]))
                continue
            verd, mcodes, mval, sval, cls = mt[k].split("@")
            iv, mv, sv = codes == "ok", verd[0] == "V", verd[1] == "V"
            n_valid, n_invalid = n_valid + (1 if iv else 0), n_invalid + (0 if iv else 1)
            ctx.distinct((case["request"][:200], k))
            il_ = code_letters(codes)
            ml_ = set(x for x in mcodes.split(",") if x)
            unhx0 = lambda h: "" if h == "-" else bytes.fromhex(h).decode("utf-8")
            # white space in element-only content is reported as ignorable white space, not as character content
            eo = case["info"].get("kind") in ("o", "O")
            unhx = lambda h: "" if (eo and unhx0(h).strip(" \t\r\n") == "") else unhx0(h)
            want_m, want_s = "c=" + G3.san(unhx(mval)), "c=" + G3.san(unhx(sval))
            d = dict(base, instance=k, impl_valid=iv, model_valid=mv, spec_valid=sv, codes=codes, model_item=mt[k], kids=kids)
            if iv != mv or (il_ != ml_) or (iv and kids != want_m):
                spec_ok = (iv == sv) and (not iv or kids == want_s)
                if not spec_ok:
                    viol("divergence", dict(d, what="element against its declaration (xsi:nil / value constraint / content type): the "
                                            "implementation differs from the model and violates the Spec (elem_valid / elem_value)"))
                else:
                    viol("correspondence", dict(d, what="m_elem_check no longer follows validateElement / sendCharData / checkContent "
                                                "(verdict, error codes or reported value)", impl_codes=sorted(il_), model_codes=sorted(ml_)), no_input=True)
                continue
            if mv != sv or (mv and want_m != want_s):
                fid = cls_finding.get(cls)
                if fid and fid not in FIXED_NOW and ctx.find_known(fid):
                    known[fid] += 1
                else:
                    viol("spec", dict(d, what="implementation and model agree but violate the Spec (elem_valid / elem_value), not a listed finding"))

    for case, il, ml in zip(cases, impl, model):
        kinds[case["kind"]] = kinds.get(case["kind"], 0) + 1
        s0, s1, res = parse_impl(il)
        base = {"kind": case["kind"], "request": case["request"], "n": case["n"], "info": case.get("info"),
                "strict_penalty": case.get("strict_penalty"), "schema_expect": case.get("schema_expect"),
                "particle": case.get("particle"), "attr": case.get("attr"), "attwild": case.get("attwild"), "schema_verdict": case.get("schema_verdict"), "expect_cm": case.get("expect_cm"), "words": case.get("words"), "expect_kids": case.get("expect_kids"),
                "impl": il[:2000], "model": ml[:2000], "custom": case.get("custom")}
        cmcls = [t[3:] for t in il.split(" ")[:4] if t.startswith("cm=")]
        if cmcls:
            cm_classes[cmcls[0]] = cm_classes.get(cmcls[0], 0) + 1
        if case.get("expect_cm") and cmcls and cmcls[0] != case["expect_cm"]:
            viol("generator", dict(base, what="the schema shape no longer selects the intended XMLContentModel implementation",
                                   got=cmcls[0], want=case["expect_cm"]), no_input=True)
        if case.get("custom"):
            custom_eval(case, base, s0, s1, res, ml)
            continue
        if case.get("schema_verdict"):
            # schema-level oracle: the schema loads with >= 1 error iff the Spec says the derivation is invalid
            ctx.count()
            ctx.distinct(("schema-verdict", case["request"][:400]))
            iok0, iok1 = s0 == "ok", s1 == "ok"
            mv, sv = ml[:1] == "V", ml[1:2] == "V"
            # the model is the as-written checkAttDerivationOK; where a listed defect has been repaired the repaired code
            # is the Spec clause itself (the two classes are the only differences, T08_attr_derivation)
            if mv != sv and attderiv_finding(case["info"], mv, sv) in FIXED_NOW:
                mv = sv
            sd = dict(base, s0=s0, s1=s1, impl_ok=iok0, model_ok=mv, spec_ok=sv, model=ml,
                      names=[names.get(c[0], {}).get(int(c[1:]), c) for c in (s0 + "," + s1).split(",") if c[1:].isdigit()])
            for cd in s0.split(","):
                if cd != "ok":
                    codes_seen[cd] = codes_seen.get(cd, 0) + 1
            if "DIS" in s0 or "DIS" in s1 or iok0 != iok1:
                viol("schema", dict(sd, what="scanners / APIs / full-checking settings disagree on whether the schema is valid"))
            elif iok0 != mv:
                if iok0 != sv:
                    viol("divergence", dict(sd, what="schema verdict differs from the model and violates the Spec "
                                            "(Derivation Valid (Restriction, Complex) clauses 2-4)"))
                else:
                    viol("correspondence", dict(sd, what="model of checkAttDerivationOK differs from the implementation although "
                                                "the implementation satisfies the Spec"), no_input=True)
            elif mv != sv:
                fid = attderiv_finding(case["info"], mv, sv)
                if fid and ctx.find_known(fid):
                    known[fid] = known.get(fid, 0) + 1
                else:
                    viol("spec", dict(sd, what="implementation and model agree on the schema verdict but violate the Spec "
                                      "(not a listed finding)"))
            continue
        if case.get("schema_expect") is not None:
            ctx.count()
            always, full = case["schema_expect"]
            ctx.distinct(("schema", case["kind"]))
            bad = None
            if (always and s0 == "ok") or (full and s1 == "ok") or (always and s1 == "ok"):
                bad = "schema violating a constraint on schema components is loaded without error"
            if not always and not full and (s0 != "ok" or s1 != "ok"):
                bad = "valid schema reported as erroneous"
            if "DIS" in s0 or "DIS" in s1:
                bad = "scanners/APIs disagree on schema errors"
            if bad:
                viol("schema", dict(base, what=bad, s0=s0, s1=s1))
            continue
        if case.get("attwild") and ml.startswith("X"):
            # the model finds the combination of attribute wildcards not expressible (3.10.6): the schema must be rejected
            ctx.count()
            ctx.distinct(("attwild-x", case["request"][:300]))
            if s0 == "ok" or s1 == "ok":
                viol("schema", dict(base, what="attribute wildcard intersection/union is not expressible but the schema is "
                                    "loaded without error", s0=s0, s1=s1))
            continue
        if case.get("attwild") and s0 == s1 and s0 != "ok" and all(len(t) >= 3 and t[2] == "x" for t in ml.split(" ")) \
                and set(s0.split(",")) == {notexpr_code} and ctx.find_known("C08-attwild-emptyunion"):
            # the faithful (unrepaired) evaluation finds the combination not expressible although the repaired one (= Spec)
            # has a result: union of an empty namespace list with not(namespace)
            ctx.count()
            known["C08-attwild-emptyunion"] += 1
            continue
        if s0 != "ok" or s1 != "ok":
            viol("schema", dict(base, what="schema rendered from a valid typed schema model reported as erroneous",
                                s0=s0, s1=s1, names=[names.get(c[0], {}).get(int(c[1:]), c) for c in (s0 + "," + s1).split(",") if c[1:].isdigit()]))
            continue
        mt = ml.split(" ")
        if len(res) != case["n"] or len(mt) != case["n"]:
            viol("protocol", dict(base, what="answer count mismatch", impl_n=len(res), model_n=len(mt)), no_input=True)
            continue
        p = case.get("particle")
        for k in range(case["n"]):
            ctx.count()
            codes, attrs, kids = res[k][:3]
            off_codes = res[k][4] if len(res[k]) > 4 else None
            # the DFAContentModel model (third verdict of a cm answer) describes the content model as built with
            # schema-full-checking off; compare it with the full-checking-off runs
            has_dfa = (not case.get("attr")) and codes != "DIS" and len(mt[k]) >= 3 and mt[k][2] in "VIF" and mt[0][0] in "VI"
            if has_dfa and mt[k][2] == "F":
                viol("model-fuel", dict(base, instance=k, what="DFA model ran out of fuel"), no_input=True)
                continue
            if has_dfa and not case["strict_penalty"][k] and case["kind"] not in NO_DFA_KINDS:
                iv_off = (off_codes if off_codes is not None else codes) == "ok"
                dv = mt[k][2] == "V"
                sv_ = mt[k][1] == "V"
                dfa_checked[0] += 1
                if iv_off != dv:
                    if iv_off != sv_:
                        viol("divergence", dict(base, instance=k, impl_valid_full_off=iv_off, dfa_model_valid=dv, spec_valid=sv_,
                                                what="implementation (schema-full-checking off) differs from the DFA model and "
                                                "violates the Spec (pmatch = Lp)", detail=(res[k][3][:400] if len(res[k]) > 3 else codes)))
                    else:
                        viol("correspondence", dict(base, instance=k, impl_valid_full_off=iv_off, dfa_model_valid=dv, spec_valid=sv_,
                                                    what="DFA model differs from the implementation although the implementation "
                                                    "satisfies the Spec: ModelDfa08 no longer follows DFAContentModel"), no_input=True)
                    continue
            if off_codes is not None:
                # full checking off disagrees with full checking on: known finding C08-counting iff the faithful DFA model
                # mirrors the full-off verdict, the full-on verdict satisfies the Spec, and two leaves share a map entry
                sv_ = mt[k][1] in "V1" and not case["strict_penalty"][k]
                p_ = case.get("particle")
                mirrored = (not has_dfa) or ((mt[k][2] == "V") == (off_codes == "ok"))
                if p_ is not None and shared_name_counting(tuple_ify(p_)) and (codes == "ok") == sv_ and mirrored \
                        and ctx.find_known("C08-counting"):
                    known["C08-counting"] += 1
                else:
                    viol("divergence", dict(base, what="schema-full-checking off and on disagree on one instance",
                                            instance=k, detail=res[k][3][:600]))
                    continue
            elif len(res[k]) > 3:
                code_dis[0] += 1
                if len(code_dis) < 4:
                    code_dis.append(res[k][3][:300])
            if codes == "DIS":
                dis.append((case, k, attrs))
                viol("divergence", dict(base, what="scanners / APIs / full-checking settings disagree on one instance",
                                        instance=k, detail=res[k][1]))
                continue
            iv = codes == "ok"
            if case.get("attr"):
                # attribute uses: the oracle is the extracted Spec (attrs_valid / defaulted); no separate model
                mv, sv = mt[k][0] == "V", mt[k][1] == "V"
                mparts = mt[k].split("@")
                mwant = sorted(x for x in mparts[1].split(",") if x)
                want = sorted(x for x in mparts[2].split(",") if x)
                got = []
                for x in attrs.split(","):
                    if x:
                        nm, _, val = x.partition("=")
                        q = ATT_BY_TEXT.get(nm)
                        got.append("%s=%s" % ("%d:%d" % q if q else nm, G.hx(val)))
                got.sort()
                for cd in codes.split(","):
                    if cd != "ok":
                        codes_seen[cd] = codes_seen.get(cd, 0) + 1
                n_valid, n_invalid = n_valid + (1 if iv else 0), n_invalid + (0 if iv else 1)
                if not iv or len(want) > 0:
                    ctx.distinct((case["request"][:200], k))
                if iv != mv or (iv and got != mwant):
                    if iv == sv and (not iv or got == want):
                        viol("correspondence", dict(base, instance=k, impl_valid=iv, model_valid=mv, spec_valid=sv, codes=codes,
                                                    attrs=attrs, model=mt[k], what="attribute model differs from the "
                                                    "implementation although the implementation satisfies the Spec"), no_input=True)
                        continue
                if sv and not iv and set(codes.split(",")) == {"V%d" % prohibited_code}:
                    # attributable to C08-prohibited: a prohibited attribute is present and the attribute wildcard
                    # allows its namespace
                    uses, wild = case["info"]["uses"], case["info"]["wild"]
                    present = set(x.partition("=")[0] for x in attrs.split(",") if x)
                    hit = [u for u in uses if u[1] == "p" and wild and G.wild_allows(tuple(wild[0]) if wild[0][0] != "set" else ("set", list(wild[0][1])), u[0][0])
                           and any(ATT_BY_TEXT.get(nm) == tuple(u[0]) for nm in present)]
                    if hit and ctx.find_known("C08-prohibited"):
                        known["C08-prohibited"] += 1
                        continue
                if iv != sv:
                    viol("divergence", dict(base, instance=k, impl_valid=iv, spec_valid=sv, codes=codes, attrs=attrs,
                                            spec=mt[k], what="attribute-use verdict differs from the Spec (attrs_valid)"))
                elif iv and got != want:
                    viol("divergence", dict(base, instance=k, codes=codes, attrs=attrs, got=got, want=want, spec=mt[k],
                                            what="reported attributes differ from specified + defaulted attributes of the Spec"))
                continue
            mv, sv = mt[k][0] in "V1", mt[k][1] in "V1"
            pen = case["strict_penalty"][k]
            if pen:
                mv_eff, sv_eff = False, False
            else:
                mv_eff, sv_eff = mv, sv
            for cd in codes.split(","):
                if cd != "ok":
                    codes_seen[cd] = codes_seen.get(cd, 0) + 1
            if iv:
                n_valid += 1
            else:
                n_invalid += 1
            if mv or not iv:
                ctx.distinct((case["request"][:200], k))
            if iv == mv_eff and mv_eff == sv_eff:
                ek = case.get("expect_kids")
                if iv and ek and ek[k] is not None and kids != ek[k]:
                    viol("divergence", dict(base, instance=k, what="reported element content (default / fixed value) differs "
                                            "from the governing declaration", got=kids, want=ek[k]))
                continue
            word = case.get("words")[k] if case.get("words") else None
            d = dict(base, instance=k, word=word, impl_valid=iv, model_valid=mv_eff, spec_valid=sv_eff, codes=codes, mtok=mt[k])
            if iv != mv_eff:
                divergences.append(d)
            else:
                shared.append(d)
    ctx.coverage["traces_validated_against_impl"] = sum(c["n"] for c in cases) + sum(1 for c in cases if c.get("schema_expect"))
    ctx.coverage["input_distribution"] = {"cases_by_kind": kinds, "instances_valid": n_valid, "instances_invalid": n_invalid,
                                          "error_codes": {("%s:%s" % (k, names.get(k[0], {}).get(int(k[1:]), "?")) if k[1:].isdigit() else k): v
                                                          for k, v in sorted(codes_seen.items())}}
    ctx.coverage["input_distribution"]["same_verdict_but_different_error_codes_between_scanners"] = code_dis
    for c, il, ml in list(zip(cases, impl, model))[3:6]:
        ctx.sample({"kind": c["kind"], "request": c["request"][:600], "impl": il[:300], "model": ml[:300]})
    # impl != model: decide with the Spec
    unexplained = []
    nil_code = "V%d" % [k for k, v in names["V"].items() if v == "NillNotAllowed"][0]
    for d in divergences:
        if (d["info"] or {}).get("nilfalse") and d["word"] and not d["impl_valid"] and d["spec_valid"] \
                and set(d["codes"].split(",")) == {nil_code} and ctx.find_known("C08-nilfalse"):
            known["C08-nilfalse"] += 1
            continue
        if d.get("attwild") and len(d["mtok"]) >= 3 and d["model_valid"] == d["spec_valid"] \
                and d["mtok"][2] == ("v" if d["impl_valid"] else "i") and ctx.find_known("C08-attwild-anylist"):
            # the implementation agrees with the faithful (unrepaired) evaluation of the wildcard combination, the
            # repaired model agrees with the Spec: exactly the defect switch of C08-attwild-anylist
            known["C08-attwild-anylist"] += 1
            continue
        if d["kind"] == "xsinil-True-true" and d["word"] and len(d["word"]) <= 2 and d["impl_valid"] and not d["spec_valid"] \
                and ctx.find_known("C08-nilchildren"):
            known["C08-nilchildren"] += 1
            continue
        if d["impl_valid"] != d["spec_valid"]:
            viol("divergence", dict(d, what="implementation differs from the model and violates the Spec (pmatch = Lp)"))
        else:
            unexplained.append(d)
    if unexplained and not nviol:
        viol("correspondence", dict(unexplained[0], what="model and implementation differ although the implementation "
                                    "satisfies the Spec: the model no longer follows the code", count=len(unexplained)),
             no_input=True)
    # impl == model != Spec: a defect the model mirrors; must be attributed to a known finding
    for d in shared:
        p = d.get("particle")
        fid = None
        if p is not None:
            p = tuple_ify(p)
            if has_max0(p):
                fid = "C08-max0"
            elif has_empty_in_choice(p):
                fid = "C08-emptychoice"
            elif has_empty_nslist(p):
                fid = "C08-emptyns"
        elif d["info"].get("wc") == "":
            fid = "C08-emptyns"
        if fid and ctx.find_known(fid):
            known[fid] += 1
        else:
            viol("spec", dict(d, what="implementation and model agree but violate the Spec (not a listed finding)"))
    texts = {"C08-max0": "particle with minOccurs=maxOccurs=0 is treated as optional (0..1) instead of absent "
                    "(witness (a{0,0}, b) accepts <a/><b/>)",
             "C08-emptychoice": "an empty model group inside a <choice> is dropped, so the choice no longer accepts the empty "
                    "sequence (witness choice(a, sequence()) rejects empty content)",
             "C08-emptyns": "<any namespace=\"\"> (empty list = no namespace allowed) is read as ##any",
             "C08-nilfalse": "xsi:nil=\"false\" on a nillable element makes its (non-nillable) child elements fail with "
                             "NillNotAllowed: SchemaValidator::fNilFound is not cleared once the element that carried "
                             "xsi:nil has been checked (proposed repair: fixes/C08-nil-false-child.patch)",
             "C08-counting": "with schema-full-checking off, two particles with the same element name (or two wildcards of the "
                             "same kind and namespace) in one content model share one counting state (Occurence is keyed "
                             "by the element-map entry; the DFA model ModelDfa08 mirrors it): "
                             "(a{2,3}, b, a{1,2}) rejects <a/><a/><b/><a/> and accepts <a/><a/><b/><a/><a/><a/>; with full "
                             "checking on (leaves renamed for the UPA check) the verdicts are right",
             "C08-nilchildren": "an element with xsi:nil=\"true\" and element children is accepted when the children fit the "
                                "content model: SchemaValidator::fNil is one flag for all open elements and is cleared when a "
                                "child element ends (proposed repair: fixes/C08-nil-children.patch)",
             "C08-attwild-anylist": "intersecting an attribute wildcard ##any with a namespace-list wildcard (local anyAttribute "
                                    "+ attribute group, or two groups) yields a wildcard that allows nothing: "
                                    "attWildCardIntersection copies the type but not the namespace list (proposed repair: "
                                    "fixes/C08-attwildcard-any-list.patch)",
             "C08-attwild-emptyunion": "extension whose own complete attribute wildcard is the empty set (e.g. ##other "
                                       "intersected with ##local) over a base with ##other: the union is ##other (3.10.6 "
                                       "Union clause 5.4) but the schema is rejected with NotExpressibleWildCardIntersection "
                                       "(proposed repair: fixes/C08-attwildcard-empty-union.patch)",
             "C08-attderiv-strayprohibited": "a restriction that declares use=prohibited for an attribute the base type does not "
                                             "have is rejected with BadAttDerivation_5 (a prohibited declaration is no attribute "
                                             "use, nothing is derived; proposed repair fixes/C08-attderiv-stray-prohibited.patch)",
             "C08-wcsubset-absent": "a restriction whose attribute wildcard is a list containing ##local is accepted under a base "
                                    "wildcard ##other, which does not allow unqualified attributes (Wildcard Subset clause 3.2.2; "
                                    "proposed repair fixes/C08-wcsubset-absent.patch)",
             "C08-nildefault": "xsi:nil=\"true\" on a nillable element whose declaration has a default (not fixed) value is rejected "
                               "with NilAttrNotEmpty (3.3.4 clause 3.2.2 excludes only a fixed value constraint; checkContent tests "
                               "elemDefaultValue without XSD_FIXED; proposed repair fixes/C08-nil-default.patch)",
             "C08-mixedvc": "the value constraint of an element with mixed content is ignored: a fixed value is not compared with the "
                            "content, element children and xsi:nil are accepted, a default is not reported for empty content "
                            "(3.3.4 clauses 5.1, 5.2.2, 3.2.2; checkContent returns from the Mixed branch before the value constraint)",
             "C08-nilwhitespace": "a nilled element with element-only content and white space between its tags is accepted (3.3.4 "
                                  "clause 3.2.1: no character or element children; ignorable white space never reaches fDatatypeBuffer)",
             "C08-prohibited": "an attribute declared with use=prohibited (which corresponds to no attribute use at all) is "
                               "rejected with ProhibitedAttributePresent even when the type's attribute wildcard allows it"}
    for fid, nhit in known.items():
        if nhit:
            ctx.known_finding(fid, "%s; %d instances of this class" % (texts[fid], nhit))
    ctx.coverage["spec_oracle_checked"] = ctx.coverage["evaluations"]
    ctx.coverage["content_model_class_of_root_type"] = cm_classes
    ctx.coverage["dfa_model_compared_with_full_checking_off_runs"] = dfa_checked[0]
    if proof_broken and not ctx.violations:
        ctx.violation("obligation", {"what": "Coq obligation no longer checks and no failing input was found by the "
                                     "correspondence sweeps", "failed": failed, "output": out[-3000:]}, no_input=True)
    ctx.coverage["rule"] = ("schemas rendered from a typed schema model (governing particle known to the generator): every "
                            "occurrence range of a fixed list on leaves, groups and wildcards with all child counts 0..max+2; "
                            "seeded random single-occurrence particles (depth<=3, <=5 leaves, named groups, named/anonymous "
                            "types, mixed) with child sequences exhaustive to length 3..6 over the particle's alphabet plus a "
                            "foreign name, plus sampled words at min/max and single-node mutants min-1/max+1; all-groups "
                            "exhaustive to length 4; wildcard namespace forms x 4 namespaces; invalid-schema mutants; each "
                            "instance parsed 8 times (IG/SG scanner x DOM/SAX2 x full checking off/on) which must agree; an "
                            "instance is non-trivial when it is invalid or the model accepts it; every instance is checked "
                            "against the extracted Spec decider pmatch (proved = Lp)")
    ctx.coverage["exhaustive"] = False
    ctx.note("correspondence: %d cases / %d instances, %d divergences, %d shared-with-model spec deviations, %.1fs"
             % (len(lines), ctx.coverage["evaluations"], len(divergences), len(shared), time.time() - t0))


def tuple_ify(p):
    if isinstance(p, list):
        p = tuple(p)
    if p[0] in ("S", "C"):
        return (p[0], p[1], p[2], [tuple_ify(c) for c in p[3]], p[4])
    if p[0] == "W":
        c = p[3]
        c = tuple(c) if not isinstance(c, tuple) else c
        if c[0] == "set":
            c = ("set", list(c[1]))
        return ("W", p[1], p[2], c, p[4], p[5])
    return ("E", p[1], p[2], tuple(p[3]), p[4])
