"""./check setup : build everything from files on disk (MANIFEST.setup_cmd)"""
import glob
import os
import sys
import time

import vcommon as V


def main():
    t0 = time.time()
    log = []
    V.build_lib("lib", log)
    print(log[-1], flush=True)
    # translators
    sys.path.insert(0, os.path.join(V.VERIF, "translator"))
    for f in sorted(glob.glob(os.path.join(V.VERIF, "translator", "*.py"))):
        mod = os.path.basename(f)[:-3]
        m = __import__(mod)
        if hasattr(m, "generate_all"):
            m.generate_all()
    import tables
    tables.gen_utf8()
    tables.gen_tables()
    # sanitizer variants of the library (used by C01/C04 and C17): built here, concurrently with the Coq build, so that
    # the quick checks only do an incremental rebuild
    import threading
    variants = os.environ.get("VERIF_SETUP_VARIANTS", "lib-asan lib-tsan").split()
    vlog = []

    def _variants():
        for variant in variants:
            try:
                V.build_lib(variant, vlog)
            except Exception as e:  # a check that needs the variant will retry and report
                vlog.append("build of %s failed in setup: %r" % (variant, str(e)[-300:]))
    th = threading.Thread(target=_variants)
    th.start()
    # Coq: everything
    mk = V.coq_project()
    rc, out = V.sh("timeout 3000 make -f " + mk + " -k -j%d 2>&1 | grep -v '^Closed under\\|^$' | tail -40" % V.NPROC, cwd=V.COQ,
                   timeout=3100)
    print(out[-3000:], flush=True)
    th.join()
    for l in vlog:
        print(l, flush=True)
    print("setup done in %.0fs" % (time.time() - t0))
    return 0
