"""C14 -- Live lists, iterators, walkers and ranges stay consistent under mutation.
Theorems: coq/theories/C14/Properties_C14.v (Spec14.v = DOM L2 Traversal-Range on a rose tree, Model14.v = the C++).
Correspondence: bin/xh_C14 (history interpreter over a real DOMDocument; every history in a forked child) vs
bin/xm_C14 model <flags> (extracted model) on seeded histories; oracle = bin/xm_C14 spec (extracted Spec interpreter).
The four known defects are modelled both as-is and repaired; which variant the library shows is probed first with
the witnesses, so the same check passes before and after the proposed fixes are applied."""
import json
import os
import subprocess
import time

import sys

import vcommon as V

sys.path.insert(0, os.path.join(V.VERIF, "translator"))
import c14_idmap as TR  # noqa

# (finding id, flag position, witness history, faulty answer, what)
DEFECTS = [
    ("F19", 0, "1111111 ne:b ins:1:2:- nt:hello ins:2:3:- it:1:65535:0 rm:2 in:0",
     "NodeIterator never stepped: removeChild of any node dereferences fCurrentNode==0 in matchNodeOrParent (crash)"),
    ("F20", 1, "1111111 ne:b ins:1:2:- nt:helloworld ins:2:3:- rg rs:0:3:5 re:0:3:8 idata:3:2:ab",
     "updateRangeForInsertedText sets a start offset behind the insertion point to the insertion offset "
     "(range [5,8], insertData(2,'ab') -> [2,10], DOM Range 2.12.1: [7,10])"),
    ("F26", 2, "1111111 ne:b ins:1:2:- ne:c ins:2:3:- ne:d ins:3:4:- ne:e ins:1:5:- tw:1:65535:0 wc:0:5 wpn:0 wpn:0 wpn:0 wpn:0",
     "TreeWalker::previousNode descends only one level into the previous sibling (returns c instead of its "
     "last descendant d): nodes are skipped when walking backwards"),
    ("F27", 3, "1211111 ne:b ins:1:2:- nt:x ins:2:3:- ne:c ins:1:4:- tw:1:4:1 wn:0 wn:0",
     "TreeWalker::acceptNode lets the filter REJECT a node that whatToShow hides: its subtree is pruned although "
     "DOM Traversal says the whatToShow skip takes precedence over the filter (text x under rejected <b> is lost)"),
    ("F28", 4, "1111111 nt:abcdef ins:1:2:- rg rs:0:2:5 re:0:1:1 split:2:3",
     "splitText leaves a live range invalid: a range from inside the tail of the text to (parent, index+1) keeps its end "
     "in front of the new node while its start moves into it (start after end)"),
    ("F29", 5, "IDMAP ne app:1:2 sa:2:idx sid:2:1 get:idx rm:2 get:idx",
     "getElementById returns an element that has been removed from the document tree (the ID map is keyed by attribute "
     "only; DOM: the element must be in the document -- a linear scan of the tree finds none)"),
    ("F30", 6, "1111111 nt:ab ins:1:2:- nc:cmt ins:1:3:- nt:cd ins:1:4:- rg rs:0:2:1 re:0:4:1 rstr:0",
     "Range::toString appends the contents of Comment nodes (and of a Comment boundary container) although the string "
     "'contains only the data characters, not any markup' (DOM Range, toString)"),
    ("F31", 7, "1111111 nt:hello ins:1:2:- ne:b ins:1:3:- rg rs:0:2:2 re:0:1:2 rg rs:1:2:1 re:1:2:1 rdel:0",
     "deleteContents/extractContents truncate a partially selected Text/Comment boundary node with setNodeValue: every "
     "OTHER live range with a boundary point in the kept part of that node is thrown to offset 0 instead of staying "
     "where it is (Range 2.12.2: only points behind the deleted characters move)"),
]
MASKS = [65535, 65535, 1, 4, 5, 128, 133, 260, 261]
NAMES = "abcde"
MOVES = ["wp", "wf", "wl", "wps", "wns", "wn", "wpn"]


def run_bin(cmd, lines, timeout=3000):
    p = subprocess.run(cmd, input=("\n".join(lines) + "\n").encode(), stdout=subprocess.PIPE, stderr=subprocess.PIPE,
                       timeout=timeout)
    return p.returncode, p.stdout.decode("ascii", "replace").splitlines(), p.stderr.decode("utf-8", "replace")


# ------------------------------------------------------------------------------------------------------------
# generator: a python mirror of the tree keeps the ops mostly valid (it is only a generator aid, never an oracle)
# ------------------------------------------------------------------------------------------------------------
class Mirror:
    def __init__(self, rng, tab):
        self.rng = rng
        self.tab = tab
        self.kind = {0: "d", 1: "e"}
        self.name = {0: "", 1: "a"}
        self.text = {}
        self.parent = {0: None, 1: 0}
        self.kids = {0: [1], 1: []}
        self.next = 2
        self.its = []      # [alive]
        self.tws = []      # (root, mask, usef)
        self.dls = []      # (root, name)
        self.rgs = []      # alive
        self.ops = []
        self.stats = {}
        self.fresh_ok = rng.random() < 0.12              # may this history leave a NodeIterator unpositioned?
        self.content = rng.random() < 0.4                # does this history use the Range content operations?
        self.stale = False                               # the mirror does not follow the content operations

    def emit(self, s, cat):
        self.ops.append(s)
        self.stats[cat] = self.stats.get(cat, 0) + 1

    def in_tree(self, x):
        while x is not None:
            if x == 0:
                return True
            x = self.parent[x]
        return False

    def tree_nodes(self):
        return [x for x in self.kind if self.in_tree(x)]

    def is_anc(self, a, b):
        while b is not None:
            if a == b:
                return True
            b = self.parent[b]
        return False

    def length(self, x):
        return len(self.text[x]) if self.kind[x] in "tc" else len(self.kids[x])

    def detach(self, x):
        p = self.parent[x]
        if p is not None:
            self.kids[p].remove(x)
            self.parent[x] = None

    def new(self, kind):
        i = self.next
        self.next += 1
        self.kind[i] = kind
        self.parent[i] = None
        self.kids[i] = []
        if kind == "e":
            self.name[i] = self.rng.choice(NAMES)
            self.emit("ne:" + self.name[i], "new")
        else:
            self.text[i] = self.rtext(0, 10)
            self.emit(("nt:" if kind == "t" else "nc:") + (self.text[i] or "-"), "new")
        return i

    def rtext(self, lo, hi):
        return "".join(self.rng.choice("abcdefghijklmnopqrstuvwxyz") for _ in range(self.rng.randint(lo, hi)))

    def insert(self, p, n, r, cat="ins"):
        self.emit("ins:%d:%d:%s" % (p, n, "-" if r is None else r), cat)
        ok = (p not in (0, n) and n not in (0, 1) and self.kind[p] == "e" and not self.is_anc(n, p)
              and (r is None or self.parent[r] == p) and r != n)
        if ok:
            self.detach(n)
            ks = self.kids[p]
            ks.insert(len(ks) if r is None else ks.index(r), n)
            self.parent[n] = p

    def verdict(self, mask, usef, x):
        bit = {"e": 1, "t": 4, "c": 128, "d": 256}[self.kind[x]]
        if not mask & bit:
            return 3
        if not usef or self.kind[x] == "d":
            return 1
        k = {"t": 5, "c": 6}.get(self.kind[x], NAMES.index(self.name[x]) if self.kind[x] == "e" else 0)
        return int(self.tab[k])

    def bp_path(self, x, off):
        p = [off]
        while self.parent.get(x) is not None:
            p.append(self.kids[self.parent[x]].index(x))
            x = self.parent[x]
        return p[::-1]

    def content_op(self, k, tn):
        """a Range content operation on range k, mostly after giving the range an ordered pair of boundary points
        aimed at the case split of traverseContents (same container / start holds end / end holds start / common
        ancestor; boundaries inside character data, at 0 and at the end)"""
        rng = self.rng
        if rng.random() < 0.7 and not self.stale:
            def point():
                x = rng.choice(tn)
                ln = self.length(x)
                return (x, rng.choice([0, ln, rng.randint(0, ln), rng.randint(0, ln)]))
            a, b = point(), point()
            c = rng.random()
            if c < 0.25:                                 # same container
                b = (a[0], rng.randint(0, self.length(a[0])))
            elif c < 0.45 and self.kids.get(a[0]):       # the end below a child of the start container
                sub = [x for x in tn if x != a[0] and self.is_anc(a[0], x)]
                if sub:
                    x = rng.choice(sub)
                    b = (x, rng.randint(0, self.length(x)))
            if self.bp_path(*b) < self.bp_path(*a):
                a, b = b, a
            self.emit("rs:%d:%d:%d" % (k, a[0], a[1]), "rg-set")
            self.emit("re:%d:%d:%d" % (k, b[0], b[1]), "rg-set")
        c = rng.random()
        if c < 0.30:
            self.emit("rstr:%d" % k, "rg-tostring")
        elif c < 0.48:
            self.emit("rclone:%d" % k, "rg-clone")
        elif c < 0.66:
            self.emit("rdel:%d" % k, "rg-delete")
            self.stale = True
        elif c < 0.82:
            self.emit("rext:%d" % k, "rg-extract")
            self.stale = True
        else:
            if rng.random() < 0.6:
                n = self.new(rng.choice("eetc"))
            else:
                n = rng.choice([x for x in self.kind if x not in (0, 1)] or [1])
            self.emit("rinsn:%d:%d" % (k, n), "rg-insertnode")
            self.next += 1                               # the id of the split node (or a burnt id)
            self.stale = True
        if rng.random() < 0.5:                           # look at what is left
            self.emit("val:%d" % rng.choice(list(self.kind)), "val")

    # ---- one random step -------------------------------------------------------------------------------
    def mutate(self):
        rng = self.rng
        tn = self.tree_nodes()
        elems = [x for x in tn if self.kind[x] == "e"]
        c = rng.random()
        if c < 0.30:                                     # new node inserted somewhere
            n = self.new(rng.choice("eeettc"))
            p = rng.choice(elems)
            r = rng.choice(self.kids[p] + [None])
            self.insert(p, n, r)
        elif c < 0.50:                                   # remove a subtree
            cand = [x for x in tn if x not in (0, 1)]
            if cand:
                x = rng.choice(cand)
                self.emit("rm:%d" % x, "rm")
                self.detach(x)
        elif c < 0.65:                                   # move an existing (attached or detached) node
            cand = [x for x in self.kind if x not in (0, 1)]
            if cand:
                n = rng.choice(cand)
                p = rng.choice(elems if rng.random() < 0.9 else list(self.kind))
                r = rng.choice(self.kids[p] + [None]) if rng.random() < 0.95 else rng.choice(list(self.kind))
                self.insert(p, n, r, "move")
        else:                                            # character data edit
            cds = [x for x in self.kind if self.kind[x] in "tc" and (self.in_tree(x) or rng.random() < 0.1)]
            if not cds:
                return
            x = rng.choice(cds)
            ln = len(self.text[x])
            off = rng.randint(0, ln) if rng.random() < 0.95 else ln + rng.randint(1, 2)
            k = rng.random()
            if k < 0.3:
                s = self.rtext(1, 4)
                self.emit("idata:%d:%d:%s" % (x, off, s), "idata")
                if off <= ln:
                    self.text[x] = self.text[x][:off] + s + self.text[x][off:]
            elif k < 0.55:
                cnt = rng.randint(0, ln - off + 2) if off <= ln else 1
                self.emit("ddata:%d:%d:%d" % (x, off, cnt), "ddata")
                if off <= ln:
                    self.text[x] = self.text[x][:off] + self.text[x][off + cnt:]
            elif k < 0.7:
                cnt = rng.randint(0, ln - off + 1) if off <= ln else 1
                s = self.rtext(0, 3)
                self.emit("rdata:%d:%d:%d:%s" % (x, off, cnt, s or "-"), "rdata")
                if off <= ln:
                    self.text[x] = self.text[x][:off] + s + self.text[x][off + cnt:]
            elif k < 0.78:
                s = self.rtext(0, 6)
                self.emit("sdata:%d:%s" % (x, s or "-"), "sdata")
                self.text[x] = s
            elif k < 0.84:
                s = self.rtext(1, 3)
                self.emit("adata:%d:%s" % (x, s), "adata")
                self.text[x] += s
            elif self.kind[x] == "t":
                self.emit("split:%d:%d" % (x, off), "split")
                if off <= ln:
                    i = self.next
                    self.next += 1
                    self.kind[i] = "t"
                    self.text[i] = self.text[x][off:]
                    self.text[x] = self.text[x][:off]
                    self.kids[i] = []
                    self.parent[i] = None
                    p = self.parent[x]
                    if p is not None:
                        self.kids[p].insert(self.kids[p].index(x) + 1, i)
                        self.parent[i] = p

    def view_op(self):
        rng = self.rng
        tn = self.tree_nodes()
        c = rng.random()
        if c < 0.30:                                     # NodeIterator
            live = [k for k, a in enumerate(self.its) if a]
            if not live or (len(live) < 3 and rng.random() < 0.15):
                root = rng.choice(tn) if rng.random() < 0.8 else 1
                mask, usef = rng.choice(MASKS), rng.random() < 0.5
                if not self.fresh_ok:                    # the first nextNode() must return the root
                    for _ in range(20):
                        if self.verdict(mask, usef, root) == 1:
                            break
                        root, mask, usef = rng.choice(tn), rng.choice(MASKS), rng.random() < 0.5
                    else:
                        mask, usef = 65535, False
                self.emit("it:%d:%d:%d" % (root, mask, usef), "it-new")
                self.its.append(True)
                if not self.fresh_ok or rng.random() < 0.7:   # (a never-positioned iterator is the F19 class)
                    self.emit("in:%d" % (len(self.its) - 1), "it-step")
            else:
                k = rng.choice(live)
                if rng.random() < 0.03:
                    self.emit("id:%d" % k, "it-detach")
                    self.its[k] = False
                else:
                    self.emit(("in:%d" if rng.random() < 0.6 else "ip:%d") % k, "it-step")
        elif c < 0.60:                                   # TreeWalker
            if not self.tws or (len(self.tws) < 3 and rng.random() < 0.12):
                root = rng.choice(tn) if rng.random() < 0.7 else rng.choice([0, 1])
                t = (root, rng.choice(MASKS), rng.random() < 0.6)
                self.emit("tw:%d:%d:%d" % t, "tw-new")
                self.tws.append(t)
            else:
                k = rng.randrange(len(self.tws))
                r = rng.random()
                if r < 0.06:
                    root, mask, usef = self.tws[k]
                    def visible(x):
                        if x == root:
                            return True
                        if not self.is_anc(root, x) or self.verdict(mask, usef, x) != 1:
                            return False
                        a = self.parent[x]
                        while a is not None and a != root:
                            if self.verdict(mask, usef, a) == 2:
                                return False
                            a = self.parent[a]
                        return True
                    cand = [x for x in self.kind if visible(x)]
                    self.emit("wc:%d:%d" % (k, rng.choice(cand)), "tw-set")
                elif r < 0.10:
                    self.emit("wg:%d" % k, "tw-get")
                else:
                    self.emit("%s:%d" % (rng.choice(MOVES), k), "tw-move")
        elif c < 0.75:                                   # getElementsByTagName
            if not self.dls or (len(self.dls) < 4 and rng.random() < 0.2):
                roots = [x for x in self.kind if self.kind[x] in "de"]
                t = (rng.choice(roots) if rng.random() < 0.7 else rng.choice([0, 1]), rng.choice(NAMES + "*"))
                self.emit("dl:%d:%s" % t, "dl-new")
                if t not in self.dls:
                    self.dls.append(t)
            else:
                k = rng.randrange(len(self.dls))
                if rng.random() < 0.3:
                    self.emit("dn:%d" % k, "dl-len")
                else:
                    self.emit("di:%d:%d" % (k, rng.choice([0, 0, 1, 1, 2, 3, 4, 6])), "dl-item")
        else:                                            # Range
            live = [k for k, a in enumerate(self.rgs) if a]
            if not live or (len(live) < 3 and rng.random() < 0.12):
                self.emit("rg", "rg-new")
                self.rgs.append(True)
                live.append(len(self.rgs) - 1)
                k = live[-1]
                for o in ("rs", "re"):                   # give it a real position at once
                    x = rng.choice(tn)
                    self.emit("%s:%d:%d:%d" % (o, k, x, rng.randint(0, self.length(x))), "rg-set")
                return
            k = rng.choice(live)
            if self.content and rng.random() < 0.4:
                self.content_op(k, tn)
                return
            r = rng.random()
            x = rng.choice(tn) if rng.random() < 0.97 else rng.choice(list(self.kind))
            if r < 0.45:
                ln = self.length(x)
                off = rng.randint(0, ln) if rng.random() < 0.95 else ln + 1
                self.emit("%s:%d:%d:%d" % (rng.choice(["rs", "re"]), k, x, off), "rg-set")
            elif r < 0.65:
                self.emit("%s:%d:%d" % (rng.choice(["rsb", "rsa", "reb", "rea"]), k, x), "rg-set-rel")
            elif r < 0.72:
                self.emit("rselc:%d:%d" % (k, x), "rg-selc")
            elif r < 0.80:
                self.emit("rc:%d:%d" % (k, rng.random() < 0.5), "rg-collapse")
            elif r < 0.98:
                self.emit("rcmp:%d:%d:%d" % (k, rng.randint(0, 3), rng.choice(live)), "rg-cmp")
            else:
                self.emit("rd:%d" % k, "rg-detach")
                self.rgs[k] = False


def gen_history(rng, steps):
    tab = "".join(rng.choice("1111223") for _ in range(7))
    m = Mirror(rng, tab)
    for _ in range(rng.randint(4, 12)):                  # seeded tree
        n = m.new(rng.choice("eeeetttc"))
        elems = [x for x in m.tree_nodes() if m.kind[x] == "e"]
        p = rng.choice(elems)
        m.insert(p, n, rng.choice(m.kids[p] + [None]), "seed")
    pm = rng.choice([0.25, 0.4, 0.6])
    for _ in range(steps):
        if rng.random() < pm:
            m.mutate()
        else:
            m.view_op()
    return tab + " " + " ".join(m.ops), m.stats


# ------------------------------------------------------------------------------------------------------------
# getElementById histories: ID values chosen to collide in DOMNodeIDMap's open-addressing table
# ------------------------------------------------------------------------------------------------------------
def xhash(s, mod):
    """XMLString::hash(const XMLCh*, modulus) -- only used to CHOOSE colliding ids (generator aid, not an oracle)"""
    if not s:
        return 0
    h = ord(s[0])
    for c in s[1:]:
        h = (h * 38 + (h >> 24) + ord(c)) & 0xFFFFFFFFFFFFFFFF
    return h % mod


_FAMILIES = {}


def families(mod, upto, minlen):
    key = (mod, upto, minlen)
    if key not in _FAMILIES:
        fam = {}
        for i in range(upto):
            fam.setdefault(xhash("id%d" % i, mod), []).append("id%d" % i)
        _FAMILIES[key] = [v for _, v in sorted(fam.items()) if len(v) >= minlen]
    return _FAMILIES[key]


def gen_id_history(rng, steps, sizes, grow):
    """sizes: table sizes read from the source by the translator; grow: drive fNumEntries over the first fill limit"""
    st = {}
    ops = []

    def emit(o, cat):
        ops.append(o)
        st[cat] = st.get(cat, 0) + 1
    f1 = families(sizes[0][0] - 1, 3000, 3)
    f2 = families(sizes[1][0] - 1, 40000, 3)
    pool = []
    for fam in rng.sample(f1, 3) + rng.sample(f2, 2):
        pool += fam[:4]
    pool += ["k%d" % rng.randrange(1000) for _ in range(4)]
    parent = {1: 0}
    attr = {}                    # element -> [value, isid]
    used = set()
    nxt = [2]

    def id_holder(v, but=None):
        return [e for e, a in attr.items() if a[1] and a[0] == v and e != but]

    def new_elem():
        e = nxt[0]
        nxt[0] += 1
        parent[e] = None
        emit("ne", "id-new")
        return e

    def anc(a, x):
        while x is not None and x != 0:
            if x == a:
                return True
            x = parent[x]
        return False
    if rng.random() < 0.3:
        # a parsed document: the DTD declares id as ID, the parser registers the attributes
        vs = rng.sample(pool, rng.randint(2, 8))
        emit("parse:" + ",".join(vs), "id-parse")
        for v in vs:
            e = nxt[0]
            nxt[0] += 1
            parent[e] = 1
            attr[e] = [v, True]
            used.add(v)
    for _ in range(rng.randint(3, 7)):
        e = new_elem()
        p = rng.choice([x for x in parent if x != e and (parent[x] is not None or x == 1)])
        emit("app:%d:%d" % (p, e), "id-app")
        parent[e] = p
    els = lambda: [e for e in parent]

    def one_step():
        c = rng.random()
        e = rng.choice(els())
        if c < 0.08:
            e = new_elem()
            p = rng.choice([x for x in parent if x != e])
            emit("app:%d:%d" % (p, e), "id-app")
            parent[e] = p
        elif c < 0.16:
            cand = [x for x in parent if x != 1 and parent[x] is not None]
            if cand:
                x = rng.choice(cand)
                emit("rm:%d" % x, "id-rm")
                parent[x] = None
        elif c < 0.24:
            n = rng.choice([x for x in parent if x != 1])
            p = rng.choice(els())
            emit("app:%d:%d" % (p, n), "id-move")
            if not anc(n, p):
                parent[n] = p
        elif c < 0.46:
            v = rng.choice(pool)
            if e in attr and attr[e][1] and id_holder(v, e):
                return
            emit("sa:%d:%s" % (e, v), "id-setattr")
            used.add(v)
            attr[e] = [v, attr[e][1] if e in attr else False]
        elif c < 0.62:
            on = rng.random() < 0.65
            if on and e in attr and id_holder(attr[e][0], e):
                return
            emit("sid:%d:%d" % (e, on), "id-setid")
            if e in attr:
                attr[e][1] = on
        elif c < 0.67:
            emit("ra:%d" % e, "id-remattr")
            attr.pop(e, None)
        else:
            emit("get:%s" % (rng.choice(sorted(used)) if used and rng.random() < 0.9 else rng.choice(pool)), "id-get")
    for _ in range(steps):
        one_step()
    if grow:
        # every add() counts towards the fill limit (remove() never decrements): value changes of ID attributes
        # drive the table over it; lookups of the colliding families before, while and after
        holders = [e for e, a in attr.items() if a[1]]
        if not holders:
            e = rng.choice(els())
            v = next(x for x in pool if not id_holder(x))
            emit("sa:%d:%s" % (e, v), "id-setattr")
            emit("sid:%d:1" % e, "id-setid")
            attr[e] = [v, True]
            used.add(v)
            holders = [e]
        for k in range(sizes[0][1] + rng.randint(5, 40)):
            e = rng.choice(holders)
            free = [x for x in pool if not id_holder(x, e)]
            v = rng.choice(free)
            emit("sa:%d:%s" % (e, v), "id-grow-setattr")
            attr[e][0] = v
            used.add(v)
            if k % 40 == 0 or k > sizes[0][1] - 12:
                emit("get:%s" % rng.choice(sorted(used)), "id-get")
        for _ in range(steps // 2):
            one_step()
    for v in sorted(used):
        emit("get:%s" % v, "id-get-final")
    return "IDMAP " + " ".join(ops), st


def first_diff(a, b):
    ta, tb = a.split(), b.split()
    for i in range(max(len(ta), len(tb))):
        if i >= len(ta) or i >= len(tb) or ta[i] != tb[i]:
            return i
    return None


def truncate(req, k):
    t = req.split()
    return " ".join(t[:k + 2])            # table + ops up to and including op k


def run(ctx):
    ctx.coverage["trusted_base"] = list(V.GLOBAL_TRUSTED_BASE) + [
        "the rose-tree semantics of the DOM mutations (Spec14.v: f_insert/f_remove/f_set_val) are shared by the "
        "specification and the model; they are tied to the library by the per-op `val` dumps of the correspondence",
        "XPath results, NamedNodeMap, surroundContents/selectNode are not modelled; model = specification for the Range "
        "content operations (toString/clone/extract/delete/insertNode) is established by the correspondence, not proved"]
    ctx.assumptions = ["node filters are pure functions of the node name/type (table filter)",
                       "change counter does not wrap (nat in the model, int in the code)",
                       "TreeWalker.currentNode is only set to the root or to nodes the walker accepts"]
    ctx.build_lib()
    try:
        idconst = TR.generate()
    except Exception as e:
        ctx.note("translator failed: %r" % (e,))
        ctx.violation("translator", {"what": "translator can no longer read DOMNodeIDMap's sizes / XMLString::hash",
                                     "error": repr(e)}, no_input=True)
        return
    ok, out, failed = ctx.prove(["Base", "Gen", "C14"], ["theories/C14/Properties_C14.vo", "theories/C14/Extract_C14.vo"],
                                props_file="theories/C14/Properties_C14.v")
    proof_broken = not ok
    if proof_broken:
        ctx.note("proof obligations failed: %s" % failed)
        ctx.note(out[-1500:])
    if not os.path.exists(os.path.join(V.VERIF, "ocaml", "C14", "gen_c14.ml")):
        ctx.violation("extraction", {"what": "extraction produced no model", "output": out[-2000:]}, no_input=True)
        return
    xm = ctx.ocaml("C14", ["gen_c14"])
    xh = ctx.harness("C14")

    # ---- 1. which variant of each known defect does the library show?  (witnesses are replayed first) ----
    wit = [d[2] for d in DEFECTS]
    _, w_impl, _ = run_bin([xh], wit)
    _, w_spec, _ = run_bin([xm, "spec"], wit)
    _, w_bug, _ = run_bin([xm, "model", "00000000"], wit)
    if len(w_impl) != len(wit):
        ctx.violation("harness-crash", {"what": "harness lost lines on the witnesses", "answered": len(w_impl)})
        return
    flags = ""
    present = {}
    for (fid, pos, req, what), i, s, b in zip(DEFECTS, w_impl, w_spec, w_bug):
        ctx.count()
        if i == s:
            flags += "1"
            present[fid] = False
        elif i == b:
            flags += "0"
            present[fid] = True
            if ctx.find_known(fid):
                ctx.known_finding(fid, "%s (witness `%s` -> `%s`, spec `%s`)" % (what, req, i, s))
            else:
                ctx.violation(fid, {"request": req, "impl": i, "spec": s, "what": what})
        else:
            flags += "0"
            present[fid] = True
            ctx.violation("witness-" + fid, {"request": req, "impl": i, "spec": s, "model_as_is": b,
                                             "what": "witness of %s behaves neither as the code was read nor as the spec" % fid})
    ctx.note("defect variants shown by the library (1 = repaired): %s" % flags)
    ctx.coverage["defect_flags"] = flags

    # ---- 2. histories ----
    if ctx.replay:
        reqs = [json.load(open(ctx.replay))["request"]]
        stats = {}
    else:
        nh, steps = (1500, 70) if ctx.tier == "quick" else (20000, 160)
        reqs, stats = [], {}
        for _ in range(nh):
            r, st = gen_history(ctx.rng, steps if ctx.rng.random() < 0.8 else steps * 2)
            reqs.append(r)
            for k, v in st.items():
                stats[k] = stats.get(k, 0) + v
    if not ctx.replay:
        nid, ngrow = (300, 10) if ctx.tier == "quick" else (4000, 120)
        for k in range(nid + ngrow):
            r, st = gen_id_history(ctx.rng, ctx.rng.choice([30, 60, 120]), idconst["sizes"], k >= nid)
            reqs.append(r)
            for kk, v in st.items():
                stats[kk] = stats.get(kk, 0) + v
    t0 = time.time()
    rc, impl, err = run_bin([xh], reqs)
    while (rc != 0 or len(impl) < len(reqs)) and len(impl) < len(reqs):
        # the in-process run died (a crash that could not be recovered): that history again in a forked child
        k = len(impl)
        _, one, _ = run_bin([xh, "--fork"], [reqs[k]])
        impl += one[:1] or ["CRASH"]
        rc, rest, err = run_bin([xh], reqs[k + 1:])
        impl += rest
    t1 = time.time()
    if len(impl) != len(reqs):
        ctx.violation("harness-crash", {"what": "harness died or lost lines", "rc": rc, "stderr": err[-1500:],
                                        "request": reqs[len(impl)] if len(impl) < len(reqs) else None})
        return
    _, model, err2 = run_bin([xm, "model", flags], reqs)
    _, spec, _ = run_bin([xm, "spec"], reqs)
    _, fixed, _ = run_bin([xm, "model", "11111111"], reqs)
    ctx.note("histories %d: harness %.1fs, model+spec %.1fs" % (len(reqs), t1 - t0, time.time() - t1))
    if len(model) != len(reqs) or len(spec) != len(reqs) or len(fixed) != len(reqs):
        ctx.violation("model-crash", {"what": "model driver crashed", "stderr": err2[-1500:]}, no_input=True)
        return
    nops = 0
    n_div = n_spec = n_attr = 0
    unexplained = None
    attributed = {}
    def upto_unspec(line, s):
        st = s.split()
        if "unspec" in [t.split("{")[0] for t in st]:
            k = [t.split("{")[0] for t in st].index("unspec")
            return " ".join(line.split()[:k])
        return line
    n_unspec = sum(1 for s in spec if "unspec" in s)
    impl_full = impl
    fixed = [upto_unspec(x, s) for x, s in zip(fixed, spec)]
    impl_s = [upto_unspec(x, s) for x, s in zip(impl, spec)]
    spec = [upto_unspec(s, s) for s in spec]
    for req, i, m, s, fx, i_s in zip(reqs, impl, model, spec, fixed, impl_s):
        ntok = len(i.split())
        nops += ntok
        ctx.count(ntok)
        ctx.distinct(req)
        if "!INV" in s:
            # T14_range_valid: impossible for the specification / repaired model
            k = [j for j, t in enumerate(s.split()) if "!INV" in t][0]
            ctx.violation("spec-range-invalid", {"request": truncate(req, k), "spec": " ".join(s.split()[:k + 1]),
                                                 "what": "the specification interpreter produced an invalid range"})
            continue
        if i != m:
            n_div += 1
            k = first_diff(i, m)
            ks = first_diff(i_s, s)
            ti = i.split()[k] if k < len(i.split()) else ""
            if ti.startswith("null!SCAN=") and n_div <= 5:
                ctx.violation("getelementbyid", {"request": truncate(req, k), "impl": " ".join(i.split()[:k + 1]),
                                                 "model": " ".join(m.split()[:k + 1]),
                                                 "what": "getElementById answers null although a linear scan of the document tree "
                                                         "finds an element carrying that ID (%s); the model finds it too" % ti})
            elif ks is not None and ks <= k and n_div <= 5:
                ctx.violation("divergence", {"request": truncate(req, k), "impl": " ".join(i.split()[:k + 1]),
                                             "model": " ".join(m.split()[:k + 1]), "spec": " ".join(s.split()[:k + 1]),
                                             "what": "library differs from the model and from DOM Traversal-Range (Spec14) at op %d" % k})
            elif unexplained is None:
                unexplained = (truncate(req, k), i, m, s, k)
            continue
        if fx != s:
            # the repaired model must be the specification (T14_*): a defect shared by model and code, or a broken spec
            n_spec += 1
            if n_spec <= 3:
                k = first_diff(fx, s)
                ctx.violation("spec", {"request": truncate(req, k), "impl": " ".join(i.split()[:k + 1]),
                                       "model_repaired": " ".join(fx.split()[:k + 1]), "spec": " ".join(s.split()[:k + 1]),
                                       "what": "the repaired model differs from the specification interpreter"})
            continue
        if i_s != s:
            # impl == model(as the library is) != spec == model(repaired): the difference is caused by the defects that
            # the library shows; attribute it to those whose repair alone changes this history
            n_attr += 1
            for (fid, pos, _, _) in DEFECTS:
                if present.get(fid):
                    attributed[fid] = attributed.get(fid, 0) + 1
    # per-defect attribution needs one more model run per present defect (only over the differing histories)
    differing = [k for k in range(len(reqs)) if impl[k] == model[k] and impl_s[k] != spec[k] and fixed[k] == spec[k]]
    per = {}
    for (fid, pos, _, what) in DEFECTS:
        if not present.get(fid) or not differing:
            continue
        fl = flags[:pos] + "1" + flags[pos + 1:]
        _, alt, _ = run_bin([xm, "model", fl], [reqs[k] for k in differing])
        per[fid] = sum(1 for k, a in zip(differing, alt) if a != model[k])
        if per[fid] and not ctx.find_known(fid):
            k = [k for k, a in zip(differing, alt) if a != model[k]][0]
            ctx.violation(fid + "-class", {"request": reqs[k], "impl": impl[k], "spec": spec[k], "what": what})
    # the executable certificates behind the conditional theorems (T14_*_certified), on the states of the histories
    ncert = min(len(reqs), 300 if ctx.tier == "quick" else 3000)
    _, certs, _ = run_bin([xm, "certs", flags], reqs[:ncert])
    c_eval = c_bad = 0
    for req, c in zip(reqs, certs):
        p = c.split()
        if len(p) != 3 or p[0] != "certs":
            ctx.violation("model-crash", {"what": "certificate run failed", "request": req, "answer": c}, no_input=True)
            break
        c_eval += int(p[1])
        if int(p[2]):
            c_bad += int(p[2])
            if c_bad == int(p[2]):
                ctx.violation("certificate", {"request": req, "what": "a navigation certificate (Cert14.step_cert) is false in a state "
                                              "of this history: the hypotheses of the conditional theorems do not hold there", "answer": c})
    ctx.coverage["certificates"] = {"histories": ncert, "steps_evaluated": c_eval, "failed": c_bad}
    ctx.coverage["traces_validated_against_impl"] = len(reqs)
    ctx.coverage["ops_compared"] = nops
    ctx.coverage["spec_oracle_checked"] = len(reqs)
    ctx.coverage["histories_differing_from_spec_by_known_defects"] = {"total": len(differing), "per_defect": per}
    ctx.coverage["input_distribution"] = stats
    ctx.coverage["histories_cut_at_unspecified_walker_situation"] = n_unspec
    ctx.coverage["crashes_observed"] = sum(1 for i in impl if i.endswith("CRASH"))
    for k in (0, len(reqs) // 2):
        if k < len(reqs):
            ctx.sample({"request": reqs[k][:600], "impl": impl[k][:600], "model": model[k][:600]})
    if unexplained and not [v for v in ctx.violations if v[1] == "divergence"]:
        req, i, m, s, k = unexplained
        ctx.violation("correspondence", {"what": "model and library differ but the library's answer agrees with the "
                                         "specification up to the difference: the model no longer follows the code",
                                         "request": req, "impl": " ".join(i.split()[:k + 1]), "model": " ".join(m.split()[:k + 1])},
                      no_input=True)
    if proof_broken and not ctx.violations:
        ctx.violation("obligation", {"what": "Coq obligation no longer checks and no failing input was found by the "
                                     "correspondence", "failed": failed, "output": out[-3000:]}, no_input=True)
    ctx.coverage["rule"] = ("seeded histories over one document: a seeded tree of 5-13 nodes, then 70-140 (thorough 160-320) "
                            "ops mixing subtree insert/remove/move, insertData/deleteData/replaceData/setData/appendData/"
                            "splitText with creation, stepping and querying of up to 3 NodeIterators, 3 TreeWalkers "
                            "(whatToShow masks x table filter accept/reject/skip), 4 tag-name lists and 3 Ranges; 40% of the histories "
                            "also use the ranges for toString/cloneContents/extractContents/deleteContents/insertNode with boundary "
                            "points aimed at the four container relationships of traverseContents; every op's "
                            "result and every range's boundary points are compared after every op; a history is non-trivial "
                            "by construction (mutations interleaved with live views), distinct by request text")
