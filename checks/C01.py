"""C01 -- Arbitrary input never causes memory errors, UB, hangs or foreign exceptions.

Decided by proof only for the modelled core (coq/theories/C01/Properties_C01.v):
  T01_reader_inv      no reader operation sequence on any input / chunking / buffer geometry leaves the valid
                      window of fCharBuf / fRawByteBuf or spins (model: C04/Model04.v, tied to XMLReader.cpp by the
                      C04 correspondence, re-run here against the ASan/UBSan build)
  T01_grow_*          capacity arithmetic of XMLBuffer::ensureCapacity/append and ElemStack expandStack/expandMap
                      (growth constants regenerated from the source)
Everything else of the property (allocator, object lifetimes, DTD/schema/validator code) is EXPLORATION: a seeded
stream of malformed documents through all four parser APIs x four scanners x validation schemes x feature sets
against the clang ASan+UBSan build of the library; a sanitizer report, a crash, a hang (10 s per case) or an exception
type outside XMLException/SAXException/DOMException/OutOfMemoryException is a violation whose replay is the request
line (document bytes + configuration)."""
import json
import os
import select
import subprocess
import sys
import threading
import time

import vcommon as V

sys.path.insert(0, os.path.join(V.VERIF, "translator"))
import c04_consts as TC  # noqa
import c01_grow as TG  # noqa

SAN_ENV = {"ASAN_OPTIONS": "detect_leaks=0:abort_on_error=0:allocator_may_return_null=1:detect_stack_use_after_return=0",
           "UBSAN_OPTIONS": "print_stacktrace=1:halt_on_error=1"}
CASE_TIMEOUT = 10.0          # seconds of CPU time of the harness process per answer (a spinning parser burns CPU)
WALL_TIMEOUT = 150.0         # seconds of wall-clock time per answer (a blocked process); generous: the machine may be loaded


def cpu_seconds(pid):
    """user+system CPU time consumed so far by process [pid] (Linux /proc); None when it cannot be read"""
    try:
        with open("/proc/%d/stat" % pid) as f:
            st = f.read()
        f_ = st[st.rindex(")") + 2:].split()
        return (int(f_[11]) + int(f_[12])) / float(os.sysconf("SC_CLK_TCK"))
    except Exception:
        return None


def hx(b):
    return b.hex().upper() if b else "-"


def spec_of(parts):
    out = []
    for p in parts:
        if isinstance(p, tuple):
            if p[1] > 0 and p[0]:
                out.append("%s*%d" % (p[0].hex().upper(), p[1]))
        elif p:
            out.append(p.hex().upper())
    return ",".join(out) if out else "-"


# ------------------------------------------------------------------------------------------------
# corpus
# ------------------------------------------------------------------------------------------------
DTD_DOC = b"""<?xml version="1.0"?>
<!DOCTYPE r [
<!ELEMENT r (a|b|c)*>
<!ELEMENT a (#PCDATA|b)*>
<!ELEMENT b EMPTY>
<!ELEMENT c (a,b?,(a|b)+)>
<!ATTLIST a id ID #IMPLIED n NMTOKENS #IMPLIED r IDREF #IMPLIED>
<!ATTLIST b x CDATA "dflt" e (p|q) "p" xml:space (default|preserve) #IMPLIED>
<!NOTATION nt SYSTEM "nt">
<!ENTITY e1 "text &amp; more">
<!ENTITY e2 "<a>nested &e1;</a>">
<!ENTITY % pe "<!ENTITY e3 'pe-made'>">
%pe;
<!ENTITY un SYSTEM "u.bin" NDATA nt>
]>
<r><a id="i1" n="t1  t2">x&e1;y&#x20AC;&#65;</a><b/>&e2;<!-- c --><?pi d?><![CDATA[cd]]><c><a r="i1"/><b e="q"/><a>&e3;</a></c></r>
"""
EXT_DTD = b"""<?xml version="1.0" encoding="UTF-8"?>
<!ENTITY % inc "INCLUDE">
<![%inc;[
<!ELEMENT r (a|b)*>
<!ELEMENT a (#PCDATA)>
]]>
<![IGNORE[ <!ELEMENT zz ANY> ]]>
<!ELEMENT b EMPTY>
<!ATTLIST a k CDATA #FIXED "v">
<!ENTITY % p2 '<!ENTITY ge "from-pe">'>
%p2;
<!ENTITY ext SYSTEM "e.ent">
"""
EXT_DTD_DOC = b"""<?xml version="1.0" standalone="no"?>
<!DOCTYPE r SYSTEM "x.dtd">
<r><a>t&ge;</a><b/><a k="v">u</a></r>
"""
EXT_ENT_DOC = b"""<!DOCTYPE r [<!ELEMENT r ANY><!ELEMENT a ANY><!ENTITY x SYSTEM "e.ent">]>
<r>pre&x;post<a>&x;</a></r>
"""
EXT_ENT = b"""<?xml version="1.0" encoding="ISO-8859-1"?>text\xe9<a>in</a>\r\nmore"""
XSD = b"""<?xml version="1.0"?>
<xs:schema xmlns:xs="http://www.w3.org/2001/XMLSchema" elementFormDefault="qualified">
 <xs:element name="r">
  <xs:complexType>
   <xs:sequence>
    <xs:element name="a" type="T" minOccurs="0" maxOccurs="3"/>
    <xs:choice minOccurs="0" maxOccurs="unbounded"><xs:element name="b" type="xs:int"/><xs:element name="c" type="xs:date"/></xs:choice>
   </xs:sequence>
   <xs:attribute name="k" type="xs:NMTOKEN" use="optional"/>
  </xs:complexType>
  <xs:key name="K"><xs:selector xpath="a"/><xs:field xpath="@id"/></xs:key>
 </xs:element>
 <xs:complexType name="T" mixed="true">
  <xs:sequence><xs:element name="d" type="S" minOccurs="0"/></xs:sequence>
  <xs:attribute name="id" type="xs:string"/>
 </xs:complexType>
 <xs:simpleType name="S"><xs:restriction base="xs:string"><xs:pattern value="[a-z]{1,4}(x|y)*"/><xs:maxLength value="8"/></xs:restriction></xs:simpleType>
</xs:schema>
"""
XSD_DOC = b"""<?xml version="1.0"?>
<r xmlns:xsi="http://www.w3.org/2001/XMLSchema-instance" xsi:noNamespaceSchemaLocation="s.xsd" k="tok">
<a id="1">mixed<d>abxy</d></a><a id="2"/><b>42</b><c>2020-02-30</c><b>x</b></r>
"""
NS_DOC = b"""<p:r xmlns:p="urn:a" xmlns="urn:d" xmlns:q="urn:b"><p:a q:x="1" x="2"/><q:b xmlns:q="urn:c" q:y="3"><c xmlns=""/></q:b><undeclared:z/></p:r>"""
XML11_DOC = "<?xml version='1.1'?><r>a\u0085b c&#1;\r\n</r>".encode("utf-8")


def corpus(rng):
    """(name, doc bytes, ext bytes, suitable flags)"""
    c = [
        ("dtd", DTD_DOC, b"", "-"),
        ("extdtd", EXT_DTD_DOC, EXT_DTD, "d"),
        ("extent", EXT_ENT_DOC, EXT_ENT, "d"),
        ("xsd", XSD_DOC, XSD, "ns"),
        ("ns", NS_DOC, b"", "n"),
        ("xml11", XML11_DOC, b"", "-"),
        ("utf16", "﻿<?xml version='1.0' encoding='UTF-16'?><r a='é'>\U00010348 text</r>".encode("utf-16-le"), b"", "-"),
        ("utf16be", "﻿<r a='é'>\U00010348<![CDATA[x]]></r>".encode("utf-16-be"), b"", "n"),
        ("latin1", "<?xml version='1.0' encoding='ISO-8859-1'?><r>é\xe9<!--\xfc--></r>".encode("latin-1"), b"", "-"),
        ("ucs4", "<?xml version='1.0' encoding='UCS-4'?><r>x</r>".encode("utf-32-be"), b"", "-"),
        ("deep", b"<r>" + b"".join(b"<e%d a='1'>" % i for i in range(40)) + b"t" + b"".join(b"</e%d>" % i for i in reversed(range(40))) + b"</r>", b"", "n"),
        ("attrs", b"<r " + b" ".join(b"a%d='v%d'" % (i, i) for i in range(45)) + b"/>", b"", "n"),
        ("longname", b"<" + b"n" * 3000 + b" " + b"a" * 1100 + b"='" + b"v" * 2100 + b"'>" + b"t" * 1030 + b"</" + b"n" * 3000 + b">", b"", "-"),
        ("nsmany", b"<r " + b" ".join(b"xmlns:p%d='urn:%d'" % (i, i) for i in range(20)) + b"><p3:a p7:b='1'/></r>", b"", "n"),
    ]
    return c


TOKENS = [b"<!", b"]]>", b"&#", b"&#x110000;", b"&#0;", b"%", b"<![", b"\x00", b"\xed\xa0\x80", b"\xff\xfe", b"\xfe\xff", b"<?xml ",
          b"<!DOCTYPE", b"<!ENTITY % ", b"&e1;", b"&e2;", b"--", b"'", b'"', b"<", b">", b"/>", b"</", b"\r", b"\xc0\x80", b"\xf4\x90\x80\x80",
          b"\xf8\x88\x80\x80\x80", b"xmlns:", b"xml:", b":", b"\xd8\x00", b"\x00\xd8", b"\xdc\x00", b"[", b"]", b"(", b")*", b"|", b"#PCDATA",
          b"SYSTEM 'x'", b"<![INCLUDE[", b"<![IGNORE[", b"]]", b"encoding='x-none'", b"standalone='maybe'", b"version='9.9'"]


def mutate(rng, b):
    b = bytearray(b)
    for _ in range(rng.choice([1, 1, 1, 2, 3])):
        how = rng.randrange(8)
        if not b:
            b += rng.choice(TOKENS)
            continue
        i = rng.randrange(len(b))
        if how == 0:
            del b[i:]
        elif how == 1:
            b[i] = rng.randrange(256)
        elif how == 2:
            b[i] ^= 1 << rng.randrange(8)
        elif how == 3:
            b[i:i] = rng.choice(TOKENS)
        elif how == 4:
            j = min(len(b), i + rng.randrange(1, 40))
            del b[i:j]
        elif how == 5:
            j = min(len(b), i + rng.randrange(1, 60))
            b[i:i] = b[i:j] * rng.choice([1, 2, 30])
        elif how == 6:
            j = min(len(b), i + rng.randrange(1, 12))
            b[i:j] = rng.choice(TOKENS)
        else:
            b[i:i] = bytes(rng.randrange(256) for _ in range(rng.randrange(1, 5)))
    return bytes(b)


def capacity_cases():
    """documents built to cross the capacity thresholds of the VALIDATION and scanner structures (deterministic; run
    on every run): yields (kind, doc bytes, ext bytes, [(api, scanner, val, flags), ...])"""
    dtd_cfgs = [("sax2", "I", "always", "-"), ("dom", "D", "always", "-"), ("sax", "I", "auto", "n"), ("domls", "D", "always", "n")]
    xsd_cfgs = [("sax2", "I", "always", "ns"), ("dom", "S", "always", "nsf"), ("sax", "S", "auto", "ns"), ("domls", "I", "always", "ns")]
    plain_cfgs = [("sax2", "I", "never", "n"), ("dom", "W", "never", "n"), ("sax", "S", "never", "n"), ("domls", "D", "never", "-")]
    out = []

    def dtd_doc(decls, body, root="r"):
        return ("<!DOCTYPE %s [\n%s\n]>\n<%s>%s</%s>" % (root, decls, root, body, root)).encode()

    # (a) DFA subset construction: ((a|b)*,a,(a|b)^k) needs ~2^k states from k+3 leaves -> buildDFA's arrays (4 x leaves) grow
    for k in range(2, 11):
        model = "((a|b)*,a" + ",(a|b)" * k + ")"
        decls = "<!ELEMENT r %s><!ELEMENT a EMPTY><!ELEMENT b EMPTY>" % model
        out.append(("dfa-dtd-%d" % k, dtd_doc(decls, "<b/><a/>" + "<b/>" * k), b"", dtd_cfgs[:2]))
        out.append(("dfa-dtd-bad-%d" % k, dtd_doc(decls, "<a/>" + "<b/>" * (k - 1)), b"", dtd_cfgs[:2]))
    # many leaves: > 64 / > 128 (CMStateSet switches representation), sequence, choice and mixed models
    for n in (63, 64, 65, 66, 127, 128, 129, 130, 200):
        names = ["e%d" % i for i in range(n)]
        edecl = "".join("<!ELEMENT %s EMPTY>" % x for x in names)
        out.append(("leaves-seq-%d" % n, dtd_doc("<!ELEMENT r (%s)>%s" % (",".join(x + "?" for x in names), edecl), "<e1/><e5/><e%d/>" % (n - 1)), b"", dtd_cfgs[:2]))
        out.append(("leaves-choice-%d" % n, dtd_doc("<!ELEMENT r ((%s)*,e0)>%s" % ("|".join(names), edecl), "<e3/><e%d/><e0/>" % (n - 1)), b"", dtd_cfgs[:2]))
        out.append(("leaves-mixed-%d" % n, dtd_doc("<!ELEMENT r (#PCDATA|%s)*>%s" % ("|".join(names), edecl), "t<e2/>u<e%d/>" % (n - 1)), b"", dtd_cfgs[:1]))
    # XML Schema: occurrence expansion and the same exponential model
    def xsd(content, extra=""):
        return ('<xs:schema xmlns:xs="http://www.w3.org/2001/XMLSchema"><xs:element name="r"><xs:complexType>%s</xs:complexType>%s</xs:element>'
                '<xs:element name="a"/><xs:element name="b"/></xs:schema>' % (content, extra)).encode()
    def xdoc(body, attrs=""):
        return ('<r xmlns:xsi="http://www.w3.org/2001/XMLSchema-instance" xsi:noNamespaceSchemaLocation="s.xsd"%s>%s</r>' % (attrs, body)).encode()
    ab = '<xs:element ref="a"/><xs:element ref="b"/>'
    for k in (2, 4, 6, 8, 9):
        c = ('<xs:sequence><xs:choice minOccurs="0" maxOccurs="unbounded">%s</xs:choice><xs:element ref="a"/>'
             '<xs:choice minOccurs="%d" maxOccurs="%d">%s</xs:choice></xs:sequence>' % (ab, k, k, ab))
        out.append(("dfa-xsd-%d" % k, xdoc("<b/><a/>" + "<b/>" * k), xsd(c), xsd_cfgs[:2]))
    for lo, hi in ((2, 40), (30, 70), (1, 130), (100, 100)):
        c = '<xs:sequence><xs:element ref="a" minOccurs="%d" maxOccurs="%d"/><xs:element ref="b" minOccurs="0" maxOccurs="%d"/></xs:sequence>' % (lo, hi, hi)
        out.append(("occurs-xsd-%d-%d" % (lo, hi), xdoc("<a/>" * (lo + 1) + "<b/>" * 3), xsd(c), xsd_cfgs[:2]))
    # identity constraint with several fields and many rows; many IDs / IDREFs
    rows = "".join('<a k1="%d" k2="x%d" k3="%d"/>' % (i, i % 7, i * 3) for i in range(300))
    idc = ('<xs:schema xmlns:xs="http://www.w3.org/2001/XMLSchema"><xs:element name="r"><xs:complexType><xs:sequence>'
           '<xs:element name="a" maxOccurs="unbounded"><xs:complexType><xs:attribute name="k1"/><xs:attribute name="k2"/><xs:attribute name="k3"/>'
           '</xs:complexType></xs:element></xs:sequence></xs:complexType>'
           '<xs:key name="K"><xs:selector xpath="a"/><xs:field xpath="@k1"/><xs:field xpath="@k2"/><xs:field xpath="@k3"/></xs:key>'
           '<xs:keyref name="R" refer="K"><xs:selector xpath="a"/><xs:field xpath="@k1"/><xs:field xpath="@k2"/><xs:field xpath="@k3"/></xs:keyref>'
           '</xs:element></xs:schema>').encode()
    out.append(("idc-many", xdoc(rows + '<a k1="1" k2="x1" k3="3"/>'), idc, xsd_cfgs[:2]))
    ids = "".join('<a id="i%d" r="i%d"/>' % (i, (i * 7) % 600) for i in range(600))
    out.append(("ids-many", dtd_doc("<!ELEMENT r (a*)><!ELEMENT a EMPTY><!ATTLIST a id ID #REQUIRED r IDREF #IMPLIED rs IDREFS #IMPLIED>",
                                    ids + '<a id="z" rs="%s nope"/>' % " ".join("i%d" % i for i in range(0, 600, 3))), b"", dtd_cfgs))
    # (b) declared attributes, attributes on a tag, namespace prefixes per element, entities, entity nesting
    for n in (63, 64, 65, 127, 128, 129, 260):
        atts = " ".join("a%d CDATA 'd%d'" % (i, i) for i in range(n))
        out.append(("attdecl-%d" % n, dtd_doc("<!ELEMENT r ANY><!ATTLIST r %s>" % atts, "t"), b"", dtd_cfgs[:2]))
    for n in (31, 32, 33, 99, 100, 101, 128, 129, 300):
        tag = "<e " + " ".join('a%d="v%d"' % (i, i) for i in range(n)) + "/>"
        out.append(("attrs-on-tag-%d" % n, ("<r>%s</r>" % tag).encode(), b"", plain_cfgs))
    for n in (15, 16, 17, 20, 31, 32, 33, 64, 65, 200):
        ns = " ".join('xmlns:p%d="urn:%d"' % (i, i) for i in range(n))
        out.append(("prefixes-%d" % n, ('<r %s p%d:a="1"><p0:e p%d:b="2"/></r>' % (ns, n - 1, n // 2)).encode(), b"", plain_cfgs[:3]))
    ents = "".join('<!ENTITY e%d "v%d &#%d;">' % (i, i, 65 + i % 26) for i in range(400))
    out.append(("entities-many", dtd_doc("<!ELEMENT r ANY>" + ents, "".join("&e%d;" % i for i in range(0, 400, 3))), b"", dtd_cfgs))
    for depth in (10, 31, 32, 33, 64, 100):
        nest = "".join('<!ENTITY n%d "(&n%d;)">' % (i, i + 1) for i in range(depth)) + '<!ENTITY n%d "bottom">' % depth
        out.append(("entity-nesting-%d" % depth, dtd_doc("<!ELEMENT r ANY>" + nest, "&n0;<e a='&n1;'/>"), b"", dtd_cfgs[:2]))
    # declared attributes that are PRESENT on tags: the per-scanner counter pool (XMLScanner::getNewUIntPtr: rows of 64, row
    # table doubling from 2) is used for duplicate detection of declared attributes -> 129+, 257+, 513+ distinct ones
    for n in (64, 65, 127, 128, 129, 130, 192, 193, 256, 257, 258, 512, 513, 520):
        names = ["a%d" % i for i in range(n)]
        atts = " ".join("%s CDATA #IMPLIED" % x for x in names)
        per = 60
        tags = "".join("<e %s/>" % " ".join('%s="v"' % x for x in names[i:i + per]) for i in range(0, n, per))
        out.append(("attpool-dtd-%d" % n, dtd_doc("<!ELEMENT r (e*)><!ELEMENT e EMPTY><!ATTLIST e %s>" % atts, tags + tags), b"",
                    [("sax2", "I", "always", "-"), ("dom", "D", "always", "-"), ("sax", "I", "never", "n"), ("domls", "D", "auto", "-")]))
        if n in (65, 129, 130, 257, 513):
            xa = "".join('<xs:attribute name="%s"/>' % x for x in names)
            sch = ('<xs:schema xmlns:xs="http://www.w3.org/2001/XMLSchema"><xs:element name="r"><xs:complexType><xs:sequence>'
                   '<xs:element name="e" maxOccurs="unbounded"><xs:complexType>%s</xs:complexType></xs:element></xs:sequence>'
                   '</xs:complexType></xs:element></xs:schema>' % xa).encode()
            out.append(("attpool-xsd-%d" % n, xdoc(tags + tags), sch, [("sax2", "S", "always", "ns"), ("dom", "I", "always", "ns")]))
    # schema grammar first switched in at a deep element (per-depth element state array of the schema-aware scanners)
    xs_e = (b'<xs:schema xmlns:xs="http://www.w3.org/2001/XMLSchema" targetNamespace="urn:x" elementFormDefault="qualified">'
            b'<xs:element name="e" type="xs:string"/></xs:schema>')
    for n in (14, 15, 16, 17, 30, 31, 32, 33, 40, 63, 64, 65, 130):
        inner = '<x:e xmlns:x="urn:x" xmlns:xsi="http://www.w3.org/2001/XMLSchema-instance" xsi:schemaLocation="urn:x s.xsd">t</x:e>'
        out.append(("schema-at-depth-%d" % n, ("<n>" * n + inner + "</n>" * n).encode(), xs_e,
                    [("dom", "I", "auto", "ns"), ("sax2", "S", "auto", "ns"), ("sax", "I", "always", "ns"), ("domls", "S", "always", "ns")]))
    for n in (31, 32, 33, 39, 40, 41, 49, 50, 51, 63, 64, 65, 100):
        out.append(("depth-%d" % n, ("<e>" * n + "t" + "</e>" * n).encode(), b"", plain_cfgs[:2] + [("sax2", "I", "always", "ns")]))
    return out


def history_cases(rng, thorough):
    """HISTORIES: one parser object parses 2-4 documents (all scanners / APIs): names of growing and shrinking length,
    DTD / schema reuse with grammar caching, error documents in between, attribute declarations accumulating across
    reparses.  yields (kind, api, scanner, val, flags, [(doc, ext), ...])"""
    apis = ["sax", "sax2", "dom", "domls"]
    out = []

    def el(name, inner="t", atts=""):
        return ("<%s%s>%s</%s>" % (name, atts, inner, name)).encode()
    # element / attribute names whose lengths grow and shrink between the parses (pooled declarations keep name buffers)
    lens = [1, 3, 8, 9, 16, 17, 24, 40, 100]
    n_hist = 160 if not thorough else 4000
    for _ in range(n_hist):
        k = rng.choice([2, 3, 3, 4])
        base = rng.choice(["a", "el", "n"])
        docs = []
        for i in range(k):
            L = rng.choice(lens)
            name = (base * L)[:L]
            child = (base * rng.choice(lens))[:rng.choice(lens)]
            d = el(name, el(child, "x", ' %s="1"' % (base * rng.choice(lens))[:rng.choice(lens)]).decode() + "<%s/>" % name)
            if rng.random() < 0.2:
                d = d[:rng.randrange(1, len(d))]            # an error document in between
            docs.append((d, b""))
        sc = rng.choice(["W", "W", "I", "D", "S"])
        out.append(("names", rng.choice(apis), sc, rng.choice(["never", "auto"]), rng.choice(["-", "n", "nx"]), docs))
    # DTD reuse: same / different internal subsets, cached grammar, names of different length for the same declarations
    for _ in range(50 if not thorough else 1000):
        k = rng.choice([2, 3, 4])
        docs = []
        for i in range(k):
            L = rng.choice([1, 5, 9, 20, 40])
            r, c = "r" * L, "c" * rng.choice([1, 9, 30])
            natt = rng.choice([1, 3, 70])
            atts = " ".join("a%d_%d CDATA 'd'" % (i, j) for j in range(natt))
            d = ("<!DOCTYPE %s [<!ELEMENT %s (%s)*><!ELEMENT %s (#PCDATA)><!ATTLIST %s %s><!ENTITY e%d 'v'>]><%s %s><%s>&e%d;</%s><%s/></%s>"
                 % (r, r, c, c, r, atts, i, r, " ".join('a%d_%d="x"' % (i, j) for j in range(natt)), c, i, c, c, r)).encode()
            if rng.random() < 0.15:
                d = d[:rng.randrange(10, len(d))]
            docs.append((d, b""))
        out.append(("dtd-reuse", rng.choice(apis), rng.choice(["I", "D", "I", "D", "W"]), rng.choice(["never", "auto", "always"]),
                    rng.choice(["-", "c", "nc", "x", "cx"]), docs))
    # schema reuse: same schema document served for every parse, cached or not; instances valid / invalid / other root
    for _ in range(40 if not thorough else 800):
        k = rng.choice([2, 3])
        natt = rng.choice([2, 70, 130])
        xa = "".join('<xs:attribute name="a%d"/>' % j for j in range(natt))
        sch = ('<xs:schema xmlns:xs="http://www.w3.org/2001/XMLSchema"><xs:element name="r"><xs:complexType><xs:sequence>'
               '<xs:element name="e" minOccurs="0" maxOccurs="unbounded" type="xs:int"/></xs:sequence>%s</xs:complexType></xs:element>'
               '<xs:element name="%s" type="xs:string"/></xs:schema>' % (xa, "other" * rng.choice([1, 4]))).encode()
        docs = []
        for i in range(k):
            root = rng.choice(["r", "r", "other", "otherotherotherother", "zzz"])
            atts = " ".join('a%d="v"' % j for j in range(0, natt, rng.choice([1, 2])))
            d = ('<%s xmlns:xsi="http://www.w3.org/2001/XMLSchema-instance" xsi:noNamespaceSchemaLocation="s.xsd" %s>%s</%s>'
                 % (root, atts if root == "r" else "", "<e>1</e><e>x</e>" if root == "r" else "t", root)).encode()
            if rng.random() < 0.15:
                d = d[:rng.randrange(10, len(d))]
            docs.append((d, sch))
        out.append(("xsd-reuse", rng.choice(apis), rng.choice(["I", "S"]), rng.choice(["auto", "always"]), rng.choice(["ns", "nsc", "nsfc", "nsx"]), docs))
    return out


XSD_BASES = [
    # mixed emptiable base + simpleContent restriction with a simpleType child (Errata E1-27), facets, attribute uses
    """<xs:schema xmlns:xs="http://www.w3.org/2001/XMLSchema">
 <xs:complexType name="M" mixed="true"><xs:sequence><xs:element name="o" type="xs:string" minOccurs="0"/></xs:sequence><xs:attribute name="ma" type="xs:int"/></xs:complexType>
 <xs:complexType name="R"><xs:simpleContent><xs:restriction base="M"><xs:simpleType><xs:restriction base="xs:string"><xs:minLength value="1"/></xs:restriction></xs:simpleType><xs:maxLength value="5"/><xs:attribute name="ma" type="xs:int" use="required"/></xs:restriction></xs:simpleContent></xs:complexType>
 <xs:complexType name="E"><xs:simpleContent><xs:extension base="xs:decimal"><xs:attribute name="u" type="xs:NMTOKEN"/></xs:extension></xs:simpleContent></xs:complexType>
 <xs:complexType name="E2"><xs:simpleContent><xs:restriction base="E"><xs:maxInclusive value="10"/></xs:restriction></xs:simpleContent></xs:complexType>
 <xs:element name="r"><xs:complexType><xs:sequence><xs:element name="a" type="R" minOccurs="0"/><xs:element name="b" type="E2" minOccurs="0"/><xs:element name="m" type="M" minOccurs="0"/></xs:sequence></xs:complexType></xs:element>
</xs:schema>""",
    # groups, attribute groups, substitution group, abstract type, complexContent extension / restriction, list / union
    """<xs:schema xmlns:xs="http://www.w3.org/2001/XMLSchema">
 <xs:group name="G"><xs:choice><xs:element name="g1" type="xs:int"/><xs:element name="g2" type="L"/></xs:choice></xs:group>
 <xs:attributeGroup name="AG"><xs:attribute name="x" type="xs:ID"/><xs:attribute name="y" type="U" default="1"/><xs:anyAttribute processContents="lax"/></xs:attributeGroup>
 <xs:simpleType name="L"><xs:list itemType="xs:int"/></xs:simpleType>
 <xs:simpleType name="U"><xs:union memberTypes="xs:int xs:NCName"/></xs:simpleType>
 <xs:complexType name="B" abstract="true"><xs:sequence><xs:group ref="G" minOccurs="0" maxOccurs="2"/></xs:sequence><xs:attributeGroup ref="AG"/></xs:complexType>
 <xs:complexType name="D"><xs:complexContent><xs:extension base="B"><xs:sequence><xs:element name="d" type="xs:date" minOccurs="0"/><xs:any namespace="##other" processContents="skip" minOccurs="0"/></xs:sequence></xs:extension></xs:complexContent></xs:complexType>
 <xs:complexType name="D2"><xs:complexContent><xs:restriction base="D"><xs:sequence><xs:group ref="G" minOccurs="0" maxOccurs="1"/></xs:sequence></xs:restriction></xs:complexContent></xs:complexType>
 <xs:element name="head" type="B" abstract="true"/>
 <xs:element name="sub" type="D" substitutionGroup="head"/>
 <xs:element name="r"><xs:complexType><xs:sequence><xs:element ref="head" maxOccurs="unbounded"/><xs:element name="z" type="D2" minOccurs="0"/></xs:sequence></xs:complexType>
  <xs:unique name="UQ"><xs:selector xpath="sub"/><xs:field xpath="@x"/></xs:unique></xs:element>
</xs:schema>""",
    # all group, nillable, fixed / default, key / keyref, include of itself through the resolver, notation, redefine-free
    """<xs:schema xmlns:xs="http://www.w3.org/2001/XMLSchema" xmlns:t="urn:t" targetNamespace="urn:t" elementFormDefault="qualified">
 <xs:notation name="n" public="p"/>
 <xs:simpleType name="S"><xs:restriction base="xs:string"><xs:enumeration value="p"/><xs:enumeration value="q"/><xs:pattern value="[pq]"/></xs:restriction></xs:simpleType>
 <xs:complexType name="A"><xs:all><xs:element name="a1" type="t:S" minOccurs="0"/><xs:element name="a2" type="xs:boolean" nillable="true" default="true"/></xs:all><xs:attribute name="k" type="xs:int" fixed="3"/></xs:complexType>
 <xs:element name="r"><xs:complexType><xs:sequence><xs:element name="i" type="t:A" maxOccurs="unbounded"/></xs:sequence></xs:complexType>
  <xs:key name="K"><xs:selector xpath="t:i"/><xs:field xpath="@k"/></xs:key>
  <xs:keyref name="KR" refer="t:K"><xs:selector xpath="t:i/t:a1"/><xs:field xpath="."/></xs:keyref></xs:element>
</xs:schema>""",
]
XSD_VALUES = ["xs:int", "xs:string", "xs:nosuch", "M", "R", "E", "E2", "B", "D", "D2", "L", "U", "G", "AG", "t:A", "t:S", "t:K", "head", "sub", "0", "1", "-1",
              "unbounded", "true", "false", "required", "prohibited", "optional", "lax", "skip", "##any", "##other", "", "x y", "qualified",
              "#all", "extension", "restriction", "r", "."]
XSD_TAGS = ["element", "attribute", "complexType", "simpleType", "sequence", "choice", "all", "group", "attributeGroup", "simpleContent",
            "complexContent", "restriction", "extension", "list", "union", "any", "anyAttribute", "key", "keyref", "unique", "selector", "field",
            "annotation", "maxLength", "enumeration", "include", "import", "redefine", "notation"]


def mutate_schema(rng, text):
    """one or two structural mutations of a schema document (element tree level)"""
    import xml.etree.ElementTree as ET
    XS = "http://www.w3.org/2001/XMLSchema"
    ET.register_namespace("xs", XS)
    root = ET.fromstring(text)
    for _ in range(rng.choice([1, 1, 2])):
        nodes = [(p_, c) for p_ in root.iter() for c in list(p_)]
        if not nodes:
            break
        parent, child = rng.choice(nodes)
        how = rng.randrange(9)
        if how == 0:
            parent.remove(child)                                     # drop one child
        elif how == 1:
            parent.insert(rng.randrange(len(parent) + 1), ET.fromstring(ET.tostring(child)))   # duplicate
        elif how == 2:
            parent.remove(child)                                     # move to another parent
            rng.choice(list(root.iter())).append(child)
        elif how == 3 and child.attrib:
            k = rng.choice(sorted(child.attrib))                     # wrong attribute value / dangling reference / cycle
            child.set(k, rng.choice(XSD_VALUES))
        elif how == 4 and child.attrib:
            del child.attrib[rng.choice(sorted(child.attrib))]
        elif how == 5:
            child.set(rng.choice(["type", "base", "ref", "name", "minOccurs", "maxOccurs", "use", "mixed", "abstract", "substitutionGroup",
                                  "final", "block", "itemType", "memberTypes", "refer", "xpath", "value", "default", "fixed", "nillable"]),
                      rng.choice(XSD_VALUES))
        elif how == 6:
            child.tag = "{%s}%s" % (XS, rng.choice(XSD_TAGS))        # illegal child kind
        elif how == 7:
            sub = list(child)
            if sub:
                rng.shuffle(sub)
                for x in list(child):
                    child.remove(x)
                for x in sub:
                    child.append(x)
        else:
            child.text = rng.choice(["text", " ", "<"])
    out = ET.tostring(root, encoding="unicode")
    if 'xmlns:t=' not in out and "t:" in out:
        out = out.replace("<xs:schema ", '<xs:schema xmlns:t="urn:t" ', 1)
    return out.encode("utf-8")


def schema_cases(rng, thorough):
    """malformed-SCHEMA stream: (kind, instance doc, schema bytes, [(api, scanner, val, flags)])"""
    out = []
    insts = [b'<r xmlns:xsi="http://www.w3.org/2001/XMLSchema-instance" xsi:noNamespaceSchemaLocation="s.xsd"><a ma="1">abc</a><b u="k">3</b><m>t<o>x</o></m></r>',
             b'<r xmlns:xsi="http://www.w3.org/2001/XMLSchema-instance" xsi:noNamespaceSchemaLocation="s.xsd"><sub x="i1"><g1>1</g1><d>2020-01-01</d></sub><z/></r>',
             b'<t:r xmlns:t="urn:t" xmlns:xsi="http://www.w3.org/2001/XMLSchema-instance" xsi:schemaLocation="urn:t s.xsd"><t:i k="3"><t:a1>p</t:a1><t:a2 xsi:nil="true"/></t:i></t:r>']
    cfgs = [("sax2", "I", "always", "ns"), ("dom", "S", "always", "nsf"), ("sax", "S", "auto", "ns"), ("domls", "I", "always", "nsf"),
            ("dom", "I", "auto", "nsx"), ("sax2", "S", "always", "nsfx")]
    for i, b in enumerate(XSD_BASES):
        out.append(("schema-valid-%d" % i, insts[i], b.encode(), cfgs[:4]))
    # the targeted family: every single-child drop of every base (deterministic), then seeded random mutations
    import xml.etree.ElementTree as ET
    ET.register_namespace("xs", "http://www.w3.org/2001/XMLSchema")
    for i, b in enumerate(XSD_BASES):
        root = ET.fromstring(b)
        npairs = len([(p_, c) for p_ in root.iter() for c in list(p_)])
        for k in range(npairs):
            r2 = ET.fromstring(b)
            pairs = [(p_, c) for p_ in r2.iter() for c in list(p_)]
            pairs[k][0].remove(pairs[k][1])
            t = ET.tostring(r2, encoding="unicode")
            if i == 2:
                t = t.replace("<xs:schema ", '<xs:schema xmlns:t="urn:t" ', 1) if "xmlns:t=" not in t else t
            out.append(("schema-drop-%d" % i, insts[i], t.encode(), [cfgs[k % len(cfgs)]]))
    for _ in range(260 if not thorough else 20000):
        i = rng.randrange(len(XSD_BASES))
        try:
            m = mutate_schema(rng, XSD_BASES[i])
        except Exception:
            continue
        out.append(("schema-mut-%d" % i, insts[i], m, [rng.choice(cfgs)]))
    return out


def abort_reuse_groups(rng, thorough):
    """ONE parser object re-used after a parse that was ABORTED in the middle of a construct, followed by well-formed
    documents.  yields (api, scanner, val, flags, [docs]); oracle (besides ASan): every later document must get the same
    answer as from a fresh parser (no spurious / missing errors caused by state carried across scanReset)"""
    aborted = [
        '<a foo="1" bar="2" ', '<a foo="1"', '<a foo="1" bar=', '<a foo="1"><b x="1" y="2" ', '<a foo="&#x', '<a foo="v&amp', "<a foo='1' bar='2'",
        '<p:a xmlns:p="u" p:foo="1" q="2" ', '<a xmlns="u" foo="1" ', '<a><![CDATA[ xx', '<a><!-- c', '<a><?pi d', '<a>t&am', '<a>&#6', '</a', '<a></a',
        '<!DOCTYPE a [<!ELEMENT a (b)><!ATTLIST a foo CDATA ', '<!DOCTYPE a [<!ELEMENT a (b|c', '<!DOCTYPE a [<!ENTITY e "v', '<!DOCTYPE a [<!ATTLIST a foo (x|y',
        "<!DOCTYPE a [<!ENTITY e \"<b x='1' \">]><a>&e;</a>", "<!DOCTYPE a [<!ENTITY e \"<b x='1'>t\">]><a foo='1'>&e;</a>",
        '<!DOCTYPE a [<!ENTITY % p "<!ELEMENT a ">%p;', '<!DOCTYPE a [<!ATTLIST a foo CDATA #IMPLIED bar CDATA "d">]><a foo="1" bar="2" ',
        '<!DOCTYPE a [<!ELEMENT a ANY><!ATTLIST a foo ID #IMPLIED>]><a foo="i1"><a foo="i1" ', '<a foo="1" foo="2">', '<a foo="1" bar="2"></b>',
    ]
    followers = [
        '<a foo="1"/>', '<a foo="1" bar="2" baz="3">t</a>', '<a bar="2" foo="1"><b x="1" y="2"/></a>', '<b x="1"/>',
        '<a fooooooooooooooooooooooooooooooooo="1" barrrrrrrrrrrrrrrrrrrrrrrrrrrrrrr="2"/>', "<a " + " ".join('a%d="v"' % i for i in range(30)) + "/>",
        "<a " + " ".join('%s="v"' % (chr(97 + i % 26) * (1 + i % 5)) for i in range(26)) + "/>",
        '<p:a xmlns:p="u" p:foo="1" q="2"/>', '<a xmlns="u" foo="1"><b xmlns="" foo="2"/></a>',
        '<!DOCTYPE a [<!ELEMENT a ANY><!ATTLIST a foo CDATA #IMPLIED bar CDATA "d">]><a foo="1"/>',
        '<!DOCTYPE a [<!ELEMENT a (b)><!ELEMENT b EMPTY><!ATTLIST b x ID #IMPLIED>]><a><b x="i1"/></a>',
        '<!DOCTYPE a [<!ENTITY e "v">]><a foo="&e;">&e;</a>', '<a>t<![CDATA[c]]><!-- c --><?pi d?></a>', '<a/>',
    ]
    apis = ["sax", "sax2", "dom", "domls"]
    scanners = ["I", "W", "D", "S"]
    out = []
    n = 260 if not thorough else 6000
    for k in range(n):
        docs = [rng.choice(aborted)]
        if rng.random() < 0.25:
            docs.insert(0, rng.choice(followers))
        for _ in range(rng.choice([1, 2, 2, 3])):
            docs.append(rng.choice(followers))
            if rng.random() < 0.2:
                docs.append(rng.choice(aborted))
        fl = rng.choice(["-", "-", "n", "n", "x", "nx", "d"])
        out.append((apis[k % 4], scanners[(k // 4) % 4], rng.choice(["never", "never", "auto", "always"]), fl, [d.encode() for d in docs]))
    return out


def option_cases(rng, thorough):
    """parser options that change buffer geometry: setInputBufferSize far below / around the reader's 16K character buffer with
    runs of plain text, CDATA and attribute values much longer than it; low-water mark 0 / 1 / 7 on documents larger than
    the raw buffer.  yields (kind, api, scanner, val, flags, doc)"""
    out = []
    runs = [10, 1022, 1023, 1024, 1025, 4001, 16383, 16384, 16385, 20000, 70000]
    for b in (1, 16, 100, 1023, 1024, 4000, 16384, 40000):
        for n in runs:
            if not thorough and rng.random() < 0.45:
                continue
            api = rng.choice(["sax", "sax2"])
            sc = rng.choice(["I", "W", "D", "S"])
            body = rng.choice(["<r>%s</r>" % ("t" * n), "<r>a<e/>%s<e/>b</r>" % ("t" * n), "<r><![CDATA[%s]]></r>" % ("c" * n),
                               "<r a='%s'>%s</r>" % ("v" * n, "t" * (n // 2)), "<r>%s\n%s&amp;%s</r>" % ("t" * n, "u" * n, "w" * n),
                               "<r>%s</r>" % ("\u00e9" * n), "<r><!--%s--><?p %s?>%s</r>" % ("c" * n, "d" * n, "t" * n)])
            out.append(("option-bufsize-%d" % b, api, sc, "never", rng.choice(["-", "n", "x"]) + ";B%d" % b, body.encode("utf-8")))
    for lw in (0, 1, 7, 99, 100, 49152, 100000):
        for api in ("sax", "sax2", "dom", "domls"):
            n = rng.choice([16380, 49150, 49152, 60000])
            body = "<r>" + "x" * n + rng.choice(["<!-- c -->", "<![CDATA[c]]>", "\r\n", "<e a='1'/>", "&#x20AC;", "\u20ac"]) + "y" * 100 + "</r>"
            out.append(("option-lowwater-%d" % lw, api, rng.choice(["I", "W", "D", "S"]), "never", "n;L%d" % lw, body.encode("utf-8")))
    return out


REGEX_PIECES = ["a", "b", ".", "\\d", "\\w", "\\s", "\\i", "\\c", "\\D", "\\n", "\\-", "\\p{L}", "\\p{Lu}", "\\P{Nd}", "\\p{IsBasicLatin}", "\\p{IsGreek}",
                "\\p{IsNoSuchBlock}", "\\P{Xx}", "\\p{}", "\\p{L", "\\pL", "\\p", "\\P{IsNoSuch}", "\\p{Lx}", "[a-z]", "[^a]", "[\\p{L}]", "[\\p{IsNoSuchBlock}]+",
                "[a-z\\P{Xx}]", "[\\P{IsNoSuch}a]", "[^\\p{Qq}]", "[\\p{L}-[\\p{Lu}]]", "[a-z-[aeiou]]", "[a-z-[\\p{Zz}]]", "[\\p{}]", "[\\p{L]", "[\\p]", "[abc", "[", "[]",
                "[^]", "[a-]", "[z-a]", "[a-z-]", "[-a]", "[a--b]", "[\\d-z]", "]", "{2}", "{2,}", "{2,1}", "{,3}", "{", "{99999999999}", "*", "+", "?", "*+", "??",
                "(", ")", "(a|b)", "(?", "(?:a)", "|", "||", "^", "$", "\\", "\\z", "&#x10FFFF;", "&#xD7FF;", "\\p{IsHighSurrogates}", "[&#x10000;-&#x10FFFF;]"]


def pattern_cases(rng, thorough):
    """xs:pattern facets (regular expressions straight from a schema document): known / unknown \\p{..} \\P{..} names inside and
    outside bracket expressions, unterminated classes, bad quantifiers ... must be reported through the error handler"""
    pats = []
    names = ["L", "Lu", "Nd", "IsBasicLatin", "IsGreek", "IsNoSuchBlock", "Xx", "", "Is", "IsBasicLatinX", "L}", "Cn", "IsPrivateUse", "IsSpecials"]
    for nm in names:
        for pp in ("p", "P"):
            e = "\\%s{%s}" % (pp, nm)
            pats += [e, e + "+", "[" + e + "]", "[" + e + "]+", "[a-z" + e + "]", "[^" + e + "]", "[" + e + "-[a]]", "[a-z-[" + e + "]]", "(" + e + "|x)*"]
    for _ in range(300 if not thorough else 20000):
        pats.append("".join(rng.choice(REGEX_PIECES) for _ in range(rng.randrange(1, 6))))
    out = []
    cfgs = [("sax2", "I", "always", "ns"), ("dom", "S", "always", "nsf"), ("sax", "S", "auto", "ns"), ("domls", "I", "always", "nsf")]
    for k, pt in enumerate(pats):
        v = pt.replace("&", "&amp;").replace("&amp;#x", "&#x").replace("<", "&lt;").replace('"', "&quot;")
        sch = ('<xs:schema xmlns:xs="http://www.w3.org/2001/XMLSchema"><xs:simpleType name="T"><xs:restriction base="xs:string">'
               '<xs:pattern value="%s"/></xs:restriction></xs:simpleType><xs:element name="r" type="T"/></xs:schema>' % v).encode("utf-8")
        doc = b'<r xmlns:xsi="http://www.w3.org/2001/XMLSchema-instance" xsi:noNamespaceSchemaLocation="s.xsd">abc</r>'
        out.append(("pattern", doc, sch, cfgs[k % 4]))
    return out


def cycle_cases():
    """TERMINATION on cyclic composition (deterministic, every run): xs:include / xs:import / xs:redefine cycles of length
    1, 2, 3 that close at the top-level schema document and BELOW it (an included document that includes itself,
    top -> p -> q -> p, ...), same / different / absent target namespaces, reached through loadGrammar (SAX2XMLReader,
    XercesDOMParser) and through xsi:schemaLocation / xsi:noNamespaceSchemaLocation during a validating parse; plus cyclic
    external parameter / general entity references.  Every document is served by name by the in-memory resolver
    (extspec "name:HEX|name:HEX").  Oracle: as for every parse -- no sanitizer report, no crash (stack overflow), CPU-time
    bound; with or without errors.  yields (kind, request)"""
    XS = 'xmlns:xs="http://www.w3.org/2001/XMLSchema"'
    topo = {"top1": [("top", "top")], "top2": [("top", "p"), ("p", "top")], "top3": [("top", "p"), ("p", "q"), ("q", "top")],
            "low1": [("top", "p"), ("p", "p")], "low2": [("top", "p"), ("p", "q"), ("q", "p")],
            "low3": [("top", "p"), ("p", "q"), ("q", "r"), ("r", "p")]}
    out = []

    def multi(docs):
        return "|".join("%s:%s" % (n, hx(b)) for n, b in sorted(docs.items()))

    def build(kind, edges, nsmode):
        names = sorted({a for a, _ in edges} | {b for _, b in edges})
        docs = {}
        for n in names:
            if kind == "import":
                tns = "urn:%s" % n
            elif nsmode == "ns":
                tns = "urn:t"
            elif nsmode == "chameleon":
                tns = "urn:t" if n == "top" else None
            else:
                tns = None
            body = ""
            for a, b in edges:
                if a != n:
                    continue
                if kind == "include":
                    body += '<xs:include schemaLocation="%s.xsd"/>' % b
                elif kind == "redefine":
                    body += '<xs:redefine schemaLocation="%s.xsd"/>' % b
                elif kind == "import":
                    body += '<xs:import namespace="urn:%s" schemaLocation="%s.xsd"/>' % (b, b)
                else:   # mixed: include below the top, import from the top
                    body += ('<xs:import namespace="urn:t2" schemaLocation="%s.xsd"/>' % b) if a == "top" else \
                            ('<xs:include schemaLocation="%s.xsd"/>' % b)
            if kind == "mixed":
                tns = "urn:t" if n == "top" else "urn:t2"
            docs[n + ".xsd"] = ('<xs:schema %s%s>%s<xs:element name="e_%s" type="xs:string"/><xs:simpleType name="T_%s">'
                                '<xs:restriction base="xs:string"/></xs:simpleType></xs:schema>'
                                % (XS, (' targetNamespace="%s"' % tns) if tns else "", body, n, n)).encode()
        return docs, ("urn:top" if kind == "import" else "urn:t" if (nsmode in ("ns", "chameleon") or kind == "mixed") else None)

    k = 0
    for kind in ("include", "import", "redefine", "mixed"):
        for tname, edges in sorted(topo.items()):
            if kind == "mixed" and not tname.startswith("low"):
                continue
            nsmode = ["none", "ns", "chameleon"][k % 3]
            docs, tns = build(kind, edges, nsmode)
            ext = multi(docs)
            # (a) loadGrammar
            api, sc = [("sax2", "I"), ("dom", "I"), ("sax2", "S"), ("dom", "S")][k % 4]
            fl = ["ns", "nsf", "nsx"][k % 3]
            out.append(("cycle-load-%s-%s" % (kind, tname), "load %s %s always %s 0 %s %s" % (api, sc, fl, hx(docs["top.xsd"]), ext)))
            # (b) validating parse with a schema location hint
            if tns:
                inst = ('<t:e_top xmlns:t="%s" xmlns:xsi="http://www.w3.org/2001/XMLSchema-instance" xsi:schemaLocation="%s top.xsd">x</t:e_top>' % (tns, tns)).encode()
            else:
                inst = b'<e_top xmlns:xsi="http://www.w3.org/2001/XMLSchema-instance" xsi:noNamespaceSchemaLocation="top.xsd">x</e_top>'
            api, sc = [("sax", "I"), ("dom", "S"), ("sax2", "I"), ("domls", "I"), ("sax", "S")][k % 5]
            out.append(("cycle-parse-%s-%s" % (kind, tname), "parse %s %s %s %s 0 %s %s" % (api, sc, ["always", "auto"][k % 2], fl, hx(inst), ext)))
            k += 1
    # cyclic external parameter entities (external subset a.dtd <-> b.dtd) and external general entities x.ent <-> y.ent
    dtds = {"a.dtd": b'<!ELEMENT r ANY><!ENTITY % b SYSTEM "b.dtd">%b;', "b.dtd": b'<!ENTITY % a SYSTEM "a.dtd">%a;',
            "s.dtd": b'<!ELEMENT r ANY><!ENTITY % s SYSTEM "s.dtd">%s;'}
    for i, (sysid, conf) in enumerate([("a.dtd", ("sax", "I", "always", "d")), ("a.dtd", ("dom", "D", "auto", "dx")),
                                       ("s.dtd", ("sax2", "I", "always", "dn")), ("s.dtd", ("domls", "D", "always", "d"))]):
        out.append(("cycle-pe", "parse %s %s %s %s 0 %s %s" % (conf + (hx(b'<!DOCTYPE r SYSTEM "%s"><r/>' % sysid.encode()), multi(dtds)))))
    ents = {"x.ent": b"<a>&y;</a>", "y.ent": b"t&x;", "z.ent": b"&z;"}
    gdoc = b'<!DOCTYPE r [<!ELEMENT r ANY><!ELEMENT a ANY><!ENTITY x SYSTEM "x.ent"><!ENTITY y SYSTEM "y.ent"><!ENTITY z SYSTEM "z.ent">]><r>&x;&z;</r>'
    for conf in (("sax", "I", "never", "-"), ("dom", "D", "always", "x"), ("sax2", "W", "never", "n"), ("dom", "I", "auto", "e")):
        out.append(("cycle-ge", "parse %s %s %s %s 0 %s %s" % (conf + (hx(gdoc), multi(ents)))))
    return out


def gen_cases(ctx, consts):
    rng = ctx.rng
    thorough = ctx.tier == "thorough"
    CB, RB = consts["kCharBufSize"], consts["kRawBufSize"]
    apis = ["sax", "sax2", "dom", "domls"]
    scanners = ["I", "W", "D", "S"]
    vals = ["never", "auto", "always"]
    cases = []

    def cfg(base_flags):
        fl = set(base_flags.replace("-", ""))
        for f in "nsfxde":
            if rng.random() < 0.35:
                fl.add(f)
        return rng.choice(apis), rng.choice(scanners), rng.choice(vals), "".join(sorted(fl)) or "-"

    def add(kind, doc_parts, ext, base_flags, chunks="0", conf=None):
        a, s, v, f = conf or cfg(base_flags)
        cases.append((kind, "parse %s %s %s %s %s %s %s" % (a, s, v, f, chunks, spec_of(doc_parts), hx(ext))))

    # 0a. termination on cyclic schema / entity composition (deterministic part)
    cases.extend(cycle_cases())
    # 0. capacity thresholds of validators / scanner structures (deterministic part)
    for kind, doc, ext, cfgs in capacity_cases():
        for conf in cfgs:
            cases.append(("capacity-" + kind, "parse %s %s %s %s 0 %s %s" % (conf[0], conf[1], conf[2], conf[3], hx(doc), hx(ext))))
    # 0b. histories: several documents through ONE parser object
    for kind, api, sc, val, fl, docs in history_cases(rng, thorough):
        cases.append(("history-" + kind, "hist %s %s %s %s 0 %s" % (api, sc, val, fl, " ".join("%s %s" % (hx(d), hx(e)) for d, e in docs))))
    # 0b'. the same kind of history after an ABORTED parse (the answers are also compared with fresh parsers, see run())
    for api, sc, val, fl, docs in abort_reuse_groups(rng, thorough):
        cases.append(("history-abort", "hist %s %s %s %s 0 %s" % (api, sc, val, fl, " ".join("%s -" % hx(d) for d in docs))))
    # 0b''. parser options changing the buffer geometry
    for kind, api, sc, val, fl, doc in option_cases(rng, thorough):
        cases.append((kind, "parse %s %s %s %s 0 %s -" % (api, sc, val, fl, hx(doc))))
    # 0c'. regular expressions of xs:pattern facets
    for kind, doc, sch, conf in pattern_cases(rng, thorough):
        cases.append((kind, "parse %s %s %s %s 0 %s %s" % (conf[0], conf[1], conf[2], conf[3], hx(doc), hx(sch))))
    # 0c. malformed schemas
    for kind, doc, sch, cfgs in schema_cases(rng, thorough):
        for conf in cfgs:
            cases.append((kind, "parse %s %s %s %s 0 %s %s" % (conf[0], conf[1], conf[2], conf[3], hx(doc), hx(sch))))
    corp = corpus(rng)
    # 1. every corpus document under the full configuration matrix (valid / nearly valid inputs)
    for name, doc, ext, fl in corp:
        for a in apis:
            for s in scanners:
                add("valid-" + name, [doc], ext, fl, conf=(a, s, rng.choice(vals), "".join(sorted(set(fl.replace("-", "") + rng.choice(["", "x", "n", "ns", "nsf", "e"])))) or "-"))
    # 2. truncation at every byte of the small documents (seeded subset in quick)
    for name, doc, ext, fl in corp:
        cut = list(range(len(doc)))
        if not thorough:
            rng.shuffle(cut)
            cut = cut[:40]
        for k in cut:
            add("trunc-" + name, [doc[:k]], ext, fl, chunks=rng.choice(["0", "1", "7"]))
        if ext:
            cut = list(range(len(ext)))
            rng.shuffle(cut)
            for k in cut[:30 if not thorough else 400]:
                add("trunc-ext-" + name, [doc], ext[:k], fl + "d")
    # 3. mutations of document and of the external entity
    n_mut = 800 if not thorough else 50000
    for _ in range(n_mut):
        name, doc, ext, fl = rng.choice(corp)
        which = rng.random()
        d2 = mutate(rng, doc) if which < 0.75 or not ext else doc
        e2 = mutate(rng, ext) if ext and which >= 0.55 else ext
        add("mut-" + name, [d2], e2, fl, chunks=rng.choice(["0", "0", "3", "1:64"]))
    # 4. lone / misordered surrogates and odd lengths in UTF-16 and UCS-4 documents
    for _ in range(120 if not thorough else 3000):
        units = [0x3C, 0x72, 0x3E] + [rng.choice([0x41, 0xD800, 0xDBFF, 0xDC00, 0xDFFF, 0xFFFE, 0xFFFF, 0x3C, 0x26, 0x0D, 0xD840])
                                      for _ in range(rng.randrange(1, 12))] + [0x3C, 0x2F, 0x72, 0x3E]
        enc = rng.choice(["utf-16-le", "utf-16-be", "utf-32-le", "utf-32-be"])
        w = 2 if "16" in enc else 4
        b = b"".join(u.to_bytes(w, "little" if enc.endswith("le") else "big") for u in units)
        if rng.random() < 0.3:
            b = b[:len(b) - rng.randrange(1, w)]
        if rng.random() < 0.5:
            b = (b"\xff\xfe" if enc == "utf-16-le" else b"\xfe\xff" if enc == "utf-16-be" else
                 b"\xff\xfe\x00\x00" if enc == "utf-32-le" else b"\x00\x00\xfe\xff") + b
        add("surrogates-" + enc, [b], b"", "-")
    # 5. constructs across the refill points, growth thresholds of XMLBuffer (1023) / ElemStack (32)
    for k in range(40 if not thorough else 600):
        base = rng.choice([CB, RB, 2 * CB])
        d = rng.randrange(-3, 4)
        tail = rng.choice([b"<a b='\xe2\x82\xac'/>", b"\xf0\x90\x8d\x88", b"\r\n", b"<!-- x -->", b"]]>", b"&#x20AC;", b"</r><x", b"<\xed\xa0\x80",
                           b"\xf0\x90", b"&", b"<a", b"<![CDATA[", b"<?p", b"\xff"])
        add("refill", [b"<r>", (b"x", max(0, base - 3 + d)), tail, rng.choice([b"</r>", b"", b"</r>\n"])], b"", "-",
            chunks=rng.choice(["0", "4096", "1:8192"]))
    for n in [30, 31, 32, 33, 39, 40, 41, 64, 200]:
        doc = b"<r>" + b"<e>" * n + b"t" + (b"</e>" * (n - rng.choice([0, 0, 1]))) + b"</r>"
        add("depth", [doc], b"", "n")
    for n in [1021, 1022, 1023, 1024, 1025, 2046, 2047, 2048, 2049, 4100]:
        add("buf-name", [b"<" + b"n" * n + b"/>"], b"", "-")
        add("buf-attr", [b"<r a='" + b"v" * n + b"'/>"], b"", "n")
        add("buf-text", [b"<r>" + b"t" * n + b"&amp;</r>"], b"", "-")
        add("buf-pi", [b"<?" + b"p" * n + b" d?><r/>"], b"", "-")
    # 6. UCS-4 document with BOM that fills the raw buffer (doInitDecode BOM removal)
    for be in (True, False):
        bom = b"\x00\x00\xfe\xff" if be else b"\xff\xfe\x00\x00"
        enc = "utf-32-be" if be else "utf-32-le"
        head = "<?xml version='1.0' encoding='UCS-4'?><r>".encode(enc)
        for total in (RB - 8, RB, RB + 4, RB + 400):
            npad = max(0, (total - len(bom) - len(head)) // 4 - 4)
            add("ucs4-bom-full", [bom, head, ("x".encode(enc), npad), "</r>".encode(enc)], b"", "-")
    return cases


# ------------------------------------------------------------------------------------------------
def nonascii_encoding_decl(request):
    """attribution predicate of F33: some document of the request has an XML declaration whose encoding value contains a
    non-ASCII character"""
    import re
    f = request.split()
    for spec in f[6::2]:
        if spec == "-":
            continue
        try:
            b = b"".join(bytes.fromhex(seg.split("*")[0]) * int(seg.split("*")[1]) if "*" in seg else bytes.fromhex(seg) for seg in spec.split(","))
        except Exception:
            continue
        head = b[:400]
        for codec in ("utf-16-le", "utf-16-be", "utf-8", "latin-1", "utf-32-le", "utf-32-be"):
            t = head.decode(codec, "replace")
            m = re.search(r"encoding\s*=\s*(['\"])(.*?)(\1|$)", t, re.S)
            if m and any(ord(ch) >= 0x80 for ch in m.group(2)):
                return True
    return False


KNOWN_PREDICATES = {"nonascii_encoding_decl": nonascii_encoding_decl}


def run_watchdog(binpath, lines, env):
    """run the harness; returns (answers, status, stderr) where status in ok|crash|hang; one answer per request line.
    hang = the harness used more than CASE_TIMEOUT seconds of CPU time on one request (independent of the load of the
    machine) or did not answer within WALL_TIMEOUT seconds of wall-clock time"""
    e = dict(os.environ)
    e.update(env)
    p = subprocess.Popen([binpath], stdin=subprocess.PIPE, stdout=subprocess.PIPE, stderr=subprocess.PIPE, env=e)
    data = ("\n".join(lines) + "\n").encode()

    def feed():
        try:
            p.stdin.write(data)
            p.stdin.close()
        except Exception:
            pass
    errbuf = []

    def drain():
        try:
            errbuf.append(p.stderr.read())
        except Exception:
            pass
    threading.Thread(target=feed, daemon=True).start()
    tdrain = threading.Thread(target=drain, daemon=True)
    tdrain.start()
    answers = []
    buf = b""
    status = "ok"
    fd = p.stdout.fileno()
    last = time.time()
    last_cpu = 0.0
    while len(answers) < len(lines):
        r, _, _ = select.select([fd], [], [], 1.0)
        if r:
            chunk = os.read(fd, 65536)
            if not chunk:
                status = "crash"
                try:
                    p.wait(timeout=5)
                except Exception:
                    pass
                break
            buf += chunk
            while b"\n" in buf:
                ln, buf = buf.split(b"\n", 1)
                answers.append(ln.decode("ascii", "replace"))
                last = time.time()
                last_cpu = cpu_seconds(p.pid) or last_cpu
        else:
            cpu = cpu_seconds(p.pid)
            wall = time.time() - last
            if (cpu is not None and cpu - last_cpu > CASE_TIMEOUT) or (cpu is None and wall > CASE_TIMEOUT) or wall > WALL_TIMEOUT:
                status = "hang"
                break
    try:
        p.kill()
    except Exception:
        pass
    p.wait()
    tdrain.join(5.0)
    err = (errbuf[0] if errbuf else b"").decode("utf-8", "replace")
    if status == "ok" and len(answers) < len(lines):
        status = "crash"
    return answers, status, err


def container_cases(rng, g):
    """seeded operation sequences aimed at the case splits of Proofs01g.v: capacities 0..5 (where x1.25 / x1.5 truncate to
    no growth), the points where the percentage growth overtakes count+1, inserts at 0 / middle / count / count+1 (throws),
    ensureExtraCapacity around capacity-count, rehash thresholds 3/4 of the moduli 2m+1, the 64 / 96 / 144 steps of the
    string pool and size-1 / size / 1.5 x size of the id pool"""
    out = []
    for kind in ("vv", "rv"):
        for t in range(40):
            cap = rng.choice([0, 0, 1, 2, 3, 4, 5, 8, 10, 16, rng.randrange(0, 70)])
            ops, cur, mx = [], 0, cap
            for _ in range(rng.choice([12, 40, 90, 160])):
                r = rng.random()
                if r < 0.55:
                    ops.append("a"); cur += 1
                elif r < 0.70:
                    at = rng.choice([0, cur // 2, cur, cur, cur + 1, cur + 7, max(cur - 1, 0)])
                    ops.append("i%d" % at)
                    if at <= cur:
                        cur += 1
                elif r < 0.82:
                    at = rng.choice([0, cur // 2, max(cur - 1, 0), cur, cur + 3])
                    ops.append("r%d" % at)
                    if at < cur:
                        cur -= 1
                elif r < 0.97:
                    ops.append("e%d" % rng.choice([0, 1, 2, 3, max(cur // 4 - 1, 0), cur // 4, cur // 4 + 1, cur // 2, cur // 2 + 1, rng.randrange(0, 200)]))
                else:
                    ops.append("c"); cur = 0
            out.append((kind, "%s %d %s" % (kind, cap, " ".join(ops))))
    for md in (1, 2, 3, 4, 5, 7, 11, 29, 109, rng.randrange(1, 200)):
        out.append(("ht", "ht %d %d" % (md, rng.choice([0, 1, 2, 3, 50, 200, 400]))))
        out.append(("ht", "ht %d %d" % (md, 3 * md // 4 + rng.choice([0, 1, 2, 3]))))
    c0 = g["spInitCap"]
    for n in sorted({0, 1, c0 - 2, c0 - 1, c0, c0 + 1, c0 * 3 // 2 - 1, c0 * 3 // 2, c0 * 3 // 2 + 1, c0 * 9 // 4, c0 * 9 // 4 + 1, 700,
                     rng.randrange(0, 3000)}):
        out.append(("sp", "sp %d" % n))
    for init in sorted({0, 2, 3, 4, 5} | set(g["nipCallSizes"]) | {rng.randrange(2, 300)}):
        eff = init or g["nipDefault"]
        for n in sorted({0, 1, 2, 3, eff - 2, eff - 1, eff, eff + 1, eff * 3 // 2 - 1, eff * 3 // 2, eff * 3 // 2 + 2, rng.randrange(0, 900)}):
            if n >= 0:
                out.append(("nip", "nip %d %d" % (init, n)))
    return out


def container_trace_safe(ans):
    """Spec oracle on an implementation answer of vv / rv: count <= capacity after every operation"""
    for tok in ans.split()[1:]:
        f = tok.split("/")
        if len(f) == 3 and f[0].isdigit() and f[1].isdigit() and int(f[0]) > int(f[1]):
            return False
    return True


def container_correspondence(ctx, g):
    t0 = time.time()
    if not os.path.exists(os.path.join(V.VERIF, "ocaml", "C01", "gen_c01.ml")):
        ctx.violation("extraction", {"what": "extracted container model missing (theories/C01/Extract_C01.v did not build)"}, no_input=True)
        return
    xm = ctx.ocaml("C01", ["gen_c01"])
    xh = ctx.harness("C01g", variant="lib-asan")
    cases = container_cases(ctx.rng, g)
    reqs = [c[1] for c in cases]
    import C04 as C4
    _, model, _ = C4.run_bin(xm, reqs)
    if len(model) != len(reqs):
        ctx.violation("container-model", {"what": "extracted container model answered %d of %d requests" % (len(model), len(reqs))}, no_input=True)
        return
    pos, ndiv, benign = 0, 0, []
    kinds = {}
    while pos < len(reqs) and ndiv < 4:
        ans, status, err = run_watchdog(xh, reqs[pos:], SAN_ENV)
        for k, a in enumerate(ans):
            i = pos + k
            ctx.count()
            kinds[cases[i][0]] = kinds.get(cases[i][0], 0) + 1
            if len(reqs[i].split()) > 4 or cases[i][0] in ("sp", "nip"):
                ctx.distinct(reqs[i])
            if a != model[i]:
                if a.startswith("ok") and container_trace_safe(a) and not a.startswith("ok MODEL"):
                    benign.append(i)
                    ctx.note("container divergence (implementation trace still satisfies count<=capacity): %s impl=%s model=%s"
                             % (reqs[i][:120], a[:160], model[i][:160]))
                else:
                    ndiv += 1
                    ctx.violation("container-divergence", {"request": reqs[i], "impl": a, "model": model[i], "expect": model[i],
                                                           "what": "container of util/ answers differently from the model that "
                                                                   "T01_grow_* is proved about and violates count <= capacity / loses an element"})
        pos += len(ans)
        if status == "ok":
            break
        ndiv += 1
        ctx.violation("sanitizer" if status == "crash" else "hang",
                      {"request": reqs[pos] if pos < len(reqs) else None, "status": status, "stderr": err[-4000:], "tag": "sanitizer",
                       "what": "sanitizer report / crash / hang while driving a growable container of util/"})
        pos += 1
    if benign and not ndiv:
        i = benign[0]
        ctx.violation("correspondence", {"request": reqs[i], "model": model[i], "divergences": len(benign),
                                         "what": "the containers no longer follow the model T01_grow_* is proved about (capacity traces "
                                                 "differ) although no access outside an allocation was observed"}, no_input=True)
    ctx.coverage["container_correspondence"] = {"requests": len(reqs), "by_kind": kinds, "benign_divergences": len(benign)}
    ctx.note("container correspondence under sanitizers: %d requests, %.1fs" % (pos, time.time() - t0))


def run(ctx):
    t0 = time.time()
    ctx.coverage["trusted_base"] = list(V.GLOBAL_TRUSTED_BASE) + [
        "clang AddressSanitizer + UndefinedBehaviorSanitizer (-fsanitize=address,undefined) as the oracle of the exploration part",
        "modelled rather than verified: only XMLReader's buffering/scanning primitives and the XMLBuffer/ElemStack capacity "
        "arithmetic are covered by theorems; allocator, object lifetimes, scanners, DTD/schema validators are exploration"]
    ctx.assumptions = ["BinInputStream::readBytes returns 0 only at the end of the input",
                       "size_t arithmetic does not wrap for inputs below 2^51 bytes (growth arithmetic is modelled in N)",
                       "leaks are not a C01 violation (detect_leaks=0; property C18)"]
    ctx.build_lib()
    try:
        data = TC.generate()
    except Exception as e:
        ctx.note("translator failed: %r" % (e,))
        ctx.violation("translator", {"what": "translator can no longer read the reader / growth constants", "error": repr(e)},
                      no_input=True)
        return
    consts = data["consts"]
    try:
        gconsts = TG.generate()
    except Exception as e:
        ctx.note("translator c01_grow failed: %r" % (e,))
        ctx.violation("translator", {"what": "translator/c01_grow.py no longer recognises the growth code of ValueVectorOf / "
                                             "BaseRefVectorOf / RefHashTableOf / XMLStringPool / NameIdPool", "error": repr(e)},
                      no_input=True)
        return
    ok, out, failed = ctx.prove(["Base", "Gen", "C05", "C04", "C01"],
                                ["theories/C01/Properties_C01.vo", "theories/C04/Extract_C04.vo", "theories/C01/Extract_C01.vo"],
                                props_file="theories/C01/Properties_C01.v")
    proof_broken = not ok
    if proof_broken:
        ctx.note("proof obligations failed: %s" % failed)
        ctx.note(out[-1500:])
    ctx.build_lib("lib-asan")
    xh = ctx.harness("C01", variant="lib-asan")
    xh04 = ctx.harness("C04", variant="lib-asan")
    # the extracted reader model is produced by THIS check (Extract_C04.vo is a prove target above): a missing extraction
    # is a broken tie, never a silent skip of the reader-level correspondence
    if not os.path.exists(os.path.join(V.VERIF, "ocaml", "C04", "gen_c04.ml")):
        ctx.violation("extraction", {"what": "extracted reader model missing (theories/C04/Extract_C04.v did not build): the "
                                             "reader-level correspondence for T01_reader_inv cannot run",
                                     "output": out[-2000:]}, no_input=True)
        return
    xm = ctx.ocaml("C04", ["gen_c04"])

    if ctx.replay:
        r = json.load(open(ctx.replay))
        req = r["request"]
        binp = xh04 if req.startswith("rd ") else xh
        if req.split()[0] in ("vv", "rv", "ht", "sp", "nip"):
            binp = ctx.harness("C01g", variant="lib-asan")
        ans, status, err = run_watchdog(binp, [req], SAN_ENV)
        ctx.note("replay: %s %s" % (status, ans))
        if status != "ok" or (ans and ans[0].startswith("FOREIGN")) or (r.get("expect") and ans != [r["expect"]]):
            ctx.violation(r.get("tag", "replay"), dict(r, status=status, answers=ans, stderr=err[-3000:]))
        return

    # ---- 1. reader-level correspondence under ASan/UBSan: F1 witness + seeded operation scripts --------------------
    import C04 as C4
    rcases = [("F1", C4.F1_WITNESS)] + C4.gen_reader_cases(ctx, consts)
    rcases = [c for c in rcases if c[0] == "F1"] + [c for c in rcases if c[0].startswith("pairs")][:6] + \
             [c for c in rcases if c[0].startswith("suppname")][:20] + \
             [c for c in rcases if c[0].startswith("rand")][:100] + [c for c in rcases if c[0].startswith("slide")][:4]
    rreqs = [c[1] for c in rcases]
    ans, status, err = run_watchdog(xh04, rreqs, SAN_ENV)
    ctx.count(len(ans))
    if status != "ok":
        bad = rreqs[len(ans)] if len(ans) < len(rreqs) else None
        ctx.violation("reader-" + status, {"request": bad, "status": status, "stderr": err[-4000:],
                                           "what": "sanitizer report / crash / hang while driving XMLReader operations"})
    else:
        _, model, _ = C4.run_bin(xm, C4.model_lines(True, True, rreqs))
        model = model[3:]
        if len(model) != len(ans):
            ctx.violation("reader-model", {"what": "extracted reader model answered %d of %d requests" % (len(model), len(ans))},
                          no_input=True)
        ndiv = 0
        for k, (a, m) in enumerate(zip(ans, model)):
            if a != m:
                ndiv += 1
                if ndiv <= 3:
                    ctx.violation("reader-divergence", {"request": rreqs[k], "impl": a, "model": m, "expect": m,
                                                        "what": "XMLReader under ASan differs from the model for which "
                                                                "T01_reader_inv is proved"})
        ctx.coverage["traces_validated_against_impl"] = len(ans)
    ctx.note("reader-level under sanitizers: %d requests, %.1fs" % (len(ans), time.time() - t0))

    # ---- 1b. container-growth correspondence (T01_grow_vv/rv/ht/sp/nip): extracted model vs. the ASan/UBSan library ----
    container_correspondence(ctx, gconsts)

    # ---- 2. exploration: malformed documents x APIs x scanners x configurations ---------------------------------
    t1 = time.time()
    cases = gen_cases(ctx, consts)
    # findings listed as known: replay the witness (KNOWN-FINDING only if it reproduces), leave exactly its class out
    f25, f26 = ctx.find_known("F25"), ctx.find_known("F26")
    w25 = "parse sax I never n 0 3C7220786D6C6E733A703D2275222F3E -"
    a25, s25, e25 = run_watchdog(xh, [w25], SAN_ENV)
    ctx.count()
    rep25 = s25 == "crash" and "ElemStack" in e25 and "null pointer passed as argument" in e25
    if rep25:
        if f25:
            ctx.known_finding("F25", "ElemStack::expandMap: memcpy with a null source pointer (size 0) on the first prefix "
                              "mapping -- UBSan report reproduced with `%s`" % w25)
        else:
            ctx.violation("sanitizer", {"request": w25, "stderr": e25[-3000:], "status": s25,
                                        "what": "UBSan: memcpy(dst, NULL, 0) in ElemStack::expandMap"})
    elif s25 != "ok":
        ctx.violation("sanitizer", {"request": w25, "stderr": e25[-3000:], "status": s25, "what": "witness request failed"})
    w26 = [c[1] for c in cases if c[0] == "ucs4-bom-full"]
    rep26 = 0
    for w in w26:
        a, st_, e_ = run_watchdog(xh, [w], SAN_ENV)
        ctx.count()
        if st_ == "crash" and "doInitDecode" in e_ and "out of bounds" in e_:
            rep26 += 1
            if not f26:
                ctx.violation("sanitizer", {"request": w, "stderr": e_[-3000:], "status": st_,
                                            "what": "UBSan: fRawByteBuf read out of bounds in XMLReader::doInitDecode (UCS-4 BOM)"})
                break
        elif st_ != "ok" or (a and a[0].startswith("FOREIGN")):
            ctx.violation("sanitizer", {"request": w, "stderr": e_[-3000:], "status": st_, "answers": a,
                                        "what": "UCS-4 document with BOM: crash / sanitizer report / foreign exception"})
            break
    if rep26 and f26:
        ctx.known_finding("F26", "XMLReader::doInitDecode reads fRawByteBuf beyond kRawBufSize while removing a UCS-4 BOM "
                          "(%d of %d generated raw-buffer-filling UCS-4 documents; UBSan bounds report)" % (rep26, len(w26)))
    cases = [c for c in cases if c[0] != "ucs4-bom-full"]

    # F27: NamespaceScope::expandMap (schema load) -- same handling
    f27 = ctx.find_known("F27")
    w27 = next((c[1] for c in cases if c[0] == "valid-xsd" and " sax I " in c[1]), None)
    rep27 = False
    if w27:
        w27 = " ".join(w27.split()[:3] + ["always", "ns"] + w27.split()[5:])
        a27, s27, e27 = run_watchdog(xh, [w27], SAN_ENV)
        ctx.count()
        rep27 = s27 == "crash" and "NamespaceScope" in e27 and "null pointer passed as argument" in e27
        if rep27:
            if f27:
                ctx.known_finding("F27", "NamespaceScope::expandMap: memcpy with a null source pointer (size 0) during schema "
                                  "traversal -- UBSan report reproduced with the valid-xsd corpus document")
            else:
                ctx.violation("sanitizer", {"request": w27, "stderr": e27[-3000:], "status": s27,
                                            "what": "UBSan: memcpy(dst, NULL, 0) in NamespaceScope::expandMap"})
        elif s27 != "ok":
            ctx.violation("sanitizer", {"request": w27, "stderr": e27[-3000:], "status": s27, "what": "witness request failed"})
    if f27 and rep27:
        n0 = len(cases)
        # class: schema processing on and the document carries a schema location hint (a schema document gets loaded)
        cases = [c for c in cases if not ("s" in c[1].split()[4] and "536368656D614C6F636174696F6E" in c[1].split()[6])]
        ctx.note("F27 listed as known: %d of %d generated cases of its class left out" % (n0 - len(cases), n0))

    def in_f25_class(req):
        f = req.split()
        return ("n" in f[4] or "s" in f[4]) and ("786D6C6E73" in f[6])      # namespaces on and 'xmlns' in the document
    if f25 and rep25:
        n0 = len(cases)
        cases = [c for c in cases if not in_f25_class(c[1])]
        ctx.note("F25 listed as known: %d of %d generated cases of its class left out" % (n0 - len(cases), n0))
    reqs = [c[1] for c in cases]
    pos = 0
    kinds = {}
    outcome = {"ok-clean": 0, "ok-errors": 0, "exc": 0}
    cfgs = set()
    nviol = 0
    known_sig = {}
    answers_all = {}
    while pos < len(reqs) and nviol < 5:
        ans, status, err = run_watchdog(xh, reqs[pos:], SAN_ENV)
        for k, a in enumerate(ans):
            answers_all[pos + k] = a
            kind = cases[pos + k][0].split("-")[0]
            kinds[kind] = kinds.get(kind, 0) + 1
            ctx.count()
            f = reqs[pos + k].split()
            cfgs.add((f[1], f[2], f[3], f[4]))
            if a.startswith("hist "):
                parts = a[5:].split(";")
                if any(x.startswith("FOREIGN") for x in parts):
                    nviol += 1
                    ctx.violation("foreign-exception", {"request": reqs[pos + k], "answer": a, "kind": cases[pos + k][0],
                                                        "what": "exception type outside the documented Xerces exception classes"})
                else:
                    outcome["history"] = outcome.get("history", 0) + 1
                    ctx.count(len(parts) - 1)
                    if any(not x.startswith("ok 0") for x in parts):
                        ctx.distinct(reqs[pos + k])
            elif a.startswith("ok 0"):
                outcome["ok-clean"] += 1
            elif a.startswith("ok"):
                outcome["ok-errors"] += 1
                ctx.distinct(reqs[pos + k])
            elif a.startswith("exc"):
                outcome["exc"] += 1
                ctx.distinct(reqs[pos + k])
            else:
                nviol += 1
                ctx.violation("foreign-exception", {"request": reqs[pos + k], "answer": a, "kind": cases[pos + k][0],
                                                    "what": "exception type outside the documented Xerces exception classes"})
        pos += len(ans)
        if status == "ok":
            break
        # the request at `pos` crashed, tripped a sanitizer or hung
        sig_hit = None
        if status == "crash":
            for f in ctx.known:
                sig = f.get("signature")
                pred = KNOWN_PREDICATES.get(f.get("request_predicate", ""))
                if sig and all(x in err for x in sig) and (pred is None or pred(reqs[pos])):
                    sig_hit = f
                    break
        if sig_hit is not None:
            known_sig[sig_hit["id"]] = known_sig.get(sig_hit["id"], 0) + 1
            kinds["known-" + sig_hit["id"]] = kinds.get("known-" + sig_hit["id"], 0) + 1
            pos += 1
            continue
        nviol += 1
        what = {"crash": "crash or sanitizer report (ASan/UBSan) while parsing", "hang": "no answer within 10 s"}[status]
        ctx.violation("sanitizer" if status == "crash" else "hang",
                      {"request": reqs[pos], "kind": cases[pos][0], "status": status,
                       "stderr": (err[:3000] + "\n[...]\n" + err[-1500:]) if len(err) > 4500 else err, "what": what})
        pos += 1
    for fid, n in sorted(known_sig.items()):
        f = ctx.find_known(fid)
        ctx.known_finding(fid, "%d generated parses end in the sanitizer report of this finding (%s)" % (n, " / ".join(f["signature"])))
    # "spurious error on a well-formed later document" oracle for the abort-reuse histories: each document of a history
    # must get the answer a FRESH parser with the same configuration gives
    hist_idx = [i for i, c in enumerate(cases) if c[0] == "history-abort" and i in answers_all]
    singles = []
    for i in hist_idx:
        f = reqs[i].split()
        for k in range(6, len(f), 2):
            singles.append("parse %s %s" % (" ".join(f[1:6]), " ".join(f[k:k + 2])))
    uniq = sorted(set(singles))
    sans, sstat, serr = run_watchdog(xh, uniq, SAN_ENV) if uniq else ([], "ok", "")
    nreuse_bad = 0
    if sstat != "ok":
        ctx.violation("sanitizer" if sstat == "crash" else "hang", {"request": uniq[len(sans)] if len(sans) < len(uniq) else None,
                                                                     "status": sstat, "stderr": serr[:4000],
                                                                     "what": "fresh-parser reference parse crashed / hung"})
    else:
        ref = dict(zip(uniq, sans))
        for i in hist_idx:
            f = reqs[i].split()
            got = answers_all[i][5:].split(";") if answers_all[i].startswith("hist ") else []
            want = [ref["parse %s %s" % (" ".join(f[1:6]), " ".join(f[k:k + 2]))] for k in range(6, len(f), 2)]
            ctx.count(len(want))
            if got != want:
                nreuse_bad += 1
                if nreuse_bad <= 3:
                    ctx.violation("history-dependence", {"request": reqs[i], "history_answers": got, "fresh_parser_answers": want,
                                                         "expect": "hist " + ";".join(want),
                                                         "what": "a parser object re-used after an aborted parse answers differently "
                                                                 "from a fresh parser (state carried across scanReset)"})
    ctx.coverage["abort_reuse"] = {"histories": len(hist_idx), "reference_parses": len(uniq), "differing": nreuse_bad}
    ctx.coverage["input_distribution"] = kinds
    ctx.coverage["outcomes"] = outcome
    ctx.coverage["configurations_exercised"] = len(cfgs)
    ctx.coverage["exploration_only"] = ("the parse sweep is exploration (no theorem covers scanners, validators, allocator, "
                                        "lifetimes); level 'proof' is claimed for T01_reader_inv / T01_grow_* only")
    for c in (cases[0], cases[len(cases) // 2], cases[-1]):
        ctx.sample({"kind": c[0], "request": c[1][:300]})
    ctx.note("exploration: %d parses, %d configurations, outcomes %s, %.1fs" % (pos, len(cfgs), outcome, time.time() - t1))
    if proof_broken and not ctx.violations:
        ctx.violation("obligation", {"what": "Coq obligation no longer checks and the exploration found no failing input",
                                     "failed": failed, "output": out[-3000:]}, no_input=True)
    ctx.coverage["rule"] = (
        "250 HISTORIES (2-4 documents through one parser object: names of growing / shrinking lengths, DTD and schema reuse with "
        "grammar caching, error documents in between, declared attributes accumulating over reparses; all scanners and APIs); a "
        "malformed-SCHEMA stream (3 base schemas covering simpleContent restriction/extension incl. the E1-27 case, groups, "
        "attribute groups, substitution groups, all-groups, identity constraints: every single-child drop + seeded drop / duplicate / "
        "move / wrong value / dangling reference / illegal child mutations, loaded through IG and SG with full checking on and off); "
        "358 deterministic capacity-threshold parses (as before plus 64..520 declared attributes PRESENT on tags -- the scanner's counter "
        "pool -- via DTD and XML Schema, and a schema grammar first switched in at element depth 14..130); formerly: "
        "240 deterministic capacity-threshold parses (exponential DFA models via DTD and XML Schema, 63..200 leaves, occurrence "
        "expansions, declared attributes / attributes on a tag / namespace prefixes / entities / nesting / depth / IDs / identity "
        "constraint rows across their growth thresholds, validation on); "
        "14 corpus documents (internal/external DTD with parameter entities and conditional sections, external entity, "
        "schema with identity constraint, namespaces, XML 1.1, UTF-16 LE/BE, ISO-8859-1, UCS-4, depth 40, 45 attributes, "
        "3000-character names) x {SAXParser, SAX2XMLReader, XercesDOMParser, DOMLSParser} x {IG, WF, DG, SG} scanners; "
        "truncation at every byte (seeded subset in quick), 8 byte-level mutation operators incl. 46 markup/encoding tokens, "
        "lone/misordered surrogates in UTF-16/UCS-4, constructs at kCharBufSize/kRawBufSize +-3, growth thresholds 1023/2047 "
        "of XMLBuffer and 32/40 of ElemStack, UCS-4 documents with BOM filling the raw buffer; validation never/auto/always, "
        "features namespaces/schema/full-checking/continue-after-fatal/load-external-DTD/entity-nodes drawn per case; a case "
        "is non-trivial when errors were reported or an exception was thrown; distinct by request")
    ctx.coverage["exhaustive"] = False
