"""C06 -- Namespace processing binds every name to the URI the declarations in scope imply.
Theorems: coq/theories/C06/Properties_C06.v (models in Model06.v; capacity constants, duplicate-check threshold and
error classes regenerated from /repo by translator/c06_consts.py).
Correspondence: bin/xh_C06 (real SAX2 / SAX1 / DOM parsers over IGXMLScanner, WFXMLScanner, SGXMLScanner; the real
ElemStack; the real DOM lookup methods) vs bin/xm_C06 (extracted model) on seeded random documents and ElemStack
operation sequences.  Oracle: the extracted *Spec* (sp_tag / inscope / sp_prefixes via `spec_doc`, stream_ok / dyck via
`spec_stream`)."""
import json
import os
import subprocess
import sys
import time

import vcommon as V

sys.path.insert(0, os.path.join(V.VERIF, "translator"))
import c06_consts as T  # noqa

XML_URI = "http://www.w3.org/XML/1998/namespace"
XMLNS_URI = "http://www.w3.org/2000/xmlns/"
NS_ERRS = {"UnknownPrefix", "NoUseOfxmlnsAsPrefix", "PrefixXMLNotMatchXMLURI", "NoEmptyStrNamespace", "NoUseOfxmlnsURI",
           "XMLURINotMatchXMLPrefix", "AttrAlreadyUsedInSTag"}
APIS = ["sax2p", "sax2", "sax1", "dom"]
SCANNERS = ["ig", "wf", "sg", "dg"]

PREFIXES = ["p%d" % i for i in range(48)] + ["x", "xm", "xmlnsx", "xmln", "XML", "xml2", "a", "q"]
LOCALS = ["a", "b", "c", "d", "e1", "xmlnsx", "item", "x"]
URIS = ["urn:u%d" % i for i in range(8)] + ["http://example.org/ns", "u"]


# ------------------------------------------------------------------------------------------------------------------
# generator: abstract documents as token lists
# ------------------------------------------------------------------------------------------------------------------
NORM_ITEMS = ["{&amp}", "{#3A}", "{#20}", "{#9}", "{#A}", "{t}", "{n}", "{r}", "{s}", "{&lt}", "{&apos}", "{&quot}", "{&gt}", "{#41}",
              "{#2F}"]


def norm_value(r, ents=()):
    """a namespace name whose written form is changed by attribute-value normalisation (XML 1.0 3.3.3): character and
    predefined-entity references, literal TAB / LF / CR, leading / trailing / inner spaces, internal entity references"""
    base = r.choice(["urn:n", "http://e.org/ns?a=1", "urn:x", "u"])
    parts = list(base) if r.random() < 0.7 else [base]
    for _ in range(r.choice([1, 1, 2, 3])):
        it = r.choice(NORM_ITEMS + ["{&%s}" % e for e in ents] * 3)
        pos = r.choice([0, len(parts), r.randrange(len(parts) + 1)])
        parts.insert(pos, it)
    out = []
    for p in parts:
        if p == "{n}" and out and out[-1] == "{r}":      # CR LF is one line end (2.11): not the subject here
            continue
        out.append(p)
    return "".join(out)


class DocGen:
    def __init__(self, rng, ver, err, profile):
        self.rng = rng
        self.ver = ver              # "10" | "11"
        self.err = err              # error kind still to inject (or None)
        self.profile = profile      # "normal" | "many" | "deep" | "huge"
        self.toks = []
        self.nelem = 0
        self.features = set()
        self.pnorm = 0.25 if rng.random() < 0.4 else 0.0      # share of declarations with a value that needs normalising
        self.ents = ()                                         # names of internal entities usable in values

    def ndecls(self):
        r = self.rng
        if self.profile == "many":
            return r.choice([14, 15, 16, 17, 18, 19, 20, 21, 22, 24, 25, 26, 27, 30, 31, 32, 36, 40])
        x = r.random()
        if x < 0.45:
            return 0
        if x < 0.9:
            return r.randrange(1, 4)
        return r.randrange(4, 12)

    def element(self, depth, scope, dflt, maxdepth):
        """scope: dict prefix -> uri ('' = un-declared); dflt: default namespace ('' = none)"""
        r = self.rng
        self.nelem += 1
        decls = []          # (prefix, uri); prefix '' = default
        used = set()
        for _ in range(self.ndecls()):
            if scope and r.random() < 0.3:
                p = r.choice(sorted(scope))          # shadow / re-declare
                self.features.add("redeclare")
            else:
                p = r.choice(PREFIXES)
            if p in used:
                continue
            used.add(p)
            if self.ver == "11" and p in scope and scope[p] and r.random() < 0.5:
                decls.append((p, ""))
                self.features.add("undeclare-prefix")
            elif r.random() < self.pnorm:
                decls.append((p, norm_value(r, self.ents)))
                self.features.add("normalised-namespace-name")
            else:
                decls.append((p, r.choice(URIS)))
        if r.random() < 0.3:
            if dflt and r.random() < 0.5:
                decls.append(("", ""))
                self.features.add("undeclare-default")
            else:
                if r.random() < self.pnorm:
                    decls.append(("", norm_value(r, self.ents)))
                    self.features.add("normalised-namespace-name")
                else:
                    decls.append(("", r.choice(URIS)))
                self.features.add("default")
        if r.random() < 0.03:
            decls.append(("xml", XML_URI))           # legal
            self.features.add("xmlns:xml")
        nscope = dict(scope)
        ndflt = dflt
        for p, u in decls:
            if p == "":
                ndflt = u
            elif p != "xml":
                nscope[p] = u
        bound = sorted(p for p in nscope if nscope[p])
        here = sorted(p for p, u in decls if p and p != "xml" and u)
        # element name
        epfx = ""
        if bound and r.random() < 0.6:
            epfx = r.choice(here) if here and r.random() < 0.6 else r.choice(bound)
            if epfx in here:
                self.features.add("prefix-declared-in-same-tag")
        eloc = r.choice(LOCALS)
        # ordinary attributes
        attrs = []
        seen = set()
        for _ in range(r.choice([0, 0, 1, 1, 2, 3, 5])):
            x = r.random()
            if x < 0.45 or not bound:
                ap, au = "", ""
            elif x < 0.55:
                ap, au = "xml", XML_URI
            else:
                ap = r.choice(here) if here and r.random() < 0.5 else r.choice(bound)
                au = nscope[ap]
            al = r.choice(LOCALS + ["lang", "id", "xmlns"]) if ap else r.choice(LOCALS + ["lang", "id"])
            if (au, al) in seen:
                continue
            seen.add((au, al))
            attrs.append((ap, al, "v%d" % r.randrange(5) if r.random() > 0.05 else "v{t}w{&amp}{#A}"))
        alist = [("xmlns", p, u) if p else ("", "xmlns", u) for p, u in decls] + attrs
        if self.profile == "huge" and self.nelem == 1:
            for i in range(r.choice([96, 99, 100, 101, 102, 110, 130])):
                alist.append(("", "n%d" % i, "v"))
            self.features.add("over-100-attributes")
        r.shuffle(alist)
        if self.profile == "mid" and self.nelem == 1:
            # 26..40 plain attributes FIRST (the set-based duplicate registries rehash at 28, 4 x 7), the rest after them
            alist = [("", "n%d" % i, "v") for i in range(r.choice([26, 27, 28, 29, 30, 35, 40]))] + alist
            self.features.add("28-or-more-attributes-first")
        # error injection
        if self.err and (r.random() < 0.35 or (depth == 0 and r.random() < 0.2)):
            epfx, alist = self.inject(self.err, epfx, alist, nscope, bound)
            self.features.add("error:" + self.err)
            self.err = None
            if self.profile == "mid" and self.nelem == 1:
                # keep the plain attributes in front, so that a colliding pair comes after at least 26 distinct names
                fill = [a for a in alist if a[0] == "" and a[1][:1] == "n" and a[1][1:].isdigit()]
                alist = fill + [a for a in alist if a not in fill]
        nkids = 0
        if depth < maxdepth:
            if self.profile == "deep":
                nkids = 1 if depth < maxdepth - 1 else 0
            else:
                nkids = r.choice([0, 0, 1, 1, 2, 3]) if self.nelem < 14 else 0
        empty = nkids == 0 and r.random() < 0.6
        tok = ["S", epfx or "-", eloc, "e" if empty else "n", str(len(alist))]
        for ap, al, av in alist:
            tok += [ap or "-", al, av or "-"]
        self.toks += tok
        if empty:
            return
        last_text = False
        for k in range(nkids):
            x = r.random()
            if x < 0.25 and not last_text:
                self.toks.append("T")
                last_text = True
            elif x < 0.35:
                self.toks.append("C")
            self.element(depth + 1, nscope, ndflt, maxdepth)
            last_text = False
        if r.random() < 0.2 and not last_text:
            self.toks.append("T")
        self.toks.append("E")

    def inject(self, kind, epfx, alist, nscope, bound):
        r = self.rng
        alist = list(alist)
        free = [p for p in PREFIXES if not nscope.get(p)]
        ins = lambda a: alist.insert(r.randrange(len(alist) + 1), a)
        if kind == "unbound_elem":
            epfx = r.choice(free)
        elif kind == "unbound_attr":
            ins((r.choice(free), "z", "1"))
        elif kind == "xmlns_xmlns":
            ins(("xmlns", "xmlns", r.choice(URIS + [XMLNS_URI])))
        elif kind == "xml_wrong":
            alist = [a for a in alist if not (a[0] == "xmlns" and a[1] == "xml")]
            ins(("xmlns", "xml", r.choice(URIS)))
        elif kind == "empty_prefix_decl":          # an error in 1.0 only
            ins(("xmlns", r.choice(free), ""))
        elif kind == "bind_xml_uri":
            ins(("xmlns", r.choice(free), XML_URI))
        elif kind == "bind_xmlns_uri":
            ins(("xmlns", r.choice(free), XMLNS_URI))
        elif kind == "default_xml_uri":
            alist = [a for a in alist if not (a[0] == "" and a[1] == "xmlns")]
            ins(("", "xmlns", XML_URI))
        elif kind == "default_xmlns_uri":
            alist = [a for a in alist if not (a[0] == "" and a[1] == "xmlns")]
            ins(("", "xmlns", XMLNS_URI))
        elif kind == "dup_raw":
            if alist and r.random() < 0.7:
                a = r.choice(alist)
                ins((a[0], a[1], "dup"))
            else:
                ins(("", "k", "1"))
                ins(("", "k", "2"))
        elif kind in ("dup_expanded", "dup_expanded_last"):
            p1, p2 = r.sample(free, 2)
            u = r.choice(URIS)
            ins(("xmlns", p1, u))
            ins(("xmlns", p2, u))
            ins((p1, "k", "1"))
            if kind == "dup_expanded_last":
                alist.append((p2, "k", "2"))
            else:
                ins((p2, "k", "2"))
        elif kind == "use_undeclared":             # meaningful in 1.1: xmlns:p="" then p used
            cand = [p for p in nscope if nscope[p]]
            p = r.choice(cand) if cand else r.choice(free)
            alist = [a for a in alist if not (a[0] == "xmlns" and a[1] == p) and a[0] != p]
            ins(("xmlns", p, ""))
            if epfx == p:
                epfx = ""
            if r.random() < 0.5:
                epfx = p
            else:
                ins((p, "z", "1"))
        elif kind == "two_errors":
            k1, k2 = r.sample(["unbound_elem", "unbound_attr", "xmlns_xmlns", "xml_wrong", "bind_xml_uri",
                               "bind_xmlns_uri", "dup_raw", "dup_expanded", "empty_prefix_decl"], 2)
            epfx, alist = self.inject(k1, epfx, alist, nscope, bound)
            epfx, alist = self.inject(k2, epfx, alist, nscope, bound)
        return epfx, alist


ERR_KINDS = ["unbound_elem", "unbound_attr", "xmlns_xmlns", "xml_wrong", "empty_prefix_decl", "bind_xml_uri",
             "bind_xmlns_uri", "default_xml_uri", "default_xmlns_uri", "dup_raw", "dup_expanded", "dup_expanded_last",
             "use_undeclared", "two_errors"]


def gen_doc(rng, idx):
    x = rng.random()
    profile = "normal"
    if x < 0.12:
        profile = "many"
    elif x < 0.17:
        profile = "deep"
    elif x < 0.21:
        profile = "huge"
    elif x < 0.27:
        profile = "mid"
    ver = "11" if rng.random() < 0.15 else "10"
    err = rng.choice(ERR_KINDS) if rng.random() < 0.32 else None
    if profile in ("huge", "mid") and rng.random() < 0.6:
        err = rng.choice(["dup_expanded_last", "dup_expanded", "dup_raw"])
    g = DocGen(rng, ver, err, profile)
    maxdepth = rng.choice([30, 31, 32, 33, 39, 40, 41, 45, 52]) if profile == "deep" else rng.choice([1, 2, 3, 4, 5])
    g.element(0, {}, "", maxdepth)
    return g


def gen_dtd(rng, toks):
    """internal DTD subset with attribute defaults for some of the element names of the document: unprefixed names, prefixed
    names (prefixes of the document, xml), xmlns / xmlns:p declarations; D = default, F = #FIXED.  Local names of defaulted
    attributes are disjoint from the written ones, so no expanded name can collide."""
    elems, prefixes = [], []
    i = 0
    while i < len(toks):
        if toks[i] == "S":
            qn = toks[i + 2] if toks[i + 1] == "-" else toks[i + 1] + ":" + toks[i + 2]
            if qn not in elems:
                elems.append(qn)
            k = int(toks[i + 4])
            for j in range(k):
                if toks[i + 5 + 3 * j] == "xmlns" and toks[i + 6 + 3 * j] not in prefixes:
                    prefixes.append(toks[i + 6 + 3 * j])
            i += 5 + 3 * k
        else:
            i += 1
    prefixes = [p for p in prefixes if p not in ("xml", "xmlns")]
    out = []
    for e in rng.sample(elems, min(len(elems), rng.choice([1, 2, 2, 3]))):
        locs = ["da", "db", "dc", "dd"]
        rng.shuffle(locs)
        decl_p = False
        for _ in range(rng.choice([1, 1, 2, 3])):
            x = rng.random()
            kind = rng.choice(["D", "F"])
            if x < 0.4:
                out += [e, "-", locs.pop(), kind, "dv%d" % rng.randrange(3)]
            elif x < 0.55 and prefixes:
                out += [e, rng.choice(prefixes), locs.pop(), kind, "pv"]
            elif x < 0.62:
                out += [e, "xml", "lang", kind, "en"]
            elif x < 0.82 and not decl_p:
                decl_p = True
                out += [e, "xmlns", rng.choice(prefixes + PREFIXES[:6]), kind, rng.choice(URIS)]
            elif not any(out[5 * k] == e and out[5 * k + 1] == "-" and out[5 * k + 2] == "xmlns" for k in range(len(out) // 5)):
                out += [e, "-", "xmlns", kind, rng.choice(URIS + ["-"])]
    ents, seen = [], set()
    for k in range(len(out) // 5):
        e = out[5 * k:5 * k + 5]
        if (e[0], e[1], e[2]) not in seen:          # one declaration per attribute (a second one is ignored with a warning)
            seen.add((e[0], e[1], e[2]))
            ents += e
    return ["DTD", str(len(ents) // 5)] + ents


def doc_queries(toks):
    """every prefix and namespace name that occurs in the document (bounded)"""
    ps, us = [], []
    i = 0
    while i < len(toks):
        if toks[i] == "S":
            k = int(toks[i + 4])
            if toks[i + 1] != "-" and toks[i + 1] not in ps:
                ps.append(toks[i + 1])
            j = i + 5
            for _ in range(k):
                ap, al, av = toks[j], toks[j + 1], toks[j + 2]
                j += 3
                if ap == "xmlns":
                    if al not in ps:
                        ps.append(al)
                    if av != "-" and av not in us and "{" not in av:
                        us.append(av)
                elif ap == "-" and al == "xmlns":
                    if av != "-" and av not in us and "{" not in av:
                        us.append(av)
                elif ap != "-" and ap not in ps:
                    ps.append(ap)
            i = j
        else:
            i += 1
    return ps[:44], us[:10]


def growth_docs():
    """one start tag with k >= 17 xmlns:* declarations (distinct namespace names) and every one of the prefixes used by an
    attribute of the same tag and by a child element: after each expandMap (at the 17th, 21st, 26th, 32nd declaration) every
    earlier entry -- in particular the 9th..16th -- must still resolve"""
    out = []
    for k in (16, 17, 20, 21, 25, 26, 31, 32, 40):
        atts = []
        for i in range(1, k + 1):
            atts += ["xmlns", "g%d" % i, "urn:g%d" % i]
        for i in range(1, k + 1):
            atts += ["g%d" % i, "a%d" % i, "v"]
        kids = []
        for i in range(1, k + 1):
            kids += ["S", "g%d" % i, "c", "e", "0"]
        doc = ["S", "g9", "r", "n", str(2 * k)] + atts + kids + ["E"]
        for sc in SCANNERS:
            out.append("parse sax2p %s 10 0 0 %s" % (sc, " ".join(doc)))
    return out


def gen_wfstack_ops(rng):
    """WFElemStack operation sequences (T06_wfmap): ONE flat map shared by all levels -- deep stacks (beyond 32/40/50),
    many prefixes in total (beyond 16/20/25/31/38/47), the same prefix declared twice in a level (the latest wins),
    siblings overwriting the entries of popped levels, lookups after every phase; never a lookup on an empty stack"""
    ops = []
    prefs = ["-", "xml", "xmlns"] + ["p%d" % i for i in range(rng.choice([3, 8, 45]))]
    depth = 0
    n = rng.choice([20, 60, 200, 400])
    mode = rng.choice(["mixed", "deep", "wide", "siblings"])
    for _ in range(n):
        x = rng.random()
        if mode == "deep" and x < 0.5 or x < 0.2:
            ops.append("A"); depth += 1
        elif x < (0.28 if mode not in ("deep", "siblings") else 0.6 if mode == "deep" else 0.36):
            ops.append("P"); depth -= 1
            if depth < 0:
                break
            if mode == "siblings":
                ops.append("A"); depth += 1
        elif x < (0.9 if mode == "wide" else 0.7):
            ops += ["D", rng.choice(prefs), str(rng.choice([1, 1, 5, 6, 7, 8, 9]))]
            if depth == 0:
                break
        elif depth > 0:
            ops += ["M", rng.choice(prefs + ["zz"])]
    if depth > 0:
        for p in prefs[:12]:
            ops += ["M", p]
    return "wfstack " + " ".join(ops)


def is_stack_req(req):
    return req.startswith("stack ") or req.startswith("wfstack ")


def gen_stack_ops(rng):
    """ElemStack operation sequences: deep stacks (beyond 32/40/50 levels), many prefixes per level (beyond 16/20/25/31),
    row reuse after pops, global prefixes, lookups of every prefix at random points"""
    ops = []
    prefs = ["-", "xml", "xmlns"] + ["p%d" % i for i in range(rng.choice([3, 8, 45]))]
    depth = 0
    n = rng.choice([20, 60, 200, 400])
    mode = rng.choice(["mixed", "deep", "wide"])
    for _ in range(n):
        x = rng.random()
        if mode == "deep" and x < 0.5 or x < 0.2:
            ops.append("A"); depth += 1
        elif x < (0.28 if mode != "deep" else 0.6):
            ops.append("P"); depth -= 1
            if depth < 0:
                break
        elif x < (0.9 if mode == "wide" else 0.7):
            ops += ["D", rng.choice(prefs), str(rng.choice([1, 1, 5, 6, 7, 8, 9]))]
        elif x < 0.72:
            ops += ["G", rng.choice(prefs), str(rng.randrange(5, 9))]
        else:
            ops += ["M", rng.choice(prefs + ["zz"])]
    for p in prefs[:12]:
        ops += ["M", p]
    return "stack " + " ".join(ops)


# ------------------------------------------------------------------------------------------------------------------
def run_bin(binpath, lines, timeout=3000):
    p = subprocess.run([binpath], input=("\n".join(lines) + "\n").encode(), stdout=subprocess.PIPE,
                       stderr=subprocess.PIPE, timeout=timeout)
    return p.returncode, p.stdout.decode("ascii", "replace").splitlines(), p.stderr.decode("utf-8", "replace")


def split_events(line):
    return [e.split() for e in line.split(" | ")]


def decl_flags(toks):
    """per start tag: list of (qname, is_declaration) of its attributes, and (pfx, loc); in document order, with None
    entries for T / C tokens"""
    out = []
    i = 0
    while i < len(toks):
        t = toks[i]
        if t == "S":
            k = int(toks[i + 4])
            atts = []
            j = i + 5
            for _ in range(k):
                ap, al = toks[j], toks[j + 1]
                j += 3
                qn = al if ap == "-" else ap + ":" + al
                atts.append((qn, ap == "xmlns" or (ap == "-" and al == "xmlns")))
            out.append((toks[i + 1], toks[i + 2], atts))
            i = j
        else:
            if t in ("T", "C"):
                out.append(None)
            i += 1
    return out


def parse_spec(line):
    """spec_doc answer -> list of entries: ('T', ens, [ans], lookups) | ('N', lookups) | ('X',)"""
    out = []
    for e in split_events(line):
        if e[0] == "X":
            out.append(("X",))
        elif e[0] == "N":
            out.append(("N", e[1:]))
        elif e[0] == "T":
            k = int(e[2])
            out.append(("T", e[1], e[3:3 + k], e[3 + k:]))
    return out


def split_lookups(words, nq, nu):
    """LU a0..anq LP|LPS b1..bnu DN c0..cnu  -> (lu, lp, dn)"""
    assert words[0] == "LU"
    lu = words[1:2 + nq]
    assert words[2 + nq] in ("LP", "LPS"), words
    lp = words[3 + nq:3 + nq + nu]
    assert words[3 + nq + nu] == "DN"
    dn = words[4 + nq + nu:5 + nq + 2 * nu]
    return lu, lp, dn


def check_lookups(impl_words, spec_words, qs, us):
    ilu, ilp, idn = split_lookups(impl_words, len(qs), len(us))
    slu, slp, sdn = split_lookups(spec_words, len(qs), len(us))
    for k, q in enumerate(["<null>"] + qs):
        if q in ("xml", "xmlns"):
            continue                    # Appendix B does not special-case them; the parser-side binding is checked on names
        if ilu[k] != slu[k]:
            return "lookupNamespaceURI(%s) = %s, in-scope declarations give %s" % (q, ilu[k], slu[k])
    # isDefaultNamespace(null) is left to the model comparison: Appendix B.3 answers "unknown" (false) on a prefixed
    # element without any default declaration in scope and true on an unprefixed one
    if idn[1:] != sdn[1:]:
        return "isDefaultNamespace answers %s, in-scope declarations give %s" % (idn[1:], sdn[1:])
    for k, u in enumerate(us):
        if u in (XML_URI, XMLNS_URI):
            continue
        valid = [] if slp[k] == "-" else slp[k].split(",")
        if ilp[k] == "-":
            if valid:
                return "lookupPrefix(%s) = null although %s are bound to it" % (u, valid)
        elif ilp[k] not in valid:
            return "lookupPrefix(%s) = %s which is not bound to it in scope (%s)" % (u, ilp[k], valid)
    return None


def spec_verdict(api, toks, qs, us, impl, spec_line):
    """does the implementation's answer `impl` satisfy the Spec for this document?  returns None or a reason"""
    spec = parse_spec(spec_line)
    tags = decl_flags(toks)
    bad_tag = any(e[0] == "X" for e in spec)
    ev = split_events(impl)
    if any(e and e[0] in ("EXC", "ERROR", "WARNING") for e in ev) or "CRASH" in impl or "bad-request" in impl:
        return "exception / crash / unexpected report: " + impl[:200]
    fatal = [e for e in ev if e and e[0] == "FATAL"]
    if bad_tag:
        if not fatal:
            return "a tag violating a namespace constraint was accepted"
        if fatal[0][1] not in NS_ERRS:
            return "reported %s instead of a namespace error" % fatal[0][1]
    elif fatal:
        return "namespace-well-formed document rejected with %s" % fatal[0][1]
    stags = [e for e in spec if e[0] == "T"]
    if api in ("sax2p", "sax2"):
        ses = [e for e in ev if e[0] == "SE"]
        if len(ses) != len(stags):
            return "%d startElement events, the Spec expects %d before the %s" % (len(ses), len(stags), "error" if bad_tag else "end")
        ti = [t for t in tags if t is not None]
        for se, st, tg in zip(ses, stags, ti):
            exp_ens = st[1]
            if se[1] != exp_ens:
                return "element %s reported in namespace %s, in-scope declarations give %s" % (se[3], se[1], exp_ens)
            exp_atts = [(a[0], ns) for a, ns in zip(tg[2], st[2]) if api == "sax2p" or not a[1]]
            k = int(se[4])
            got = [(se[5 + 4 * i + 2], se[5 + 4 * i]) for i in range(k)]
            if got != exp_atts:
                return "attributes of %s reported as %s, the Spec expects %s" % (se[3], got, exp_atts)
        return None
    if api == "sax1":
        n = len([e for e in ev if e[0] == "S"])
        if n != len(stags):
            return "%d startElement events, the Spec expects %d" % (n, len(stags))
        return None
    if api == "dom":
        if bad_tag:
            return None
        nodes = [e for e in ev if e[0] in ("EL", "TX", "CM")]
        ents = [e for e in spec if e[0] in ("T", "N")]
        if len(nodes) != len(ents) or len(ents) != len(tags):
            return "DOM has %d nodes, document has %d" % (len(nodes), len(ents))
        for nd, en, tg in zip(nodes, ents, tags):
            if (nd[0] == "EL") != (en[0] == "T"):
                return "node kinds differ"
            if nd[0] == "EL":
                if nd[1] != en[1]:
                    return "element %s has namespaceURI %s, in-scope declarations give %s" % (nd[3], nd[1], en[1])
                if nd[2] != tg[0] or nd[3] != tg[1]:
                    return "element prefix/localName %s/%s, document has %s/%s" % (nd[2], nd[3], tg[0], tg[1])
                k = int(nd[4])
                got = []
                for i in range(k):
                    ans, ap, al = nd[5 + 4 * i], nd[6 + 4 * i], nd[7 + 4 * i]
                    got.append((al if ap == "-" else ap + ":" + al, ans))
                exp = []
                for a, ns in zip(tg[2], en[2]):
                    exp.append((a[0], XMLNS_URI if a[0] == "xmlns" else ns))
                got.sort()
                exp.sort()
                if got != exp:
                    return "attribute namespaces %s, the Spec expects %s" % (got, exp)
                rest = nd[5 + 4 * k:]
                if "AT" in rest:
                    at = rest.index("AT")
                    r = check_lookups(rest[at + 1:], en[3], qs, us)
                    if r:
                        return "on an attribute node: " + r
                    rest = rest[:at]
                r = check_lookups(rest, en[3], qs, us)
                if r:
                    return r
            else:
                r = check_lookups(nd[1:], en[1], qs, us)
                if r:
                    return "on a text/comment node: " + r
        doc = [e for e in ev if e[0] == "DOC"]
        if doc and ents:
            r = check_lookups(doc[0][1:], ents[0][3], qs, us)
            if r:
                return "on the document node: " + r
        return None
    return None


try:
    ALL_FINDINGS = json.load(open(os.path.join(V.VERIF, "known-findings.d", "C06.json")))["findings"]
except Exception:
    ALL_FINDINGS = []

WITNESSES = [
    # F8: the three lookup methods on a document without document element
    ("F8", "emptydoc 1 p 1 urn:a"),
    ("F8", "parse dom ig 10 1 p 1 urn:a S q a n 0 E"),
    # WFXMLScanner: reserved namespace names bound to an ordinary prefix
    ("F26", "parse sax2p wf 10 0 0 S - a e 1 xmlns p " + XML_URI),
    ("F26", "parse sax2p wf 10 0 0 S - a e 1 xmlns p " + XMLNS_URI),
    # WFXMLScanner: more than 100 attributes, the last one collides with an earlier one after expansion
    ("F27", "parse sax2p wf 10 0 0 S - r e 104 xmlns a urn:u xmlns b urn:u a x 1 " +
            " ".join("- n%d v" % i for i in range(100)) + " b x 2"),
    # SGXMLScanner: the 29th distinct attribute is lost by the duplicate registry (Hash2KeysSetOf rehash)
    ("F30", "parse sax2p dg 10 0 0 S - a n 1 - xmlns urn:d S p b e 1 xmlns p urn:p E"),
    ("F29", "parse sax2p sg 10 0 0 S - b e 30 " + " ".join("- n%d v" % i for i in range(1, 29)) + " - k 1 - k 2"),
    # DTD-defaulted attributes: unprefixed default under a default namespace (must stay in no namespace), defaulted
    # xmlns / xmlns:p (must bind), prefixed default
    ("DTD", "parse sax2p ig 10 0 0 DTD 3 a - da D dv a p db F fv b - dc D cv S - a n 2 - xmlns urn:d xmlns p urn:p "
            "S - b e 0 S - b n 1 - xmlns - S - a e 2 xmlns p urn:q - da w E E"),
    ("DTD", "parse dom ig 10 1 p 1 urn:d DTD 2 a - da D dv b - dc D cv S - a n 2 - xmlns urn:d xmlns p urn:p S - b e 0 E"),
    ("DTD", "parse sax2p ig 10 0 0 DTD 3 a xmlns p D urn:p a - xmlns D urn:d a p x D 1 S p a n 0 S - b e 0 E"),
    # namespace names changed by attribute-value normalisation (references, literal TAB, leading / trailing space)
] + [("NORM", "parse %s %s 10 1 q 0 S p r n 3 xmlns p urn:a{&amp}b - xmlns http://e.org/ns?a=1{&amp}b=2 p k v "
              "S q c e 2 xmlns q {s}urn:x{#3A}y{t}z{s} q k v E" % (api, sc))
     for sc in ("ig", "wf", "sg", "dg") for api in ("sax2p", "dom")] + [
    # XML 1.1: attribute using a prefix that was un-declared
    ("F28", "parse sax2p ig 11 0 0 S - r n 1 xmlns p urn:u S - c e 2 xmlns p - p x 1 E"),
    ("F28", "parse dom ig 11 0 0 S - r n 1 xmlns p urn:u S - c e 2 xmlns p - p x 1 E"),
]


def classify(req, impl, why=""):
    """attributes a Spec-violating answer to one of the findings of known-findings.d/C06.json by a precise predicate on the
    request, the answer and the oracle's reason; None = not one of them.  (Only a label in the replay file: nothing is
    suppressed.)"""
    a = req.split()
    if "CRASH" in impl and (a[0] == "emptydoc" or (a[0] == "parse" and a[1] == "dom")):
        return "F8"
    if a[0] != "parse":
        return None
    api, sc, ver = a[1], a[2], a[3]
    accepted = "FATAL" not in impl and "was accepted" in why
    toks = request_parts(req)[7]
    # the tags with the bindings in scope at each of them (python-side bookkeeping for the label only)
    scopes, stack, i = [], [{}], 0
    while i < len(toks):
        if toks[i] == "S":
            k = int(toks[i + 4])
            atts = [(toks[i + 5 + 3 * j], toks[i + 6 + 3 * j], toks[i + 7 + 3 * j]) for j in range(k)]
            sc_ = dict(stack[-1])
            for ap, al, av in atts:
                if ap == "xmlns":
                    sc_[al] = av
            scopes.append((atts, sc_))
            if toks[i + 3] != "e":
                stack.append(sc_)
            i += 5 + 3 * k
        else:
            if toks[i] == "E" and len(stack) > 1:
                stack.pop()
            i += 1
    if ver == "11" and (accepted or "DOMException" in impl) and \
            any(ap not in ("-", "xml", "xmlns") and sc_.get(ap) == "-" for atts, sc_ in scopes for ap, al, av in atts):
        return "F28"
    if sc == "wf" and accepted and any(len(atts) > 100 for atts, _ in scopes):
        return "F27"
    if sc == "sg" and accepted and any(len(atts) > 28 for atts, _ in scopes):
        return "F29"
    if sc == "dg" and api in ("sax2p", "sax2") and "UnknownNS" in impl:
        return "F30"
    if sc == "wf" and accepted and any(ap == "xmlns" and al != "xml" and av in (XML_URI, XMLNS_URI)
                                       for atts, _ in scopes for ap, al, av in atts):
        return "F26"
    return None


def request_parts(req):
    """(api, scanner, version, prefixes, uris, dtd tokens, document tokens, effective document tokens)"""
    a = req.split()
    if a[0] == "parse":
        nq = int(a[4])
        qs = a[5:5 + nq]
        nu = int(a[5 + nq])
        us = a[6 + nq:6 + nq + nu]
        rest = a[6 + nq + nu:]
        ent, dtd = [], []
        if rest and rest[0] == "ENT":
            m = int(rest[1])
            ent = rest[:2 + 2 * m]
            rest = rest[2 + 2 * m:]
        if rest and rest[0] == "DTD":
            n = int(rest[1])
            dtd = rest[:2 + 5 * n]
            rest = rest[2 + 5 * n:]
        return a[1], a[2], a[3], qs, us, ent + dtd, rest, effective_toks(dtd, rest)
    return None


def effective_toks(dtd, toks):
    """a defaulted / #FIXED attribute the tag does not write counts like a written one (appended in declaration order)"""
    if not dtd:
        return toks
    defs = {}
    for k in range(int(dtd[1])):
        e, ap, al, kind, v = dtd[2 + 5 * k:7 + 5 * k]
        defs.setdefault(e, []).append((ap, al, v))
    out = []
    i = 0
    while i < len(toks):
        if toks[i] == "S":
            k = int(toks[i + 4])
            atts = toks[i + 5:i + 5 + 3 * k]
            qn = toks[i + 2] if toks[i + 1] == "-" else toks[i + 1] + ":" + toks[i + 2]
            written = set((atts[3 * j], atts[3 * j + 1]) for j in range(k))
            extra = [d for d in defs.get(qn, []) if (d[0], d[1]) not in written]
            out += toks[i:i + 4] + [str(k + len(extra))] + atts
            for d in extra:
                out += list(d)
            i += 5 + 3 * k
        else:
            out.append(toks[i])
            i += 1
    return out


def process(ctx, xh, xm, cases, st):
    """one batch of cases: run both binaries, decide every case with the Spec, register violations; st = counters"""
    lines = [c[1] for c in cases]
    rc1, impl, err1 = run_bin(xh, lines)
    rc2, model, err2 = run_bin(xm, lines)
    if rc1 != 0 or len(impl) != len(lines):
        ctx.violation("harness-crash", {"what": "implementation harness crashed or lost lines", "rc": rc1,
                                        "stderr": err1[-2000:], "answered": len(impl), "asked": len(lines),
                                        "request": lines[len(impl)] if len(impl) < len(lines) else None})
        return False
    if rc2 != 0 or len(model) != len(lines):
        ctx.violation("model-crash", {"what": "model driver crashed", "stderr": err2[-2000:]}, no_input=True)
        return False
    # ---- the Spec side: one spec_doc per document, one spec_stack per history, one spec_stream per complete SAX2 answer
    spec_req, spec_idx = [], {}
    for k, (kind, req, _) in enumerate(cases):
        parts = request_parts(req)
        if parts:
            api, sc, ver, qs, us, dtd, toks, etoks = parts
            key = " ".join(("spec_doc %s %d %s %d %s %s %s" % (ver, len(qs), " ".join(qs), len(us), " ".join(us), " ".join(dtd), " ".join(toks))).split())
            if key not in spec_idx:
                spec_idx[key] = len(spec_req)
                spec_req.append(key)
        elif is_stack_req(req):
            spec_idx["spec_" + req] = len(spec_req)
            spec_req.append("spec_" + req)
    stream_req, stream_idx = [], {}
    for k, (kind, req, _) in enumerate(cases):
        parts = request_parts(req)
        if parts and parts[0] in ("sax2p", "sax2") and impl[k].endswith("END"):
            stream_idx[k] = len(stream_req)
            stream_req.append("spec_stream " + impl[k])
    rcS, spec_out, errS = run_bin(xm, spec_req + stream_req)
    if rcS != 0 or len(spec_out) != len(spec_req) + len(stream_req):
        ctx.violation("model-crash", {"what": "spec oracle driver crashed", "stderr": errS[-2000:]}, no_input=True)
        return False
    stream_out = spec_out[len(spec_req):]

    def verdict(k):
        kind, req, _ = cases[k]
        parts = request_parts(req)
        i = impl[k]
        if not parts:
            if "CRASH" in i or "EXC" in i:
                return "crash / exception: " + i[:200]
            if is_stack_req(req):
                # the answers to the lookups must be those map_spec gives on the declarations sop_run leaves in scope; a
                # history that pops / declares without an open scope must end in the corresponding exception
                want = spec_out[spec_idx["spec_" + req]].split()
                got = i.split()
                if want and want[-1] == "!":
                    want = want[:-1]
                    if not got or got[-1] not in ("!StackUnderflow", "!EmptyStack"):
                        return "history without open scope not rejected"
                    got = got[:-1]
                elif got and got[-1].startswith("!"):
                    got = got[:-1]
                    want = want[:len(got)]
                if got != want:
                    return "mapPrefixToURI answers %s, the declarations in scope give %s" % (got[:40], want[:40])
            return None
        api, sc, ver, qs, us, dtd, toks, etoks = parts
        key = " ".join(("spec_doc %s %d %s %d %s %s %s" % (ver, len(qs), " ".join(qs), len(us), " ".join(us), " ".join(dtd), " ".join(toks))).split())
        try:
            r = spec_verdict(api, etoks, qs, us, i, spec_out[spec_idx[key]])
        except Exception as e:       # an answer the oracle cannot even read
            r = "unreadable answer (%r): %s" % (e, i[:200])
        if r:
            return r
        if k in stream_idx and stream_out[stream_idx[k]] != "ok 1 1":
            return "SAX2 event stream is not balanced / correctly scoped: " + stream_out[stream_idx[k]]
        return None

    divergences = []
    for k, ((kind, req, g), i, m) in enumerate(zip(cases, impl, model)):
        ctx.count()
        st["kinds"][kind] = st["kinds"].get(kind, 0) + 1
        if kind == "stack":
            st["answers"]["stack"] += 1
            if " D " in req or " G " in req:
                ctx.distinct(req)
        else:
            st["answers"]["FATAL" if "FATAL" in i else "END/OK"] += 1
            if "xmlns" in req:
                ctx.distinct(req)
        if kind == "known-F31":
            # literal witness of F31: reported as known finding only if it reproduces; otherwise compared like any case
            if i.count(" p db fv") < 2:
                if i != m:
                    divergences.append(k)
            elif i.count(" p db fv") >= 2:
                if ctx.find_known("F31"):
                    ctx.known_finding("F31", "DOM: a DTD-defaulted attribute with a prefix (p:db) appears twice, the second copy "
                                      "in the XML namespace (prototype created by AbstractDOMParser::endAttList); witness `%s`" % req)
                else:
                    ctx.violation("F31", {"request": req, "impl": i[:2000], "what": "duplicate defaulted attribute in the XML namespace"})
            continue
        if kind == "known-F32":
            if "SE - a a" in i:
                if ctx.find_known("F32"):
                    ctx.known_finding("F32", "DGXMLScanner: a namespace declaration defaulted through the DTD is not in scope for "
                                      "the names of its own start tag (element reported in no namespace); witness `%s`" % req)
                else:
                    ctx.violation("F32", {"request": req, "impl": i[:2000], "what": "defaulted xmlns not in scope (DG)"})
            elif i != m:
                divergences.append(k)
            continue
        if i != m:
            divergences.append(k)
            continue
        # agreeing case: the Spec oracle still runs on every one of them (a bug shared by model and code cannot hide)
        v = verdict(k)
        st["checked"] += 1
        if v:
            st["spec_viol"] += 1
            if st["spec_viol"] <= 5:
                ctx.violation("spec", {"request": req, "impl": i[:4000], "model": m[:4000], "spec": v, "kind": kind,
                                       "finding": classify(req, i, v),
                                       "what": "implementation and model agree but violate the Spec (unlisted defect)"})
    st["traces"] += len(lines)
    st["divergences"] += len(divergences)
    if len(ctx.coverage["samples"]) < 3 and len(cases) > len(WITNESSES) + 8:
        for k in (len(WITNESSES) + 7, len(cases) // 2, len(cases) - 1):
            ctx.sample({"kind": cases[k][0], "request": cases[k][1][:600], "impl": impl[k][:600], "model": model[k][:600]})
    # ---- divergences: decided by the Spec ----
    for k in divergences[:2000]:
        kind, req, _ = cases[k]
        v = verdict(k)
        st["checked"] += 1
        if v:
            st["viol"] += 1
            fid = classify(req, impl[k], v)
            st["per_finding"][fid] = st["per_finding"].get(fid, 0) + 1
            if st["per_finding"][fid] <= (2 if fid else 8):
                f = next((x for x in ALL_FINDINGS if x.get("id") == fid), None) if fid else None
                ctx.violation("divergence", {"request": req, "impl": impl[k][:4000], "model": model[k][:4000], "spec": v,
                                             "kind": kind, "finding": fid,
                                             "fix": (f.get("patch"), f.get("commit")) if f else None,
                                             "what": "implementation differs from the model and violates the Spec" +
                                                     (" (finding %s of known-findings.d/C06.json: its fix: commit is missing "
                                                      "from this tree)" % fid if fid else "")})
        elif req.split()[2] == "dg" and "FATAL" in impl[k] and "FATAL" in model[k]:
            # DGXMLScanner is compared against the IG model; it checks a tag in another order (attributes as they are
            # scanned, the element name last), so a tag with several errors may report another one of them: Spec decides
            st["dg_other_error"] = st.get("dg_other_error", 0) + 1
        else:
            st["unexplained"].append((req, impl[k][:4000], model[k][:4000]))
    return True


def gen_batches(ctx, feats):
    """yields lists of (kind, request, generator-info); everything derives from ctx.rng"""
    if ctx.replay:
        r = json.load(open(ctx.replay))
        yield [("replay", r["request"], None)]
        return
    ndocs = 900 if ctx.tier == "quick" else 25000
    nstack = 300 if ctx.tier == "quick" else 10000
    per = 450
    first = True
    done = 0
    while done < ndocs:
        cases = [("witness-" + tag, req, None) for tag, req in WITNESSES] if first else []
        if first:
            cases.append(("known-F31", "parse dom ig 10 0 0 DTD 1 a p db F fv S - a e 1 xmlns p urn:p", None))
            cases.append(("known-F32", "parse sax2p dg 10 0 0 DTD 1 a - xmlns D urn:d S - a n 0 S - b e 0 E", None))
            cases += [("growth", req, None) for req in growth_docs()]
        first = False
        for d in range(done, min(ndocs, done + per)):
            g = gen_doc(ctx.rng, d)
            qs, us = doc_queries(g.toks)
            body = " ".join(("%d %s %d %s %s" % (len(qs), " ".join(qs), len(us), " ".join(us), " ".join(g.toks))).split())
            for f in g.features | {"profile:" + g.profile, "xml-" + g.ver}:
                feats[f] = feats.get(f, 0) + 1
            for api in APIS:
                for sc in SCANNERS:
                    cases.append(("doc-%s-%s" % (api, sc), "parse %s %s %s %s" % (api, sc, g.ver, body), g))
        done += per
        # documents with an internal DTD subset (attribute defaults): IGXMLScanner and DGXMLScanner read it
        for d in range(per // 3):
            g = DocGen(ctx.rng, "11" if ctx.rng.random() < 0.1 else "10",
                       ctx.rng.choice(ERR_KINDS) if ctx.rng.random() < 0.15 else None, "normal")
            ent = []
            if ctx.rng.random() < 0.4:
                # internal general entities referenced from namespace names (their text counts as literal)
                g.ents = ("e1", "e2")
                g.pnorm = 0.5
                ent = ["ENT", "2", "e1", ctx.rng.choice(["urn:ent", "a{t}b", "x{s}"]), "e2", ctx.rng.choice(["/p", "{s}q{n}", "r"])]
                feats["entity-in-namespace-name"] = feats.get("entity-in-namespace-name", 0) + 1
            g.element(0, {}, "", ctx.rng.choice([1, 2, 3, 4]))
            dtd = gen_dtd(ctx.rng, g.toks)
            qs, us = doc_queries(effective_toks(dtd, g.toks))
            feats["dtd-defaults"] = feats.get("dtd-defaults", 0) + 1
            for api in ("sax2p", "sax2", "dom"):
                # F31 (known finding): through the DOM a defaulted attribute with an ordinary prefix is duplicated in the XML
                # namespace; exactly that class is excluded from the DOM requests
                dd = dtd
                if api == "dom" and ctx.find_known("F31"):
                    ents = [dtd[2 + 5 * k:7 + 5 * k] for k in range(int(dtd[1]))]
                    ents = [e for e in ents if e[1] in ("-", "xml", "xmlns")]
                    dd = ["DTD", str(len(ents))] + [t for e in ents for t in e]
                for sc in ("ig", "dg"):
                    d2 = dd
                    if sc == "dg" and ctx.find_known("F32"):
                        # F32 (known finding): DGXMLScanner does not put defaulted namespace declarations in scope for the tag
                        # itself; exactly that class is excluded from the DG requests
                        ents = [d2[2 + 5 * k:7 + 5 * k] for k in range(int(d2[1]))]
                        ents = [e for e in ents if not (e[1] == "xmlns" or (e[1] == "-" and e[2] == "xmlns"))]
                        d2 = ["DTD", str(len(ents))] + [t for e in ents for t in e]
                    body = " ".join(("%d %s %d %s %s %s" % (len(qs), " ".join(qs), len(us), " ".join(us), " ".join(ent + d2), " ".join(g.toks))).split())
                    cases.append(("dtd-%s-%s" % (api, sc), "parse %s %s %s %s" % (api, sc, g.ver, body), g))
        for _ in range(nstack * per // ndocs + 1):
            cases.append(("stack", gen_stack_ops(ctx.rng), None))
            cases.append(("stack", gen_wfstack_ops(ctx.rng), None))
        yield cases
    ctx.coverage["input_distribution"] = {"documents": ndocs, "features": feats}


def run(ctx):
    t0 = time.time()
    ctx.coverage["trusted_base"] = list(V.GLOBAL_TRUSTED_BASE) + [
        "modelled rather than verified: the character-level scanning of a start tag (rawAttrScan, attribute value "
        "normalisation), grammar lookup / validation in IGXMLScanner::scanStartTagNS and buildAttList (only the DTD-less, "
        "schema-less path is modelled), DTD-defaulted xmlns attributes, the XSAXMLScanner / DGXMLScanner variants; the "
        "request renderer (token list -> XML text) in harness/C06.cpp; T06_resolve_* cover the IG/SG path, the WFXMLScanner "
        "path is tied to the Spec by the correspondence only"]
    ctx.assumptions = ["documents are rendered with an explicit XML declaration and every request uses a fresh parser "
                       "(state carried between documents by a reused parser is the subject of C15)",
                       "null and the empty string are identified in DOM answers (XMLString::equals does the same)"]
    ctx.build_lib()
    translator_error = None
    consts = {}
    try:
        consts = T.generate()
    except Exception as e:
        # the tie by translation is broken: the correspondence below is the search for a concrete failing document (the
        # growth documents are aimed at expandMap / expandStack); the last generated constants stay in place
        translator_error = repr(e)
        ctx.note("translator failed: %r -- searching for a failing input with the correspondence" % (e,))
        if not os.path.exists(os.path.join(V.COQ, "theories", "Gen", "GenElemStack.v")):
            ctx.violation("translator", {"what": "translator can no longer read the ElemStack constants / error codes and no "
                                         "earlier GenElemStack.v exists", "error": translator_error}, no_input=True)
            return
    ok, out, failed = ctx.prove(["Base", "Gen", "C06"],
                                ["theories/C06/Properties_C06.vo", "theories/C06/Extract_C06.vo"],
                                props_file="theories/C06/Properties_C06.v")
    proof_broken = not ok
    if proof_broken:
        ctx.note("proof obligations failed: %s" % failed)
        ctx.note(out[-1500:])
    have_model = os.path.exists(os.path.join(V.VERIF, "ocaml", "C06", "gen_c06.ml"))
    if not have_model:
        ctx.violation("obligation", {"what": "the model no longer compiles, nothing could be extracted", "output": out[-3000:]},
                      no_input=True)
        return
    xm = ctx.ocaml("C06", ["gen_c06"])
    xh = ctx.harness("C06")
    st = {"kinds": {}, "answers": {"END/OK": 0, "FATAL": 0, "stack": 0}, "checked": 0, "spec_viol": 0, "viol": 0,
          "per_finding": {}, "unexplained": [], "traces": 0, "divergences": 0}
    feats = {}
    for cases in gen_batches(ctx, feats):
        if not process(ctx, xh, xm, cases, st):
            return
        if len(ctx.violations) >= 12:
            break
    ctx.coverage["traces_validated_against_impl"] = st["traces"]
    ctx.coverage["case_kinds"] = st["kinds"]
    ctx.coverage["answers"] = st["answers"]
    ctx.coverage["spec_oracle_checked"] = st["checked"]
    if st["per_finding"]:
        ctx.note("Spec-violating divergences by finding: %s" % st["per_finding"])
        ctx.coverage["violations_by_finding"] = {str(k): v for k, v in st["per_finding"].items()}
    if st["unexplained"] and not st["viol"]:
        req, i, m = st["unexplained"][0]
        ctx.violation("correspondence", {"what": "model and implementation differ but the Spec oracle found no failing input: "
                                         "correspondence xh_C06~xm_C06 no longer checks", "request": req,
                                         "impl": i, "model": m, "count": len(st["unexplained"])}, no_input=True)
    elif st["unexplained"]:
        ctx.note("%d further divergences satisfy the Spec (first: %s)" % (len(st["unexplained"]), st["unexplained"][0][0][:300]))
    if translator_error and not ctx.violations:
        ctx.violation("translator", {"what": "translator can no longer read the ElemStack constants / memcpy extents / error "
                                     "codes, and the correspondence found no failing input", "error": translator_error},
                      no_input=True)
    elif translator_error:
        ctx.note("translator failure explained by a concrete failing input (see the replays)")
    if proof_broken and not ctx.violations:
        ctx.violation("obligation", {"what": "Coq obligation no longer checks and no failing input was found by the "
                                     "correspondence sweeps", "failed": failed, "output": out[-3000:]}, no_input=True)
    elif proof_broken:
        ctx.note("proof obligation failed; a concrete failing input was found by the correspondence")
    ctx.coverage["translated_constants"] = {k: v for k, v in consts.items()}
    ctx.coverage["rule"] = ("seeded random documents (shadowing, re-declaration, un-declaration of default and -- XML 1.1 -- "
                            "prefixed namespaces, 0..40 declarations per element crossing the expandMap capacities 16/20/25/31, "
                            "nesting beyond the stack capacities 32/40/50, prefixes used before their declaring attribute, more "
                            "than 100 attributes, 14 kinds of injected namespace errors incl. two errors in one tag) x {SAX2 "
                            "namespace-prefixes on/off, SAX1, DOM} x {IG, WF, SG scanner}; DOM lookups on the document, every "
                            "element, first attribute, text and comment node for every prefix / namespace name of the document; "
                            "ElemStack operation sequences against the real class; every case (agreeing or not) is decided by the "
                            "extracted Spec; a case is non-trivial when it contains a namespace declaration (documents) or an "
                            "addPrefix (stack); distinct by request text")
    ctx.coverage["exhaustive"] = False
    ctx.note("correspondence: %d cases, %d divergences, %d spec-checked, %.1fs" % (st["traces"], st["divergences"], st["checked"],
                                                                              time.time() - t0))
