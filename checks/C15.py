"""C15 -- A parser's result is independent of its history; cached grammars are transparent.

Theorems: coq/theories/C15/Properties_C15.v.  The member inventory of the scanners and what each per-parse reset does
to every member is regenerated from /repo on every run (translator/c15_scan.py -> Gen/GenScannerFields.v); the
obligation T15_reset_complete is a vm_compute over it against the committed classification (Classify15.v).

Correspondence = the property's own oracle on the implementation: bin/xh_C15 interprets a HISTORY of operations on ONE
parser object (SAXParser, SAX2XMLReader, XercesDOMParser, DOMLSParser; the four scanners), parses a final document and
compares the canonical result with the same final parse on a FRESH parser that received the configuration calls only.
bin/xm_C15 (extracted model) predicts for the same request which observable members differ when the final parse starts;
a difference on the implementation is attributed to a recorded finding only if the model explains it by members listed
in Classify15.exceptions (or by the precise predicate of the finding); any other difference is a VIOLATION with the
shrunk history as replay.  G lines: traces of XMLGrammarPoolImpl + GrammarResolver against the pool model (locked pool,
lookup order).  T lines: cached-grammar transparency.  S lines: XMLStringPool / XMLSynchronizedStringPool ids."""
import json
import os
import subprocess
import sys
import time

import vcommon as V

sys.path.insert(0, os.path.join(V.VERIF, "translator"))
import c15_scan as TS  # noqa

APIS = ["sax", "sax2", "dom", "ls"]
SCANNERS = ["IG", "WF", "DG", "SG"]

# ----------------------------------------------------------------------------------------------------------------------
# document pool: small documents with differing internal DTDs / schemas that share element names, IDs, entity names and
# namespace prefixes; valid, invalid, and malformed at each construct
# ----------------------------------------------------------------------------------------------------------------------
XSI = 'xmlns:xsi="http://www.w3.org/2001/XMLSchema-instance"'
DOCS = {
    # --- DTD family (names a b c, attribute id/ref/d, entity e)
    "dv1": '<!DOCTYPE a [<!ELEMENT a (b*)><!ELEMENT b (#PCDATA)><!ATTLIST b id ID #IMPLIED ref IDREF #IMPLIED d CDATA "dflt1">'
           '<!ENTITY e "one">]><a><b id="i1">&e;</b><b ref="i1"/></a>',
    "dv2": '<!DOCTYPE a [<!ELEMENT a (b,c)><!ELEMENT b EMPTY><!ELEMENT c (#PCDATA)><!ATTLIST b id ID #REQUIRED d CDATA "dflt2">'
           '<!ENTITY e "two">]><a><b id="i1"/><c>&e;</c></a>',
    "dv3": '<?xml version="1.0" standalone="yes"?><!DOCTYPE a [<!ELEMENT a (b+)><!ELEMENT b (#PCDATA|c)*><!ELEMENT c EMPTY>'
           '<!ATTLIST c d NMTOKENS #IMPLIED>]><a><b>x<c d=" t1  t2 "/>y</b></a>',
    "dbad1": '<!DOCTYPE a [<!ELEMENT a (b)><!ELEMENT b EMPTY>]><a><c/><c/></a>',
    "dbad2": '<!DOCTYPE a [<!ELEMENT a (b*)><!ELEMENT b EMPTY><!ATTLIST b id ID #IMPLIED>]><a><b id="i1"/><b id="i1"/></a>',
    "dbad3": '<!DOCTYPE a [<!ELEMENT a (b*)><!ELEMENT b EMPTY><!ATTLIST b ref IDREF #IMPLIED>]><a><b ref="i1"/></a>',
    "dbad4": '<!DOCTYPE a [<!ELEMENT a (b*)><!ELEMENT b EMPTY>]><a><b zz="1"/><q/></a>',
    "dbad5": '<!DOCTYPE x [<!ELEMENT a ANY>]><a><a/></a>',
    "dws": '<!DOCTYPE a [<!ELEMENT a (b,b)><!ELEMENT b EMPTY>]><a>\n <b/>\n <b/>\n</a>',
    "dnot": '<!DOCTYPE a [<!ELEMENT a EMPTY><!NOTATION n SYSTEM "n.exe"><!ENTITY u SYSTEM "u.bin" NDATA n>'
            '<!ATTLIST a e ENTITY #IMPLIED>]><a e="u"/>',
    "dext1": '<!DOCTYPE a SYSTEM "e1.dtd"><a><b id="i1">&e;</b></a>',
    "dext2": '<!DOCTYPE a SYSTEM "e2.dtd"><a><b id="i1"/></a>',
    "dpe": '<!DOCTYPE a [<!ENTITY % p "<!ELEMENT a (#PCDATA)>">%p;<!ENTITY e "&#60;b/>">]><a>&e;</a>',
    # --- DTD family e3.dtd: every DTD-grammar-dependent check (ENTITY/ENTITIES/NOTATION, ID/IDREF, defaults, enumerations,
    #     NMTOKENS normalisation, content models, standalone); external subset only / with internal subset
    "dcv": '<!DOCTYPE a SYSTEM "e3.dtd"><a><b id="i1" ent="pic" ents="pic pic2">&txt;</b><b ref="i1" t="y" nm=" n1  n2 "/><c n="gif"/></a>',
    "dcv2": '<!DOCTYPE a SYSTEM "e3.dtd"><a>\n <b ents="pic2"/>\n <c/>\n</a>',
    "dcbad": '<!DOCTYPE a SYSTEM "e3.dtd"><a><b id="i1" ent="nope" ents="pic nope2"/><b id="i1" ref="i9" t="z"/><c n="jpg"/><c/></a>',
    "dcbad2": '<!DOCTYPE a SYSTEM "e3.dtd"><a><c n="png"/><b undeclared="1">&txt;&nope;</b></a>',
    "dcint": '<!DOCTYPE a SYSTEM "e3.dtd" [<!ENTITY loc "local"><!ATTLIST c extra CDATA "ex">]><a><b ent="pic">&loc;&txt;</b><c/></a>',
    "dcsa": '<?xml version="1.0" standalone="yes"?><!DOCTYPE a SYSTEM "e3.dtd"><a><b nm=" n1  n2 ">x</b></a>',
    "dcroot": '<!DOCTYPE b SYSTEM "e3.dtd"><b ent="pic2">t</b>',
    # --- xsi:type / xsi:nil / xsi:schemaLocation on CHILD elements, inside skipped wildcard content, on an undeclared element
    #     (sx.xsd: r of type A; B extends A with attribute q; C unrelated; w holds skipped wildcard content)
    "xt_plain": '<r %s xsi:noNamespaceSchemaLocation="sx.xsd"><k/><k p="1"/></r>' % XSI,
    "xt_plainq": '<r %s xsi:noNamespaceSchemaLocation="sx.xsd" q="5"><k/></r>' % XSI,
    "xt_child": '<r %s xsi:noNamespaceSchemaLocation="sx.xsd"><k/><k xsi:type="C"><only>1</only></k></r>' % XSI,
    "xt_childB": '<r %s xsi:noNamespaceSchemaLocation="sx.xsd"><k xsi:type="B" q="1"/></r>' % XSI,
    "xt_nil": '<r %s xsi:noNamespaceSchemaLocation="sx.xsd"><k/><k xsi:nil="true"/></r>' % XSI,
    "xt_rootnil": '<r %s xsi:noNamespaceSchemaLocation="sx.xsd" xsi:nil="true"/>' % XSI,
    "xt_loc": '<r %s xsi:noNamespaceSchemaLocation="sx.xsd"><w><p:a xmlns:p="u1" xsi:schemaLocation="u1 s1.xsd"><p:b>12</p:b></p:a></w></r>' % XSI,
    "xt_skip": '<r %s xsi:noNamespaceSchemaLocation="sx.xsd"><w><z xsi:type="C" xsi:nil="true"/></w></r>' % XSI,
    "xt_abort": '<r %s xsi:noNamespaceSchemaLocation="sx.xsd"><undecl xsi:type="B" q="x"/><k/></r>' % XSI,
    # --- fragments for DOMLSParser::parseWithContext
    "fr1": '<x>t</x>', "fr2": '<y a="1"><z/> </y>', "frbad1": '<x>', "frbad2": '<x></y>', "frbad3": '<x a=1/>',
    "frext": '<!DOCTYPE x SYSTEM "e1.dtd"><x>t</x>',       # the resource resolver is called (an exception can leave it)
    # --- no DTD
    "plain": '<a><b id="i1" ref="i2">x</b><c/></a>',
    "plain2": '<?xml version="1.0" encoding="UTF-8"?><a d="1"><!--c--><?pi data?><b>t</b><![CDATA[<x>]]></a>',
    "noent": '<a>&e;</a>',
    "cref": '<a>&#1;</a>',
    # --- namespaces (prefix p bound differently, unbound, default)
    "ns1": '<p:a xmlns:p="u1"><p:b p:x="1"/></p:a>',
    "ns2": '<p:a xmlns:p="u2"><b xmlns="u3"><p:c/></b></p:a>',
    "nsunb": '<p:a><p:b/></p:a>',
    "nsempty": '<a xmlns:p=""><b/></a>',
    "nsdup": '<a xmlns:p="u1" xmlns:q="u1"><b p:x="1" q:x="2"/></a>',
    # --- malformed at each construct
    "m_tag": '<a><b></a>',
    "m_attr": '<a x=1/>',
    "m_dupattr": '<a x="1" x="2"/>',
    "m_comment": '<a><!-- -- --></a>',
    "m_pi": '<a><?xml bad?></a>',
    "m_charref": '<a>&#0;</a>',
    "m_trunc": '<a><b>text',
    "m_junk": '<a/><b/>',
    "m_doctype": '<!DOCTYPE a [<!ELEMENT a (b><a/>',
    "m_empty": '',
    "m_recur": '<!DOCTYPE a [<!ENTITY e "&e;">]><a>&e;</a>',
    "m_cdata": '<a><![CDATA[x</a>',
    "m_enc": '<?xml version="1.0" encoding="bogus-enc"?><a/>',
    "m_text": 'x<a/>',
    "m_lt": '<a b="<"/>',
    "m_deep": '<a><b><c><d><e></x></e></d></c></b></a>',
    # --- XML 1.1
    "v11": '<?xml version="1.1"?><a>&#1;</a>',
    "v11b": '<?xml version="1.1"?><!DOCTYPE a [<!ELEMENT a (#PCDATA)>]><a>x</a>',
    # --- schema family (namespace u1 defined differently by s1.xsd / s2.xsd; no-namespace sn.xsd)
    "sv1": '<p:a xmlns:p="u1" %s xsi:schemaLocation="u1 s1.xsd"><p:b>12</p:b></p:a>' % XSI,
    "sbad1": '<p:a xmlns:p="u1" %s xsi:schemaLocation="u1 s1.xsd"><p:b>abc</p:b><p:c/></p:a>' % XSI,
    "sv2": '<p:a xmlns:p="u1" %s xsi:schemaLocation="u1 s2.xsd" k="i1"><p:b>abc</p:b></p:a>' % XSI,
    "sbad2": '<p:a xmlns:p="u1" %s xsi:schemaLocation="u1 s2.xsd"><p:b>abc</p:b><p:b>abc</p:b></p:a>' % XSI,
    "svn": '<a %s xsi:noNamespaceSchemaLocation="sn.xsd"><b id="i1">1</b><b id="i2">2</b></a>' % XSI,
    "sbadn": '<a %s xsi:noNamespaceSchemaLocation="sn.xsd"><b id="i1">1</b><b id="i1">1</b><u/></a>' % XSI,
    "slax1": '<a %s xsi:noNamespaceSchemaLocation="sl.xsd"><u>plain</u></a>' % XSI,
    "slax2": '<a %s xsi:noNamespaceSchemaLocation="sl.xsd" xmlns:xs="http://www.w3.org/2001/XMLSchema"><u xsi:type="xs:int">abc</u></a>' % XSI,
    "snohint": '<p:a xmlns:p="u1"><p:b>12</p:b></p:a>',
    # include / import chain: si.xsd (u4) includes si2.xsd and imports sm.xsd (u5)
    "sinc": '<r xmlns="u4" xmlns:m="u5" %s xsi:schemaLocation="u4 si.xsd"><item>5</item><m:ext>x</m:ext></r>' % XSI,
    "sincbad": '<r xmlns="u4" xmlns:m="u5" %s xsi:schemaLocation="u4 si.xsd"><item>five</item><m:ext>x</m:ext><item>6</item></r>' % XSI,
    "sinc2": '<r xmlns="u4" xmlns:m="u5" %s xsi:schemaLocation="u4 si.xsd u5 sm.xsd"><item>7</item><m:ext/></r>' % XSI,
    "nnohint": '<a><b id="i1">1</b><b id="i2">2</b></a>',
    "nnohintbad": '<a><b id="i1">1</b><b id="i1">1</b><u/></a>',
}
XS_HEAD = '<xs:schema xmlns:xs="http://www.w3.org/2001/XMLSchema" '
EXTS = {
    "e1.dtd": '<!ELEMENT a (b*)><!ELEMENT b (#PCDATA)><!ATTLIST b id ID #IMPLIED d CDATA "ext1"><!ENTITY e "ext-one">',
    "e3.dtd": '<!ELEMENT a (b+,c?)><!ELEMENT b (#PCDATA)><!ELEMENT c (#PCDATA)>'
              '<!ATTLIST b id ID #IMPLIED ref IDREF #IMPLIED ent ENTITY #IMPLIED ents ENTITIES #IMPLIED d CDATA "dflt" t (x|y) "x" '
              'nm NMTOKENS #IMPLIED><!ATTLIST c n NOTATION (gif|png) #IMPLIED>'
              '<!NOTATION gif SYSTEM "gif.exe"><!NOTATION png SYSTEM "png.exe">'
              '<!ENTITY pic SYSTEM "pic.gif" NDATA gif><!ENTITY pic2 SYSTEM "pic2.png" NDATA png><!ENTITY txt "text-ent">',
    "e2.dtd": '<!ELEMENT a (b)><!ELEMENT b EMPTY><!ATTLIST b id ID #REQUIRED d CDATA "ext2">',
    "s1.xsd": XS_HEAD + 'targetNamespace="u1" xmlns:t="u1" elementFormDefault="qualified"><xs:element name="a"><xs:complexType>'
              '<xs:sequence><xs:element name="b" type="xs:int" maxOccurs="2"/></xs:sequence>'
              '<xs:attribute name="d" type="xs:string" default="sd1"/></xs:complexType></xs:element></xs:schema>',
    "s2.xsd": XS_HEAD + 'targetNamespace="u1" xmlns:t="u1" elementFormDefault="qualified"><xs:element name="a"><xs:complexType>'
              '<xs:sequence><xs:element name="b" type="xs:string"/></xs:sequence>'
              '<xs:attribute name="k" type="xs:ID"/><xs:attribute name="d" type="xs:string" default="sd2"/>'
              '</xs:complexType></xs:element></xs:schema>',
    "sn.xsd": XS_HEAD + '><xs:element name="a"><xs:complexType><xs:sequence><xs:element name="b" maxOccurs="unbounded">'
              '<xs:complexType><xs:simpleContent><xs:extension base="xs:int"><xs:attribute name="id" type="xs:ID"/>'
              '</xs:extension></xs:simpleContent></xs:complexType></xs:element></xs:sequence></xs:complexType>'
              '<xs:unique name="ub"><xs:selector xpath="b"/><xs:field xpath="."/></xs:unique></xs:element></xs:schema>',
    "si.xsd": XS_HEAD + 'targetNamespace="u4" xmlns:t="u4" xmlns:m="u5" elementFormDefault="qualified">'
              '<xs:include schemaLocation="si2.xsd"/><xs:import namespace="u5" schemaLocation="sm.xsd"/>'
              '<xs:element name="r"><xs:complexType><xs:sequence><xs:element ref="t:item"/><xs:element ref="m:ext"/>'
              '</xs:sequence></xs:complexType></xs:element></xs:schema>',
    "si2.xsd": XS_HEAD + 'targetNamespace="u4" elementFormDefault="qualified"><xs:element name="item" type="xs:int"/></xs:schema>',
    "sm.xsd": XS_HEAD + 'targetNamespace="u5" elementFormDefault="qualified"><xs:element name="ext" type="xs:string"/></xs:schema>',
    "sx.xsd": XS_HEAD + '><xs:complexType name="A"><xs:sequence><xs:element name="k" type="A" minOccurs="0" maxOccurs="unbounded"/>'
              '<xs:element name="w" minOccurs="0"><xs:complexType><xs:sequence><xs:any processContents="skip" minOccurs="0" '
              'maxOccurs="unbounded"/></xs:sequence></xs:complexType></xs:element></xs:sequence>'
              '<xs:attribute name="p" type="xs:string"/></xs:complexType>'
              '<xs:complexType name="B"><xs:complexContent><xs:extension base="A"><xs:attribute name="q" type="xs:int"/>'
              '</xs:extension></xs:complexContent></xs:complexType>'
              '<xs:complexType name="C"><xs:sequence><xs:element name="only" type="xs:int"/></xs:sequence></xs:complexType>'
              '<xs:element name="r" type="A" nillable="true"/></xs:schema>',
    "sl.xsd": XS_HEAD + '><xs:element name="a"><xs:complexType><xs:sequence><xs:any processContents="lax" maxOccurs="unbounded"/>'
              '</xs:sequence></xs:complexType></xs:element></xs:schema>',
}
BIG_N = (65, 128, 129, 200)


def _big():
    """grammars declaring MORE than 64 attributes (the scanners' unsigned-int pool rows hold 64 entries) on one element and
    across elements, with documents using all of them / individual ones (every 8th attribute has a default)"""
    def attname(i):
        return "a%d" % i
    for n in BIG_N:
        decl = " ".join('%s CDATA %s' % (attname(i), ('"d%d"' % i) if i % 8 == 0 else "#IMPLIED") for i in range(1, n + 1))
        EXTS["big%d.dtd" % n] = "<!ELEMENT r (e*)><!ELEMENT e EMPTY><!ATTLIST e %s>" % decl
        xa = "".join('<xs:attribute name="%s" type="xs:string"%s/>' % (attname(i), (' default="d%d"' % i) if i % 8 == 0 else "")
                     for i in range(1, n + 1))
        EXTS["big%d.xsd" % n] = (XS_HEAD + '><xs:element name="r"><xs:complexType><xs:sequence><xs:element name="e" minOccurs="0" '
                                 'maxOccurs="unbounded"><xs:complexType>%s</xs:complexType></xs:element></xs:sequence>'
                                 '</xs:complexType></xs:element></xs:schema>' % xa)
        allattrs = " ".join('%s="v%d"' % (attname(i), i) for i in range(1, n + 1))
        sample = sorted(set([1, 2, 6, 7, 8, 9, 63, 64, 65, 66, n - 1, n] + list(range(3, n, 5))))
        some = "<e/>" + "".join('<e %s="s"/>' % attname(j) for j in sample if 1 <= j <= n) + "<e/>"
        for kind, head in (("bd", '<!DOCTYPE r SYSTEM "big%d.dtd"><r>' % n),
                           ("bs", '<r %s xsi:noNamespaceSchemaLocation="big%d.xsd">' % (XSI, n))):
            DOCS["%s%d_all" % (kind, n)] = head + "<e/><e/><e %s/><e %s/></r>" % (allattrs, allattrs)
            DOCS["%s%d_some" % (kind, n)] = head + some + "</r>"
    # across elements: 40 element types with 5 attributes each (200 declarations), every element used
    els = range(1, 41)
    EXTS["bigm.dtd"] = "<!ELEMENT r (%s)*>" % "|".join("e%d" % i for i in els) + "".join(
        '<!ELEMENT e%d EMPTY><!ATTLIST e%d x1 CDATA #IMPLIED x2 CDATA "m%d" x3 CDATA #IMPLIED x4 CDATA #IMPLIED x5 CDATA "n%d">' % (i, i, i, i)
        for i in els)
    DOCS["bdm_all"] = '<!DOCTYPE r SYSTEM "bigm.dtd"><r>' + "".join('<e%d x1="1" x2="2" x3="3" x4="4" x5="5"/>' % i for i in els) * 2 + "</r>"
    DOCS["bdm_some"] = '<!DOCTYPE r SYSTEM "bigm.dtd"><r>' + "".join('<e%d x%d="s"/>' % (i, 1 + i % 5) for i in els) + "</r>"


_big()
BIG_DOCS = {d for d in DOCS if d.startswith(("bd", "bs")) and d[2:3].isdigit() or d.startswith("bdm")}
DOC_IDS = sorted(DOCS)
SMALL_DOCS = [d for d in DOC_IDS if d not in BIG_DOCS and not d.startswith("fr") and d not in ("v11", "v11b")]
V11_DOCS = {"v11", "v11b"}
# documents with elements that are not declared in the schema they are validated against (trigger of F15u)
UNDECL_DOCS = {"slax1", "slax2", "sbad1", "sbadn", "snohint", "nnohint", "nnohintbad"}
SCHEMA_DOCS = [d for d in DOC_IDS if d.startswith("s")]
DTD_FAMILY = ("e3.dtd", ["dcv", "dcv2", "dcbad", "dcbad2", "dcsa", "dcroot"], ["dcint"])   # (dtd, external-subset-only docs, + internal)
EXT_DTD_DOCS = {"dext1", "dext2", "dcv", "dcv2", "dcbad", "dcbad2", "dcint", "dcsa", "dcroot"} | {d for d in DOCS if d.startswith("bd")}
XSI_DOCS = ["xt_child", "xt_childB", "xt_nil", "xt_rootnil", "xt_loc", "xt_skip", "xt_abort"]
XSI_FINALS = ["xt_plain", "xt_plainq", "xt_childB", "xt_child", "svn"]
FRAGS = ["fr1", "fr2", "frbad1", "frbad2", "frbad3"]
FAMILIES = [("s1.xsd", ["sv1", "sbad1"]), ("s2.xsd", ["sv2", "sbad2"]), ("sn.xsd", ["svn", "sbadn"]),
            ("si.xsd", ["sinc", "sincbad", "sinc2"])]
FEATURES = [("val", 3), ("ns", 2), ("schema", 2), ("skipdtd", 2), ("loaddtd", 2), ("exitfatal", 2), ("vcfatal", 2),
            ("fullcheck", 2), ("ic", 2), ("cache", 2), ("usecache", 2), ("disallowdtd", 2), ("igncached", 2),
            ("loadschema", 2), ("multimport", 2), ("srcofs", 2), ("entrefs", 2), ("ignws", 2)]

# member -> finding id, for the members listed in Classify15.exceptions
EXC_MEMBER = {"fSchemaElemNonDeclPool": "F15u", "fElemNonDeclPool": "F15u", "fSkipDTDValidation": "F21", "fDoNamespaces": "F21b", "fDoSchema": "F21b", "fXMLVersion": "F15v"}


def hx(s):
    b = s.encode("utf-8")
    return b.hex().upper() if b else "-"


WORKDIR = os.path.join(V.VERIF, "work", "C15", str(os.getpid()))


def write_workdir():
    """the external DTDs / schemas also exist as files, for the histories that run without entity resolver"""
    os.makedirs(WORKDIR, exist_ok=True)
    for k, v in EXTS.items():
        with open(os.path.join(WORKDIR, k), "w") as f:
            f.write(v)
    for k, v in DOCS.items():
        with open(os.path.join(WORKDIR, "d_%s.xml" % k), "w") as f:
            f.write(v)


def preamble():
    return ["W " + WORKDIR] + ["D %s %s%s" % (k, hx(DOCS[k]), " u" if k in UNDECL_DOCS else "") for k in DOC_IDS] + ["X %s %s" % (k, hx(EXTS[k])) for k in sorted(EXTS)]


class Runner:
    """runs request lines through a binary (a fresh process per batch; the preamble defines the documents)"""

    def __init__(self, binpath):
        self.bin = binpath
        self.pre = preamble()
        self.calls = 0

    def run(self, lines, timeout=600):
        self.calls += 1
        inp = "\n".join(self.pre + lines) + "\n"
        p = subprocess.run([self.bin], input=inp.encode(), stdout=subprocess.PIPE, stderr=subprocess.PIPE, timeout=timeout)
        out = p.stdout.decode("utf-8", "replace").splitlines()[len(self.pre):]
        return p.returncode, out, p.stderr.decode("utf-8", "replace")


# ----------------------------------------------------------------------------------------------------------------------
# generators
# ----------------------------------------------------------------------------------------------------------------------
def gen_history(rng, api, thorough):
    sc = rng.choice(SCANNERS) if rng.random() < 0.6 else "IG"
    ops = []
    # start from a configuration that makes the documents interesting
    if rng.random() < 0.8:
        ops.append("s:val:%d" % rng.choice([1, 1, 2, 0]))
    if rng.random() < 0.6:
        ops.append("s:ns:1")
        if rng.random() < 0.7:
            ops.append("s:schema:1")
    n = rng.randrange(1, 9 if not thorough else 13)
    caching = False
    for _ in range(n):
        r = rng.random()
        d = rng.choice(DOC_IDS)
        if d in V11_DOCS and rng.random() < 0.8:
            d = rng.choice(DOC_IDS)
        if d in FRAGS or d in BIG_DOCS:
            d = rng.choice(SMALL_DOCS)
        r2 = rng.random()
        if api == "ls" and r2 < 0.16:
            ops.append("pc:%s:%d:%d" % (rng.choice(FRAGS), rng.randrange(1, 6), rng.randrange(4)))
        elif api == "ls" and r2 < 0.24:
            ops.append("pf:%s:%d" % (d, rng.randrange(4)))
        elif r2 > 0.96:
            ops.append("pu:%s" % d)
        elif r < 0.42:
            ops.append("p:%s" % d)
        elif r < 0.54:
            ops.append("px:%s:%d" % (d, rng.randrange(1, 12)))
        elif r < 0.63:
            ops.append("pn:%s:%d" % (d, rng.randrange(0, 8)))
        elif r < 0.645:
            ops.append("pa:%s:%d" % (d, rng.randrange(0, 6)))
        elif r < 0.82:
            f, k = rng.choice(FEATURES)
            v = rng.randrange(k)
            ops.append("s:%s:%d" % (f, v))
            if f == "cache" and v:
                caching = True      # only a non-empty pool can legitimately change a later result (then: F:doc:r)
        elif r < 0.86:
            ops.append("us:%s" % rng.choice(SCANNERS))
        elif r < 0.90:
            g = rng.choice(sorted(EXTS))
            c = rng.randrange(2)
            caching = caching or c == 1
            ops.append("lg:%s:%s:%d" % (g, "d" if g.endswith(".dtd") else "s", c))
        elif r < 0.93:
            ops.append("rd")
        elif r < 0.95:
            ops.append("rg")
        elif r < 0.975:
            ops.append("ad")
        elif r < 0.99:
            ops.append("lk")
        else:
            ops.append("ul")
    fin = rng.choice(DOC_IDS)
    if fin in V11_DOCS or fin in FRAGS or fin in BIG_DOCS:
        fin = rng.choice(SMALL_DOCS)
    tail = ":r" if (caching or rng.random() < 0.3) else ""
    return "H %s %s %s F:%s%s" % (api, sc, " ".join(ops), fin, tail)


def gen_cache_cross(rng, thorough):
    """full cross product {cacheGrammarFromParse} x {useCachedGrammarInParse} x {grammar preloaded or not} x {entity resolver or
    files} x {pool locked or not} over schema families (documents sharing one schema, incl. include/import chains), the same
    document parsed 2-3 times or different documents of the family, IG and SG, all four APIs.  The final result is compared
    with a fresh parser modulo entity-resolution events (F:doc:t): a cached grammar must be transparent."""
    out = []
    for api in APIS:
        for sc in ("IG", "SG"):
            for cache in (0, 1):
                for use in (0, 1):
                    for pre in (0, 1):
                        for res in (1, 0):
                            for lock in ((0, 1) if (cache or pre) else (0,)):
                                for g, docs in FAMILIES:
                                    cfg = ["s:ns:1", "s:schema:1", "s:val:%d" % rng.choice([1, 1, 2])]
                                    if not res:
                                        cfg.append("s:resolver:0")
                                    mid = []
                                    if pre:
                                        mid.append("lg:%s:s:1" % g)
                                    if lock:
                                        mid.append("lk")
                                    mid += ["s:cache:%d" % cache, "s:usecache:%d" % use]
                                    pats = [[docs[0]] * rng.choice([1, 2]), [rng.choice(docs) for _ in range(rng.randrange(1, 4))]]
                                    for k, pat in enumerate(pats):
                                        fin = pat[0] if k == 0 else rng.choice(docs)
                                        ops = cfg + mid + ["p:%s" % d for d in pat]
                                        out.append(("cross-%s-%s" % (api, sc), "H %s %s %s F:%s:t" % (api, sc, " ".join(ops), fin)))
    return out


def gen_dtd_cross(rng, thorough):
    """cached DTD grammars: {loadGrammar(dtd, toCache) + useCachedGrammarInParse | cacheGrammarFromParse + earlier parse} x
    {entity resolver | files} x {ignoreCachedDTD} x validation scheme, on DG and IG and all four APIs, over documents that
    exercise every DTD-grammar-dependent check, DOCTYPE with the external subset only and with an internal subset; compared
    with a fresh parser that reads the DTD inline (modulo resolution / DTDHandler events and doctype maps: F:doc:t)."""
    dtd, ext_docs, int_docs = DTD_FAMILY
    out = []
    for api in APIS:
        for sc in ("DG", "IG"):
            for how in ("lg", "cp"):
                for res in (1, 0):
                    for ign in (0, 1):
                        for fin in ext_docs + int_docs:
                            cfg = ["s:val:%d" % rng.choice([1, 1, 2])]
                            if rng.random() < 0.3:
                                cfg.append("s:ns:1")
                            if not res:
                                cfg.append("s:resolver:0")
                            if ign or fin in int_docs:
                                # (a cached DTD and an internal subset exclude each other by design: "internal subset is not
                                #  allowed when reusing the grammar" unless ignoreCachedDTD is set)
                                cfg.append("s:igncached:1")
                            pick = (lambda: rng.choice(ext_docs + (int_docs if (ign or fin in int_docs) else [])))
                            if how == "lg":
                                mid = ["lg:%s:d:1" % dtd, "s:usecache:1"]
                                mid += ["p:%s" % pick() for _ in range(rng.randrange(0, 3))]
                            else:
                                mid = ["s:cache:1", "p:%s" % rng.choice(ext_docs)]
                                if sc != "DG":      # (DG: a second parse after an external-DTD parse is crash class F15c)
                                    mid += ["p:%s" % pick() for _ in range(rng.randrange(0, 2))]
                            out.append(("dtdcross-%s-%s" % (api, sc), "H %s %s %s F:%s:t" % (api, sc, " ".join(cfg + mid), fin)))
    return out


TOGGLES = ["ic", "loaddtd", "fullcheck", "exitfatal", "vcfatal", "skipdtd", "loadschema", "ns", "schema"]


def gen_settings_between(rng, thorough):
    """one parser re-used with SETTINGS CHANGED BETWEEN PARSES: a schema-aware parse with validation off / auto / on of a
    document carrying xsi:type / xsi:nil / xsi:schemaLocation on child elements, inside skipped wildcard content or on an
    undeclared element (also aborted there: validation-constraint-fatal, handler exception at callback k), then the settings
    change (validation scheme and a random subset of the other switches) and a document without them is parsed."""
    out = []
    k = 0
    for api in APIS:
        for sc in ("IG", "SG"):
            for v1 in (0, 2, 1):
                for d1 in XSI_DOCS:
                    for fin in XSI_FINALS:
                        k += 1
                        if not thorough and (k + len(d1)) % 2:
                            continue            # half of the cross product per run (the other half with another seed / tier)
                        pre = ["s:ns:1", "s:schema:1", "s:val:%d" % v1]
                        if v1 == 1 and d1 == "xt_abort":
                            pre.append("s:vcfatal:1")
                        first = rng.choice(["p:%s" % d1, "p:%s" % d1, "px:%s:%d" % (d1, rng.randrange(2, 9)), "pn:%s:%d" % (d1, rng.randrange(1, 6))])
                        mid = ["s:val:%d" % rng.choice([1, 1, 2]), "s:vcfatal:0"]
                        for f in rng.sample(TOGGLES, rng.randrange(0, 3)):
                            if f not in ("ns", "schema"):
                                mid.append("s:%s:%d" % (f, rng.randrange(2)))
                        extra = ["p:%s" % rng.choice(XSI_DOCS)] if rng.random() < 0.25 else []
                        if extra:
                            mid = ["s:val:0"] + extra + mid
                        out.append(("settings-%s-%s" % (api, sc), "H %s %s %s %s %s F:%s" % (api, sc, " ".join(pre), first, " ".join(mid), fin)))
    return out


def gen_big(rng, thorough):
    """size dimension with shared declaration objects: a cached grammar (loadGrammar + useCachedGrammarInParse, or cached from
    the first parse) with more than 64 attribute declarations; a document using all of them, then documents using / omitting
    individual ones: defaults must still be applied and nothing may be reported as already specified"""
    out = []
    for api in APIS:
        for n in BIG_N:
            for kind, scs, g, t in (("bd", ("IG", "DG"), "big%d.dtd" % n, "d"), ("bs", ("IG", "SG"), "big%d.xsd" % n, "s")):
                for sc in scs:
                    for how in ("lg", "cp"):
                        cfg = ["s:val:1"] + (["s:ns:1", "s:schema:1"] if t == "s" else []) + (["s:resolver:0"] if (t == "d" and how == "lg") else [])
                        mid = (["lg:%s:%s:1" % (g, t), "s:usecache:1"] if how == "lg" else ["s:cache:1"])
                        a, b = "%s%d_all" % (kind, n), "%s%d_some" % (kind, n)
                        seqs = [[a], [a, b, a]] if not (sc == "DG" and how == "cp") else [[a]]
                        for seq in seqs:
                            out.append(("big-%s-%s" % (api, sc), "H %s %s %s %s F:%s:t" % (api, sc, " ".join(cfg + mid), " ".join("p:" + d for d in seq), b)))
        for sc in ("IG", "DG"):
            out.append(("big-%s-%s" % (api, sc), "H %s %s s:val:1 s:resolver:0 lg:bigm.dtd:d:1 s:usecache:1 p:bdm_all F:bdm_some:t" % (api, sc)))
            out.append(("big-%s-%s" % (api, sc), "H %s %s s:val:1 s:cache:1 p:bdm_all F:bdm_some:t" % (api, sc)))
    return out


SEQ_FEATURES = {
    "sax2": ["validation", "dynamic", "schema", "fullcheck", "ns", "nsprefixes", "loaddtd", "ic", "skipdtd", "exitfatal", "vcfatal", "loadschema"],
    "ls": ["validate", "validate-if-schema", "schema", "fullcheck", "ns", "loaddtd", "ic", "skipdtd", "exitfatal", "vcfatal", "entrefs", "ignws"],
    "sax": ["val", "schema", "fullcheck", "ns", "loaddtd", "ic", "skipdtd", "exitfatal", "vcfatal", "loadschema"],
    "dom": ["val", "schema", "fullcheck", "ns", "loaddtd", "ic", "skipdtd", "exitfatal", "vcfatal", "entrefs", "ignws"],
}
PROBES = ["plain", "dv1", "dbad1", "dbad2", "dws", "dext1", "sv1", "sbad1", "svn", "ns1", "nsunb", "xt_plain", "xt_child", "snohint", "dcsa"]


def gen_feature_seq(rng, thorough):
    """feature SEQUENCES: each feature switched on/off several times in every order (exhaustive for the validation /
    validation-dynamic pair of SAX2 and validate / validate-if-schema of DOMLS, random for the rest), optionally with parses in
    between; the parser must end up in the state given by the final read-back values: equal to a fresh parser on which only
    those were set (both orders for SAX2)."""
    out = []
    import itertools
    # exhaustive: all sequences of length <= 4 over the two coupled validation switches
    for api, (f1, f2) in (("sax2", ("validation", "dynamic")), ("ls", ("validate", "validate-if-schema"))):
        steps = [(f, v) for f in (f1, f2) for v in (0, 1)]
        for ln in (2, 3, 4):
            for seq in itertools.product(steps, repeat=ln):
                if not thorough and ln == 4 and rng.random() < 0.6:
                    continue
                ops = ["s:%s:%d" % fv for fv in seq]
                if rng.random() < 0.3:
                    ops.insert(rng.randrange(1, len(ops) + 1), "p:%s" % rng.choice(PROBES))
                for order in (("f", "r") if api == "sax2" else ("f",)):
                    # "plain" has no grammar at all: the one kind of document on which Val_Auto and Val_Always differ
                    for fin in ("plain", rng.choice(["dws", "svn", "dext1", "dbad1"])):
                        out.append(("featseq-" + api, "Q %s IG %s %s F:%s" % (api, order, " ".join(ops), fin)))
    # random longer sequences over all switches
    for api in APIS:
        for _ in range(60 if not thorough else 1500):
            feats = SEQ_FEATURES[api]
            ops = []
            for _j in range(rng.randrange(3, 14)):
                f = rng.choice(feats[:4]) if rng.random() < 0.5 else rng.choice(feats)
                ops.append("s:%s:%d" % (f, rng.randrange(3) if f == "val" else rng.randrange(2)))
                if rng.random() < 0.12:
                    ops.append("p:%s" % rng.choice(PROBES))
            out.append(("featseq-" + api, "Q %s %s %s %s F:%s" % (api, rng.choice(["IG", "IG", "DG", "WF"]), rng.choice("fr"),
                                                               " ".join(ops), rng.choice(PROBES))))
    return out


POOL_OPS = ["pcache", "porphan", "pget", "rput", "rget", "rorphan"]
POOL_OPS_MEDIATED = ["pcache", "pget", "rput", "rget", "rorphan"]


def gen_pool_trace(rng):
    """either the pool is also modified directly (orphanGrammar / clear by another party) and the resolver never looks
    into it (useCachedGrammarInParse off), or the resolver uses cached grammars and all removals go through it: a direct
    removal under a resolver that references the grammar leaves a dangling pointer in the implementation (undefined
    behaviour; T15_cache_transparent is stated for resolver-mediated sequences for the same reason)"""
    ops = []
    direct = rng.random() < 0.5
    for _ in range(rng.randrange(3, 25)):
        r = rng.random()
        k = rng.choice("abcd")
        if direct and r >= 0.95:
            r = 0.9
        if not direct and 0.75 <= r < 0.80:
            r = 0.86
        if r < 0.55:
            ops.append("%s:%s" % (rng.choice(POOL_OPS if direct else POOL_OPS_MEDIATED), k))
        elif r < 0.63:
            ops.append("lock")
        elif r < 0.69:
            ops.append("unlock")
        elif r < 0.75:
            ops.append("rcacheall")
        elif r < 0.80:
            ops.append("pclear")
        elif r < 0.85:
            ops.append("rreset")
        elif r < 0.89:
            ops.append("rresetcached")
        elif r < 0.95:
            ops.append("cachefromparse:%d" % rng.randrange(2))
        else:
            ops.append("usecached:%d" % rng.randrange(2))
    return "G " + " ".join(ops)


def gen_spool(rng):
    words = ["x", "y", "zz", "q", "nope", "w1", "w2"]
    ops = []
    for _ in range(rng.randrange(2, 7)):
        ops.append("add:%s" % rng.choice(words))
    ops.append("sync")
    for _ in range(rng.randrange(3, 10)):
        r = rng.random()
        w = rng.choice(words)
        ops.append(("add:%s" if r < 0.3 else "id:%s" if r < 0.8 else "exists:%s") % w)
    ops.append("count")
    return "S " + " ".join(ops)


# ----------------------------------------------------------------------------------------------------------------------
def split_hist(line):
    t = line.split()
    return t[:3], t[3:-1], t[-1]


def is_cfg(op):
    return op.startswith("s:") or op.startswith("us:")


def shrink(xh, line):
    """drop operations while the implementation still reports a difference of the same class"""
    head, ops, fin = split_hist(line)
    def cls(out):       # class of an answer: first token (configchanged: with the parameter name)
        w = out.split()
        return "?" if not w else (" ".join(w[:2]) if w[0] == "configchanged" else w[0])
    rc, out, _ = xh.run([line])
    want = cls(out[0]) if out else "?"
    changed = True
    while changed and ops:
        changed = False
        cands = [ops[:i] + ops[i + 1:] for i in range(len(ops))]
        rc, outs, _ = xh.run([" ".join(head + c + [fin]) for c in cands])
        for c, o in zip(cands, outs):
            if cls(o) == want:
                ops = c
                changed = True
                break
    return " ".join(head + ops + [fin])


def shrink_crash(xh, line):
    """drop operations while the harness process still dies on the history"""
    head, ops, fin = split_hist(line)
    changed = True
    while changed and ops:
        changed = False
        for i in range(len(ops)):
            c = ops[:i] + ops[i + 1:]
            rc, o, _ = xh.run([" ".join(head + c + [fin])])
            if rc != 0 and not o:
                ops = c
                changed = True
                break
    return " ".join(head + ops + [fin])


def run(ctx):
    t0 = time.time()
    thorough = ctx.tier == "thorough"
    ctx.coverage["trusted_base"] = list(V.GLOBAL_TRUSTED_BASE) + [
        "the committed classification coq/theories/C15/Classify15.v (which members are configuration / per-parse / cache / "
        "infrastructure) is hand-written: trusted, but every unclassified member fails the obligation and the history "
        "correspondence attacks the table",
        "translator/c15_scan.py recognises assignments and mutating calls by pattern; conditions guarding an assignment are "
        "ignored; pointer-valued right-hand sides are opaque",
        "modelled rather than verified: the body of a parse (an arbitrary function that may write every non-configuration "
        "member); that parse bodies do not write configuration members is an assumption of T15_history attacked by the "
        "history correspondence only"]
    ctx.assumptions = ["external entities are served from memory by the harness' resolvers (no file or network access)",
                       "results are compared as canonical event/error/DOM dumps; string-pool ids and addresses are never printed"]
    ctx.build_lib()
    # ---- translate
    try:
        side, _ = TS.generate()
    except Exception as e:  # noqa
        ctx.note("translator failed: %r" % (e,))
        ctx.violation("translator", {"what": "T-scan can no longer read the scanner classes / reset functions",
                                     "error": repr(e)}, no_input=True)
        return
    cache_uses = side.pop("cache_list_uses", [])
    nmem = sum(len(v) for v in side.values()) + len(cache_uses)
    ctx.coverage["inventory"] = {c: {"members": len(v), "touched_by_reset": sum(1 for r in v if r["reset"] != "no")}
                                 for c, v in side.items()}
    ctx.coverage["cache_list_uses"] = cache_uses
    # ---- prove
    ok, out, failed = ctx.prove(["Base", "Gen", "C15"],
                                ["theories/C15/Properties_C15.vo", "theories/C15/Extract_C15.vo"],
                                props_file="theories/C15/Properties_C15.v", extra_obligations=nmem)
    proof_broken = not ok
    if proof_broken:
        ctx.note("proof obligations failed: %s" % failed)
        ctx.note(out[-1800:])
    if not os.path.exists(os.path.join(V.VERIF, "ocaml", "C15", "gen_c15.ml")):
        ctx.violation("obligation", {"what": "model does not extract", "output": out[-3000:]}, no_input=True)
        return
    write_workdir()
    import atexit, shutil
    atexit.register(lambda: shutil.rmtree(WORKDIR, ignore_errors=True))
    xm = Runner(ctx.ocaml("C15", ["gen_c15"]))
    xh = Runner(ctx.harness("C15"))

    # ---- replay mode
    if ctx.replay:
        r = json.load(open(ctx.replay))
        req = r.get("request")
        if not req:
            ctx.note("replay file has no request")
            return
        rc, o, err = xh.run([req])
        rc2, m, _ = xm.run([req])
        ctx.note("replay %s\n  impl : %s\n  model: %s" % (req, o[0] if o else err[-300:], m[0] if m else "?"))
        ctx.count()
        if not o or not (o[0].startswith("same") or (req[0] in "GS" and m and o[0].strip() == m[0].strip())):
            ctx.violation("replay", {"request": req, "impl": o[0] if o else None, "model": m[0] if m else None})
        return

    # ---- offenders of the generated obligation that are not listed as exceptions
    rc, o, _ = xm.run(["O"])
    offenders = [] if not o or o[0].strip() == "none" else o[0].split()
    if offenders:
        ctx.note("generated obligation T15_reset_complete: offenders %s" % offenders)

    # ---- cases
    rng = ctx.rng
    cases = []   # (kind, line)
    wit = [
        ("wit-F21", "H sax2 IG s:val:1 s:skipdtd:1 s:schema:0 p:dbad1 s:schema:1 F:dbad1"),
        ("wit-F21", "H ls IG s:val:1 s:skipdtd:1 s:schema:0 p:dbad1 s:schema:1 F:dbad1"),
        ("wit-F21", "H sax IG s:ns:1 s:val:1 s:skipdtd:1 s:schema:0 p:dv1 s:schema:1 F:dbad1"),
        ("wit-F21", "H dom IG s:ns:1 s:val:1 s:skipdtd:1 s:schema:0 p:dv1 s:schema:1 F:dbad1"),
        ("wit-F15v", "H sax IG p:v11 F:cref"), ("wit-F15v", "H sax2 WF p:v11b F:cref"),
        ("wit-F15v", "H dom DG p:v11 F:cref"), ("wit-F15v", "H ls SG p:v11 F:cref"),
        ("wit-F15p", "H sax IG pa:dv1:1 F:plain"), ("wit-F15p", "H sax2 WF pa:dbad1:0 F:plain"),
        ("wit-F15p", "H dom DG pa:dv2:2 F:plain"),
        ("wit-F21b", "H sax SG s:ns:0 p:plain us:IG F:nsunb"), ("wit-F21b", "H dom SG s:ns:0 p:plain us:DG F:nsunb"),
        ("wit-F15u", "H sax IG s:ns:1 s:schema:1 s:val:1 p:slax1 F:slax2"),
        ("wit-F15u", "H dom SG s:ns:1 s:schema:1 s:val:1 p:slax1 F:slax2"),
        ("wit-F15c", "H sax2 DG s:cache:1 p:cref p:dext1 F:nsempty"),
        ("wit-F22", "S add:x add:y sync id:zz id:x add:q id:q id:nope count"),
        ("wit-F15r", "H dom IG s:cache:1 px:m_lt:6 lk p:dext2 F:dcsa:r"), ("wit-F15r", "H sax DG s:cache:1 p:plain lk p:dext1 F:plain"),
        ("wit-F15i", "H ls IG s:schema:1 pu:sinc lg:si.xsd:s:0 F:m_dupattr:r"),
        ("wit-F15a", "H ls IG s:filter:2 pab:dv1 F:dv1"), ("wit-F15w", "H ls IG s:val:1 pcx:frext:1:0:1 F:dbad1"),
    ]
    cases += wit
    nh = 110 if not thorough else 7000
    for api in APIS:
        for _ in range(nh):
            cases.append(("hist-" + api, gen_history(rng, api, thorough)))
    # two-document histories over the whole pool (the refuter of T15_reset_complete): every document after every other
    pairs = [(a, b) for a in DOC_IDS for b in DOC_IDS if a not in V11_DOCS]
    rng.shuffle(pairs)
    for i, (a, b) in enumerate(pairs[: (400 if not thorough else len(pairs))]):
        api = APIS[i % 4]
        sc = SCANNERS[(i // 4) % 4]
        cfg = ["s:val:%d" % (1 + i % 2), "s:ns:1", "s:schema:1"] if (i // 16) % 2 == 0 else ["s:val:1"]
        cases.append(("pair-" + api, "H %s %s %s p:%s F:%s" % (api, sc, " ".join(cfg), a, b)))
    if offenders or proof_broken:
        # refuter of the generated obligation: ALL two-document histories, on the scanners the offenders name
        scs = sorted({o.split(":")[0][:2] for o in offenders if o.split(":")[0][:2] in SCANNERS}) or SCANNERS
        # (offenders of T15_cache_lists are refuted by the cache cross product below, which is always run)
        k = 0
        for a in DOC_IDS:
            for b in DOC_IDS:
                for sc in scs:
                    for cfg in ("s:val:1", "s:val:1 s:ns:1 s:schema:1"):
                        cases.append(("refute-" + sc, "H %s %s %s p:%s F:%s" % (APIS[k % 4], sc, cfg, a, b)))
                        k += 1
    # handler exception at every callback index / parseNext abandoned at every step, for a few documents
    for d in ("dv1", "sv1", "ns2", "dbad2"):
        for k in range(1, 14 if not thorough else 30):
            api = APIS[k % 4]
            cases.append(("exc-" + api, "H %s IG s:val:1 s:ns:1 s:schema:1 px:%s:%d F:dv2" % (api, d, k)))
            cases.append(("prog-" + api, "H %s IG s:val:1 s:ns:1 s:schema:1 pn:%s:%d F:dbad3" % (api, d, k - 1)))
    cases += gen_cache_cross(rng, thorough)
    cases += gen_dtd_cross(rng, thorough)
    cases += gen_settings_between(rng, thorough)
    cases += gen_big(rng, thorough)
    cases += gen_feature_seq(rng, thorough)
    # DOMLSParser: parseWithContext with every action / context kind / fragment, then a validating parse; filters; parseURI
    for frag in FRAGS:
        for action in range(1, 6):
            for kind in range(4):
                cases.append(("ls-ctx", "H ls IG s:val:1 pc:%s:%d:%d F:%s" % (frag, action, kind, ("dws", "dbad1", "dv1")[(action + kind) % 3])))
    for api in APIS:
        for mode in range(4):
            cases.append(("ls-filter-" + api, "H %s IG s:val:1 pf:dv2:%d pu:dws F:dws" % (api, mode)))
    # DOMLSParser: abort() called from the installed filter (every filter behaviour), then parses with the same filter;
    # parseWithContext left by an exception of the resource resolver / by none (k beyond the callbacks)
    for mode in range(1, 5):
        for d, f in (("dv1", "dv2"), ("dv2", "dv1")):
            cases.append(("ls-abort", "H ls %s s:val:1 s:filter:%d pab:%s p:%s F:%s" % (SCANNERS[mode % 4], mode, d, f, f)))
            cases.append(("ls-abort", "H ls IG s:filter:%d p:%s F:%s" % (mode, d, f)))
    cases.append(("ls-ctxexc", "H ls IG s:val:1 pcx:frext:2:1:1 p:plain F:dv1"))
    cases.append(("ls-ctxexc", "H ls IG s:val:1 pcx:frext:1:0:9 F:dbad1"))
    # locked pool: parses and loads that would add grammars
    for api in APIS:
        for sc in ("IG", "SG"):
            cases.append(("lock-" + api, "H %s %s s:ns:1 s:schema:1 s:val:1 lg:s1.xsd:s:1 lk s:cache:1 p:svn p:sv2 lg:sn.xsd:s:1 "
                          "lg:e1.dtd:d:1 rg p:dext1 F:dv1" % (api, sc)))
            cases.append(("lock-" + api, "H %s %s s:ns:1 s:schema:1 s:val:1 lk s:cache:1 p:sv1 p:svn ul F:sv1:r" % (api, sc)))
    # cached grammars are transparent
    for api in APIS:
        for sc in ("IG", "SG"):
            for mode in ("lg", "cp"):
                for g, d in (("s1.xsd", "sv1"), ("s1.xsd", "sbad1"), ("s2.xsd", "sv2"), ("s2.xsd", "sbad2"), ("sn.xsd", "svn"),
                             ("sn.xsd", "sbadn")):
                    cases.append(("transp-" + api, "T %s %s %s %s s %s s:ns:1 s:schema:1 s:val:1" % (api, sc, mode, g, d)))
            # preloaded grammar, instance WITHOUT location hint vs hinted twin parsed with the grammar inline (verdicts only)
            for g, d in (("s1.xsd", "snohint,sv1"), ("sn.xsd", "nnohint,svn"), ("sn.xsd", "nnohintbad,sbadn")):
                cases.append(("transp-nohint-" + api, "T %s %s nh %s s %s s:ns:1 s:schema:1 s:val:1" % (api, sc, g, d)))
        for sc in ("IG", "DG"):
            for g, d in (("e1.dtd", "dext1"), ("e2.dtd", "dext2")):
                cases.append(("transp-dtd-" + api, "T %s %s lg %s d %s s:val:1" % (api, sc, g, d)))
    for _ in range(300 if not thorough else 20000):
        cases.append(("pool", gen_pool_trace(rng)))
    for _ in range(40 if not thorough else 2000):
        cases.append(("spool", gen_spool(rng)))

    lines = [c[1] for c in cases]
    # the implementation may crash on a history (that is a finding or a violation of its own): answer that line with
    # "crash" and go on with the rest of the batch
    impl = []
    crashes = 0
    while len(impl) < len(lines):
        rc1, part, err1 = xh.run(lines[len(impl):], timeout=3000)
        impl += part
        if len(impl) < len(lines):
            req = lines[len(impl)]
            impl.append("crash rc=%d" % rc1)
            crashes += 1
            if f15w_class(req) and ctx.find_known("F15w"):
                if not any(k.startswith("F15w") for k in ctx.known_hits):
                    ctx.known_finding("F15w", "an exception (resource resolver callback, out of memory) that leaves "
                                      "DOMLSParser::parseWithContext leaves the parser in parse-with-context mode: validation "
                                      "scheme and whitespace setting stay overwritten, fDocument keeps pointing to the APPLICATION's "
                                      "context document, which the next reset() moves into the parser-owned document vector and the "
                                      "parser later deletes (double free) (reproduced by `%s`)" % req)
            elif f15r_class(req) and ctx.find_known("F15r"):
                crashes -= 1        # a recorded crash class does not count towards the give-up limit
                if not any(k.startswith("F15r") for k in ctx.known_hits):
                    ctx.known_finding("F15r", "cacheGrammarFromParse with a LOCKED grammar pool that already holds the \"[dtd]\" grammar "
                                      "of an earlier parse: IG/DGXMLScanner::scanDocTypeDecl of a document with an external DTD subset "
                                      "cannot orphan that grammar (the pool is locked) but re-keys it by system id all the same -- the "
                                      "locked pool's grammar is modified, its registry key dangles (heap-use-after-free in the next "
                                      "getGrammar) and the grammar is registered a second time in the per-parse bucket (double free) "
                                      "(reproduced by `%s`)" % req)
            elif f15i_class(req) and ctx.find_known("F15i"):
                crashes -= 1
                if not any(k.startswith("F15i") for k in ctx.known_hits):
                    ctx.known_finding("F15i", "loadGrammar(schema, toCache=false) right after a parse that loaded the same schema with "
                                      "<xs:include>: IG/SGXMLScanner::loadGrammar does not clear the per-parse fSchemaInfoList (scanReset "
                                      "does), TraverseSchema::preprocessSchema replaces (deletes) the stale entry of the including schema "
                                      "while the stale entry of the included schema still points to it: heap-use-after-free in "
                                      "SchemaInfo::addSchemaInfo <- preprocessInclude (reproduced by `%s`)" % req)
            elif f15c_class(req) and ctx.find_known("F15c"):
                if not any(k.startswith("F15c") for k in ctx.known_hits):
                    ctx.known_finding("F15c", "DGXMLScanner with cacheGrammarFromParse: after a parse has cached the DTD "
                                      "grammar, parsing a document with an external DTD subset and then another document "
                                      "crashes in GrammarResolver::reset (DTDGrammar destroyed twice) (reproduced by `%s`)" % req)
            else:
                small = shrink_crash(xh, req) if req.startswith("H ") else req
                ctx.violation("history-crash", {"what": "the library crashes (memory error) while executing this history on one "
                                                        "parser object; request = shrunk history, run in a child process",
                                                "rc": rc1, "stderr": err1[-2000:], "request": small, "original_request": req})
            if crashes > 8:
                return
    rc2, model, err2 = xm.run(lines, timeout=3000)
    if rc2 != 0 or len(model) != len(lines):
        ctx.violation("model-crash", {"what": "model driver crashed", "stderr": err2[-2000:]}, no_input=True)
        return

    # batch pre-pass: differing histories whose first candidate finding explains them (difference gone once its trigger is
    # removed) are settled with ONE extra harness run for all of them
    pend = []
    for (kind, req), i, m in zip(cases, impl, model):
        if req[0] == "H" and i.startswith("diff"):
            c = [f for f in candidates(req, m.strip()) if ctx.find_known(f)]
            if c:
                pend.append((req, c[0], neutralise(req, c[0])))
    batch_known = {}
    if pend:
        _, no, _ = xh.run([p[2] for p in pend], timeout=3000)
        for (req, fid, _n), o in zip(pend, no):
            if o.startswith("same"):
                batch_known[req] = fid
    kinds = {}
    verdicts = {}
    known_seen = {}
    unexplained = 0
    per_kind = {}       # violations reported per generator family (cap 3 each, so that one class cannot hide another)
    for (kind, req), i, m in zip(cases, impl, model):
        ctx.count()
        kinds[kind] = kinds.get(kind, 0) + 1
        i = i.strip()
        m = m.strip()
        v = i.split()[0] if i else "?"
        if req[0] in "HTQ":
            verdicts[v] = verdicts.get(v, 0) + 1
        if req[0] in "GS":
            ctx.distinct(req)
            if i == m:
                continue
            if req[0] == "S":
                # ids of strings that are in neither pool must be 0 (specification = xm's string-pool oracle)
                if ctx.find_known("F22") and f22_class(req, i, m):
                    known_seen.setdefault("F22", req)
                    continue
            ctx.violation("divergence", {"request": req, "impl": i, "model": m,
                                         "what": "pool/resolver (G) or string pool (S) trace differs from the model"})
            unexplained += 1
            continue
        # H / T lines
        if v == "same":
            parts = i.split()
            if len(parts) >= 3 and (parts[1] != "0" or parts[2] != "0"):
                ctx.distinct((req.split()[1], req.split()[-1], parts[3] if len(parts) > 3 else ""))
            continue
        capkey = kind.split("-")[0]
        if per_kind.get(capkey, 0) >= 3 or unexplained >= 24:
            continue
        if v == "crash":
            continue            # handled when it happened
        if req[0] == "Q" and v != "same":
            ctx.violation("feature-sequence", {"request": req, "impl": i[:3000],
                                               "what": "after this sequence of configuration calls the parser is not in the state "
                                                       "determined by the final read-back values (getFeature / getParameter / "
                                                       "getXxx): a fresh parser on which only those values were set reads back "
                                                       "differently or parses the probe document differently"})
            unexplained += 1; per_kind[capkey] = per_kind.get(capkey, 0) + 1
            continue
        if v == "configchanged":
            par = i.split()[1] if len(i.split()) > 1 else "?"
            hd, hops, _f = split_hist(req)
            if par in ("ns", "schema") and (hd[2] == "SG" or "us:SG" in hops) and ctx.find_known("F21b"):
                known_seen.setdefault("F21b", req)
                continue
            if par == "filter" and hd[1] == "ls" and any(o.startswith("pab:") for o in hops) and ctx.find_known("F15a"):
                known_seen.setdefault("F15a", req)
                continue
            small = shrink(xh, req)
            ctx.violation("configchanged", {"request": small, "original_request": req, "impl": i[:3000],
                                            "what": "a setting read back through the public getters (getFeature / getParameter / "
                                                    "getXxx) changed although no configuration call was made: a parse or failed "
                                                    "parse modified the configuration"})
            unexplained += 1; per_kind[capkey] = per_kind.get(capkey, 0) + 1
            continue
        if v in ("poolchanged", "adoptchanged", "harness-exception", "bad-request"):
            small = shrink(xh, req) if v in ("poolchanged", "adoptchanged") and req.startswith("H ") else req
            ctx.violation(v, {"request": small, "original_request": req, "impl": i[:3000], "what": {
                "poolchanged": "the grammar enumerator of a LOCKED pool changed",
                "adoptchanged": "a previously adopted document changed"}.get(v, "harness could not run the request")})
            unexplained += 1; per_kind[capkey] = per_kind.get(capkey, 0) + 1
            continue
        # v == diff
        if req[0] == "T":
            tt = req.split()
            if tt[2] == "SG" and tt[3] == "nh" and tt[4] == "sn.xsd" and ctx.find_known("F15s"):
                known_seen.setdefault("F15s", req)
                continue
            ctx.violation("cache-transparency", {"request": req, "impl": i[:3000],
                                                 "what": "validating with a preloaded/cached grammar differs from parsing it inline"})
            unexplained += 1; per_kind[capkey] = per_kind.get(capkey, 0) + 1
            continue
        # attribution on the full history first (cheap): the model explains the difference by excepted members AND the
        # difference disappears when the trigger of that finding is taken out of the history; otherwise shrink
        req2 = req
        done = False
        if req in batch_known:
            known_seen.setdefault(batch_known[req], req)
            continue
        for fid in candidates(req, m):
            if not ctx.find_known(fid):
                continue
            neutral = neutralise(req2, fid)
            _, no, _ = xh.run([neutral])
            if no and no[0].startswith("same"):
                known_seen.setdefault(fid, req)
                done = True
                break
            req2 = neutral          # something else differs as well: go on with the neutralised history
        if done:
            continue
        small = shrink(xh, req2)
        _, so, _ = xh.run([small])
        _, sm, _ = xm.run([small])
        sm0 = sm[0].strip() if sm else "?"
        fid = attribute(small, sm0)
        if so and so[0].startswith("configchanged"):
            # neutralising one finding turned the history into the configuration-readback class: same rule as above
            w = so[0].split()
            hd2, hops2, _f2 = split_hist(small)
            fid = "F21b" if (len(w) > 1 and w[1] in ("ns", "schema") and (hd2[2] == "SG" or "us:SG" in hops2)) else None
        if fid and ctx.find_known(fid):
            known_seen.setdefault(fid, small)
            continue
        ctx.violation("history", {"request": small, "original_request": req, "impl": (so[0] if so else i)[:3000], "model": sm0,
                                  "what": "the result of the final parse depends on the parser's history (differs from a "
                                          "fresh parser with the same configuration calls)"})
        unexplained += 1; per_kind[capkey] = per_kind.get(capkey, 0) + 1

    ctx.coverage["traces_validated_against_impl"] = len(lines)
    ctx.coverage["input_distribution"] = kinds
    ctx.coverage["answers"] = verdicts
    ctx.coverage["harness_invocations"] = xh.calls
    for k in (len(wit) + 3, len(cases) // 2, len(cases) - 400, len(cases) - 1):
        if 0 <= k < len(cases):
            ctx.sample({"kind": cases[k][0], "request": cases[k][1], "impl": impl[k][:200], "model": model[k][:200]})

    msgs = {
        "F21": "IGXMLScanner::scanReset executes fSkipDTDValidation = fSkipDTDValidation && fDoSchema: a parse overwrites the "
               "user's setting, so a later parse differs from a fresh parser with the same settings",
        "F21b": "SGXMLScanner::scanReset forces fDoNamespaces/fDoSchema = true on the scanner object; after useScanner() the "
                "forced values are copied to the next scanner (setParseSettings), so the parse differs from a fresh parser "
                "that received the same calls",
        "F15v": "fXMLVersion (XMLScanner and ReaderMgr) is never reset: after an XML 1.1 document a document without XML "
                "declaration is parsed with XML 1.1 rules",
        "F15p": "a progressive parse abandoned without parseReset leaves its readers on the reader stack; the next parse "
                "continues into the old document's remaining input",
        "F15u": "the pool of undeclared (fault-in) schema element declarations (IGXMLScanner::fSchemaElemNonDeclPool, "
                "SGXMLScanner::fElemNonDeclPool) is never cleared: an element name seen undeclared in an earlier document is "
                "found there, which changes lax-wildcard / xsi:type validation of a later document",
        "F15s": "SGXMLScanner does not find a preloaded NO-namespace schema grammar (loadGrammar + useCachedGrammarInParse) "
                "for the root element of an instance without schema-location hint: ElementNotDefined, while the same grammar "
                "given inline (noNamespaceSchemaLocation) or preloaded into IGXMLScanner validates the document",
        "F15d": "a DTD preloaded with loadGrammar(DTDGrammarType, toCache) + useCachedGrammarInParse loses the 'declared in the "
                "external subset' marking of its declarations: for a standalone=\"yes\" document the standalone validity "
                "constraints (defaulted attributes, normalisation) are not reported, while the same DTD read inline (or cached "
                "from an earlier parse) reports them",
        "F15k": "cacheGrammarFromParse with a LOCKED grammar pool: the pool refuses the grammar (it stays in the per-parse bucket) "
                "but its SchemaInfo is stored in the persistent fCachedSchemaInfoList, so the next parse treats the schema "
                "as already seen, skips loading it and leaves the document unvalidated (no defaults, no type information)",
        "F15a": "DOMLSParser::abort() overwrites the application's filter (fFilter = &g_AbortFilter) and the next parse operation "
                "sets fFilter = 0: getFilter() no longer returns the installed filter and later parses run unfiltered, unlike a "
                "fresh parser that received the same setFilter call",
        "F22": "XMLSynchronizedStringPool::getId(unknown string) returns the constant pool's string count (the id of "
               "another string) instead of 0",
    }
    for fid, w in sorted(known_seen.items()):
        ctx.known_finding(fid, "%s (reproduced by `%s`)" % (msgs.get(fid, ""), w))

    # ---- a failed obligation / an unlisted offender: the sweeps above were the search for a failing input
    if (proof_broken or offenders) and not ctx.violations:
        ctx.violation("obligation", {"what": "Coq obligation no longer checks (or the generated inventory has offenders that "
                                             "are not recorded exceptions) and the history search found no observable "
                                             "difference", "offenders": offenders, "failed": failed, "output": out[-3000:]},
                      no_input=True)
    elif proof_broken or offenders:
        ctx.note("obligation failed (%s); a concrete failing history was found by the correspondence" % (offenders or failed))
    ctx.coverage["rule"] = ("histories of 1..8 operations (12 in thorough) over 4 parser APIs x 4 scanners on a pool of %d "
                            "documents + %d external DTDs/schemas; all ordered document pairs (sample in quick); handler "
                            "exception at callback k=1..13 and parseNext abandoned at step k; locked-pool histories; cached "
                            "grammar (loadGrammar / cacheGrammarFromParse) vs inline; random pool/resolver traces vs the model; "
                            "string-pool id probes.  A history case is non-trivial when the final parse produced events or "
                            "errors; distinct by (api, final document, result hash)" % (len(DOCS), len(EXTS)))
    ctx.coverage["exhaustive"] = False
    ctx.note("correspondence: %d requests, verdicts %s, known %s, %.1fs" % (len(lines), verdicts, sorted(known_seen), time.time() - t0))


def f15c_class(req):
    """crash class F15c: DGXMLScanner in play, cacheGrammarFromParse switched on, a document with an external DTD parsed"""
    t = req.split()
    if t[0] != "H":
        return False
    ops = t[3:-1]
    dg = t[2] == "DG" or "us:DG" in ops
    ext = any(o.split(":")[0] in ("p", "px", "pn", "pa", "pu", "pf") and o.split(":")[1] in EXT_DTD_DOCS for o in ops) or \
        t[-1].split(":")[1] in EXT_DTD_DOCS
    return dg and "s:cache:1" in ops and ext


def f15r_class(req):
    """crash class F15r: on IGXMLScanner/DGXMLScanner, a parse with cacheGrammarFromParse on while the pool is UNLOCKED (it leaves
    the "[dtd]" grammar in the pool; resetCachedGrammarPool while unlocked removes it again), later -- pool LOCKED,
    cacheGrammarFromParse still on -- a parse of a document with an external DTD subset (the final parse counts unless the
    `:r` variant unlocks and clears the pool first)"""
    t = req.split()
    if t[0] != "H" or len(t) < 4:
        return False
    sc = t[2]
    fin = t[-1].split(":")
    caching = locked = dtd_in_pool = False
    ops = t[3:-1] + (["p:" + fin[1]] if len(fin) >= 2 and not (len(fin) >= 3 and fin[2] == "r") else [])
    for o in ops:
        a = o.split(":")
        if o == "lk":
            locked = True
        elif o == "ul":
            locked = False
        elif a[0] == "us" and len(a) > 1:
            sc = a[1]
        elif a[0] == "s" and len(a) > 2 and a[1] == "cache":
            caching = a[2] != "0"
        elif o == "rg" and not locked:
            dtd_in_pool = False
        elif a[0] in ("p", "px", "pn", "pa", "pu", "pf", "pab") and len(a) > 1 and sc in ("IG", "DG") and caching:
            if not locked:
                dtd_in_pool = True
            elif dtd_in_pool and a[1] in EXT_DTD_DOCS:
                return True
    return False


INCLUDE_DOCS = ("sinc", "sincbad", "sinc2")


def f15i_class(req):
    """crash class F15i: scanner IG or SG; an operation lg:si.xsd:s:0 (loadGrammar of the including schema, not cached) whose
    nearest preceding parse operation is a parse of a document of the si.xsd family (no other parse in between)"""
    t = req.split()
    if t[0] != "H" or len(t) < 4:
        return False
    sc = t[2]
    last = None
    for o in t[3:-1]:
        a = o.split(":")
        if a[0] == "us" and len(a) > 1:
            sc = a[1]
        elif a[0] in ("p", "px", "pn", "pa", "pu", "pf", "pab", "pc", "pcx") and len(a) > 1:
            last = a[1]
        elif a[0] == "lg" and len(a) >= 4:
            if a[1] == "si.xsd" and a[2] == "s" and a[3] == "0" and last in INCLUDE_DOCS and sc in ("IG", "SG"):
                return True
            last = None
    return False


def f15w_class(req):
    """crash class F15w: DOMLSParser::parseWithContext with an exception injected into a callback (pcx:) earlier in the history"""
    t = req.split()
    return t[0] == "H" and t[1] == "ls" and any(o.startswith("pcx:") for o in t[3:-1])


def f22_class(req, impl, model):
    """the S trace differs from the specification only at getId() of strings unknown to both pools, in sync mode"""
    ri, rm = impl.split(), model.split()
    ops = req.split()[1:]
    if len(ri) != len(rm) or len(ri) != len(ops):
        return False
    for op, a, b in zip(ops, ri, rm):
        if a != b and not (op.startswith("id:") and b == "0"):
            return False
    return True


def f15k_class(req):
    """cacheGrammarFromParse switched on while the pool is locked, and a document that loads a schema by a location hint"""
    head, ops, fin = split_hist(req)
    locked = False
    caching = False
    for o in ops:
        if o == "lk":
            locked = True
        elif o == "ul":
            locked = False
        elif o == "s:cache:1":
            caching = True
        elif o == "s:cache:0":
            caching = False
        elif o.split(":")[0] in ("p", "px", "pn", "pa") and locked and caching and o.split(":")[1] in SCHEMA_DOCS:
            return True
    return False


def f15d_class(req):
    """a DTD preloaded with loadGrammar is in play and the final document is a standalone="yes" document using it"""
    head, ops, fin = split_hist(req)
    return any(o.startswith("lg:") and o.split(":")[2] == "d" for o in ops) and fin.split(":")[1] == "dcsa"


def candidates(req, model_answer):
    """finding ids that may explain a differing history: by the model's differing members, or by a finding's own predicate"""
    c = attribute_all(req, model_answer)
    if f15k_class(req):
        c.append("F15k")
    if f15d_class(req):
        c.append("F15d")
    return c


def attribute_all(req, model_answer):
    """all finding ids by which the model explains a differing history (only if every differing member is an exception)"""
    if not model_answer.startswith("diff") or " " not in model_answer:
        return []
    members = model_answer.split(None, 1)[1].split(",")
    ids = [EXC_MEMBER.get(m) for m in members]
    if None in ids:
        return []
    return sorted(set(ids))


def attribute(small, model_answer):
    """finding id that explains a (shrunk) differing history, or None"""
    head, ops, fin = split_hist(small)
    if model_answer.startswith("diff"):
        members = model_answer.split(None, 1)[1].split(",") if " " in model_answer else []
        ids = {EXC_MEMBER.get(m) for m in members}
        if members and None not in ids and len(ids) == 1:
            return ids.pop()
        if members and None not in ids:
            return sorted(ids)[0]
        return None
    # F15p: the only non-configuration operations left are progressive parses abandoned without parseReset
    rest = [o for o in ops if not is_cfg(o)]
    if rest and all(o.startswith("pa:") for o in rest):
        return "F15p"
    return None


def neutralise(req, fid):
    """the same history with the trigger of finding `fid` removed"""
    head, ops, fin = split_hist(req)
    def doc_of(o):
        a = o.split(":")
        return a[1] if a[0] in ("p", "px", "pn", "pa") and len(a) > 1 else None
    if fid == "F15v":
        ops = [o for o in ops if doc_of(o) not in V11_DOCS]
    elif fid == "F21":
        ops = [o for o in ops if not o.startswith("s:skipdtd:")]
    elif fid == "F21b":
        ops = [o for o in ops if not o.startswith("us:")]
    elif fid == "F15p":
        ops = [o for o in ops if not o.startswith("pa:")]
    elif fid == "F15k":
        ops = [o for o in ops if o != "lk"]
    elif fid == "F15d":
        ops = [o for o in ops if not o.startswith("lg:")]
    elif fid == "F15u":
        ops = [o for o in ops if doc_of(o) not in UNDECL_DOCS]
    return " ".join(head + ops + [fin])
