"""C02 -- Well-formedness verdict: fatal error iff the document is not well-formed.
Theorems: coq/theories/C02/Properties_C02.v (model Model02.v follows WFXMLScanner/XMLScanner; spec Spec02.v;
character classes and error-code partition regenerated from /repo on every run).
Correspondence: bin/xh_C02 (4 parser APIs x 4 scanners x namespaces on/off on the real library) vs bin/xm_C02
(extracted scanner model + extracted render/events/wf_ldoc spec) on random lexical documents and on
single-constraint mutants of them.  Shared with C03 (checks/C03.py imports this module)."""
import json
import os
import subprocess
import sys
import time
from concurrent.futures import ThreadPoolExecutor

import vcommon as V

sys.path.insert(0, os.path.join(V.VERIF, "translator"))
sys.path.insert(0, os.path.join(V.VERIF, "gen"))
import c02_xmlchar as TX  # noqa
import c02_errs as TE  # noqa
import C02_gen as G  # noqa
import C02_dtd as GD  # noqa

APIS = ["sax", "sax2", "dom", "ls"]
SCANNERS = ["WF", "IG", "DG", "SG"]


# ---------------------------------------------------------------------------------------------------------
def run_lines(binpath, lines, jobs=1, timeout=3000):
    """run a line-protocol binary on the request lines (split over `jobs` processes), return answers in order"""
    if not lines:
        return []
    jobs = max(1, min(jobs, len(lines) // 50 + 1))
    n = (len(lines) + jobs - 1) // jobs
    chunks = [lines[i:i + n] for i in range(0, len(lines), n)]

    def one(chunk):
        p = subprocess.run([binpath], input=("\n".join(chunk) + "\n").encode(), stdout=subprocess.PIPE,
                           stderr=subprocess.PIPE, timeout=timeout)
        out = p.stdout.decode("ascii", "replace").splitlines()
        if p.returncode != 0 or len(out) != len(chunk):
            k = min(len(out), len(chunk) - 1)
            raise HarnessCrash(binpath, p.returncode, chunk[k], p.stderr.decode("utf-8", "replace")[-1500:])
        return out
    with ThreadPoolExecutor(max_workers=len(chunks)) as ex:
        res = list(ex.map(one, chunks))
    return [x for r in res for x in r]


class HarnessCrash(Exception):
    def __init__(self, binpath, rc, request, stderr):
        Exception.__init__(self, "%s crashed rc=%s" % (binpath, rc))
        self.binpath, self.rc, self.request, self.stderr = binpath, rc, request, stderr


def hex4(units):
    return "-" if not units else "".join("%04X" % u for u in units)


def unhex4(h):
    return [] if h == "-" else [int(h[i:i + 4], 16) for i in range(0, len(h), 4)]


def well_formed16(units):
    i = 0
    while i < len(units):
        u = units[i]
        if 0xD800 <= u <= 0xDBFF:
            if i + 1 < len(units) and 0xDC00 <= units[i + 1] <= 0xDFFF:
                i += 2
                continue
            return False
        if 0xDC00 <= u <= 0xDFFF:
            return False
        i += 1
    return True


def encode(units, enc):
    """bytes of the document: 'utf8' (no BOM) or 'utf16' (little endian with BOM)"""
    if enc == "utf16":
        b = bytearray(b"\xff\xfe")
        for u in units:
            b += bytes((u & 255, u >> 8))
        return bytes(b)
    s = b"".join(bytes((u & 255, u >> 8)) for u in units).decode("utf-16-le", "surrogatepass")
    return s.encode("utf-8", "surrogatepass")


def doc_bytes(c):
    """the bytes handed to the parser for case c"""
    b = encode(c.units, c.enc)
    if c.splice:
        m = encode([c.splice[0]], c.enc)
        if c.enc == "utf16":
            m = m[2:]
        i = b.find(m)
        b = b[:i] + c.splice[1] + b[i + len(m):]
    return b + c.tail


def bhex(b):
    return "-" if not b else b.hex().upper()


def parse_impl(line):
    """'<events> | <errors> | fh=<n>' -> (events, [error tokens], fh)"""
    p = line.split(" | ")
    if len(p) != 3:
        return line, ["MALFORMED"], -1
    errs = [] if p[1] == "-" else p[1].split()
    return p[0], errs, int(p[2][3:])


def first_fatal(errs):
    for e in errs:
        if e.startswith("F:"):
            return e.split(":")[1]          # e.g. X176
        if e.startswith("EXC:"):
            return e
    return None


def fatal_count(errs):
    return sum(1 for e in errs if e.startswith("F:") or e.startswith("EXC:"))


def strip_pos(errs):
    return [":".join(e.split(":")[:2]) for e in errs]


# ---------------------------------------------------------------------------------------------------------
def translate_and_crosscheck(ctx, xh=None, xm=None):
    """regenerate Gen/GenXMLChar.v and Gen/GenErrs.v; with the binaries, compare what the translator read with what
    the built library and the extracted model say (dynamic cross-check of the translator)"""
    try:
        xd = TX.generate()
        codes = TE.generate()
    except Exception as e:
        ctx.note("translator failed: %r" % (e,))
        ctx.violation("translator", {"what": "translator can no longer read the character tables / error codes",
                                     "error": repr(e)}, no_input=True)
        return None, None
    return xd, codes


def dynamic_crosscheck(ctx, xd, codes, xh, xm):
    impl = run_lines(xh, ["chartab", "errsev"])
    mod = run_lines(xm, ["classes", "codes"])
    want = TX.nibble_string(xd)
    if impl[0] != want or mod[0] != want:
        k = next(i for i in range(65536) if not (impl[0][i:i + 1] == want[i] == mod[0][i:i + 1]))
        ctx.violation("chartab", {"what": "character class of U+%04X differs between source table (translator), built "
                                  "library and extracted model" % k, "translator": want[k], "library": impl[0][k:k + 1],
                                  "model": mod[0][k:k + 1], "request": "chartab"})
    sev = TE.sev_string(codes)
    if impl[1] != sev:
        k = next(i for i in range(max(len(sev), len(impl[1]))) if impl[1][i:i + 1] != sev[i:i + 1])
        ctx.violation("errsev", {"what": "severity class of XMLErrs code %d differs between XMLErrorCodes.hpp as read by "
                                 "the translator and XMLErrs::isFatal/isError/isWarning of the built library" % k,
                                 "request": "errsev"})
    bad = [c for c in mod[1].split() if sev[int(c)] != "F"]
    if bad:
        ctx.violation("severity", {"what": "the model emits code(s) %s which XMLErrs no longer classifies as fatal: a "
                                   "document violating that constraint is no longer rejected with a fatal error" % bad,
                                   "request": "errsev"})
    ctx.count(65536 + len(sev))
    return sev


# ---------------------------------------------------------------------------------------------------------
class Case:
    __slots__ = ("kind", "op", "units", "enc", "spec_events", "wf", "ns_list", "doc", "model", "impl", "note", "colon", "tag", "tail", "splice")

    def __init__(self, kind, op, units, enc, spec_events=None, wf=None, ns_list=(0, 1), doc=None):
        self.kind, self.op, self.units, self.enc = kind, op, units, enc
        self.spec_events, self.wf, self.ns_list, self.doc = spec_events, wf, list(ns_list), doc
        self.model = {}
        self.impl = {}
        self.note = None
        self.tag = None          # sub-class of a mutant used for the attribution to a known finding
        self.tail = b""          # raw bytes appended after the encoded text (truncated multi-byte sequence)
        self.splice = None       # (marker unit, raw bytes): the encoded marker is replaced by an ill-formed byte sequence
        # names with a colon are only used with namespace processing off; SGXMLScanner is namespace-aware
        # regardless of the setting (schema processing needs it), so it is not held to those documents
        self.colon = len(self.ns_list) == 1

    def cfgs(self, cfgs):
        return [(a, s) for (a, s) in cfgs if not (self.colon and s == "SG")]


def render_docs(xm, docs, nsf, rng, jobs):
    """docs -> (wf, units, spec events, root_start, root_end) using the extracted render/events/wf_ldoc"""
    # pass 1: no line-end choices, to learn the text; then choose line ends that respect eol_choices_ok
    l1 = ["render %d %s" % (nsf, G.serialise(d)) for d in docs]
    o1 = run_lines(xm, l1, jobs)
    eols = []
    for o in o1:
        f = o.split()
        u = unhex4(f[2]) if len(f) > 2 and f[0] in "01" else []
        ch = []
        style = rng.random()
        for i, c in enumerate(u):
            if c == 0x0A:
                if style < 0.35:
                    ch.append("0")
                else:
                    k = rng.choice("0012")
                    if k == "2" and i + 1 < len(u) and u[i + 1] == 0x0A:
                        k = "1"
                    ch.append(k)
        eols.append("".join(ch) or "-")
    lines = []
    for d, e in zip(docs, eols):
        pro = dict(d, body=[], epilog=[])
        bod = dict(d, epilog=[])
        lines += ["render %d %s" % (nsf, G.serialise(d, e)), "render %d %s" % (nsf, G.serialise(pro)),
                  "render %d %s" % (nsf, G.serialise(bod))]
    o2 = run_lines(xm, lines, jobs)
    res = []
    for k, d in enumerate(docs):
        full, pro, bod = o2[3 * k], o2[3 * k + 1], o2[3 * k + 2]
        if full.startswith("bad-doc"):
            res.append(None)
            continue
        head, ev = full.split(" | ")
        f = head.split()
        res.append({"wf": f[0] == "1", "eolok": f[1] == "1", "units": unhex4(f[2]), "events": ev,
                    "plain": unhex4(o1[k].split()[2]), "eols": eols[k],
                    "root_start": len(unhex4(pro.split()[2])), "root_end": len(unhex4(bod.split()[2]))})
    return res


def mk_info(doc, r):
    """positions in the *plain* (LF only) rendering used by the text-level mutation operators"""
    root = doc["body"][0]
    last = doc["body"][-1]
    etag = None
    if last[0] == "ix":
        etag = r["root_end"] - 1 - len(last[2]) - len(last[1]) - 2
    elif last[0] == "ie" and not last[4] and len(doc["body"]) == 1:
        etag = r["root_end"] - 1 - len(last[5]) - len(last[1]) - 2
    return {"root_start": r["root_start"], "root_end": r["root_end"],
            "root_name_end": r["root_start"] + 1 + len(root[1]), "root_etag_start": etag}


def gen_cases(ctx, xm, n_valid, n_mut, jobs):
    import copy
    rng = ctx.rng
    cases = []
    dist = {}
    # ---- valid stream
    specs = []
    for k in range(n_valid):
        enc = "utf16" if rng.random() < 0.3 else "utf8"
        colon = rng.random() < 0.15
        size = None
        if k % 97 == 96:
            size = 200                      # a larger document now and then
        specs.append((G.gen_doc(rng, enc, colon, size), enc, colon))
    rend = render_docs(xm, [s[0] for s in specs], 0, rng, jobs)
    pool = []
    for (doc, enc, colon), r in zip(specs, rend):
        if r is None or not r["wf"] or not r["eolok"]:
            cases.append(Case("generator-bug", "valid", [], enc, doc=doc))
            continue
        c = Case("valid", "valid", r["units"], enc, r["events"], True, (0,) if colon else (0, 1), doc)
        cases.append(c)
        pool.append((doc, enc, colon, r))
    # ---- malformed stream: abstract-level operators (the mutated lexical document violates exactly one wf clause and
    #      is rendered by the extracted render), then text-level operators on the plain rendering
    ops_a = G.ABSTRACT_OPS
    ops_t = G.TEXT_OPS
    mdocs = []
    k = 0
    tries = 0
    while len(mdocs) < n_mut // 2 and tries < 20 * n_mut and pool:
        tries += 1
        doc, enc, colon, r = pool[rng.randrange(len(pool))]
        if len(r["units"]) > 1500:
            continue
        name, f = ops_a[k % len(ops_a)]
        m = f(rng, copy.deepcopy(doc))
        if m is None:
            continue
        k += 1
        mdocs.append((name, m, enc, colon))
    mr = render_docs(xm, [m[1] for m in mdocs], 0, rng, jobs) if mdocs else []
    for (name, m, enc, colon), r in zip(mdocs, mr):
        if r is None:
            continue
        if r["wf"]:
            cases.append(Case("generator-bug", name, r["units"], enc, doc=m))
            continue
        units = r["plain"]
        switched = False
        if any(0xD800 <= u <= 0xDFFF for u in units) and not well_formed16(units):
            switched = enc != "utf16"
            enc = "utf16"
        cases.append(Case("mutant", name, units, enc, None, False, (0,) if colon else (0, 1)))
        if switched:
            # the document may declare encoding="UTF-8" while it now has to be sent as UTF-16 (unpaired surrogate): the
            # verdict must still be fatal, the first code may come from the encoding conflict instead
            cases[-1].tag = "enc-switched"
    k = 0
    tries = 0
    made = 0
    while made < n_mut - n_mut // 2 and tries < 20 * n_mut and pool:
        tries += 1
        doc, enc, colon, r = pool[rng.randrange(len(pool))]
        if len(r["units"]) > 1500:
            continue
        ops = ops_t + (G.UTF16_OPS * 3 if enc == "utf16" else [])
        name, f = ops[k % len(ops)]
        u = f(rng, list(r["plain"]), mk_info(doc, r))
        tag = None
        if isinstance(u, tuple):
            u, tag = u
        if u is None or u == r["plain"]:
            continue
        k += 1
        made += 1
        if not well_formed16(u):
            if enc != "utf16" and tag is None:
                tag = "enc-switched"
            enc = "utf16"
        cases.append(Case("mutant", name, u, enc, None, False, (0,) if colon else (0, 1)))
        cases[-1].tag = tag
    # ---- byte level: a well-formed document followed by a truncated multi-byte sequence (known finding F2)
    for j in range(24):
        doc, enc, colon, r = pool[rng.randrange(len(pool))]
        if len(r["units"]) > 1500:
            continue
        c = Case("mutant", "truncated-multibyte", r["units"], enc, None, False, (0,) if colon else (0, 1))
        c.tail = rng.choice([b"\xc3", b"\xe2\x82", b"\xf0\x9f\x98", b"\xf0\x9f", b"\n\xe4"]) if enc == "utf8" else \
            rng.choice([b"\x41", b"\x00", b"\x0a\x00\x3c"])
        c.tag = "trunc-tail"
        cases.append(c)
    # ---- byte level: an ill-formed UTF-8 sequence inside the root element's content (over-long forms, encoded
    #      surrogates, values above U+10FFFF, 5-byte forms, stray continuation bytes, FE/FF, broken continuation):
    #      "bytes that are not a legal sequence in the encoding" must give a fatal error
    bad8 = [b"\xc0\xaf", b"\xc1\xbf", b"\xe0\x80\xaf", b"\xe0\x9f\xbf", b"\xf0\x80\x80\xaf", b"\xf0\x8f\xbf\xbf",
            b"\xf0\x82\x82\xac", b"\xf0\x80\x81\x81", b"\xed\xa0\x80", b"\xed\xbf\xbf", b"\xf4\x90\x80\x80",
            b"\xf5\x80\x80\x80", b"\xf8\x88\x80\x80\x80", b"\x80", b"\xbf", b"\xfe", b"\xff", b"\xe2\x82", b"\xc3",
            b"\xf0\x9f\x98"]
    made8 = 0
    for j in range(200):
        if made8 >= 60:
            break
        doc, enc, colon, r = pool[rng.randrange(len(pool))]
        u = list(r["units"])
        if enc != "utf8" or len(u) > 1500 or 0xE000 in u:
            continue
        at = None
        for i in range(len(u) - 2, 0, -1):
            if u[i] == 0x3C and u[i + 1] == 0x2F:
                at = i
                break
        if at is None:
            continue
        raw = bad8[made8 % len(bad8)]
        c = Case("mutant", "illformed-utf8", u[:at] + [0xE000] + u[at:], enc, None, False, (0,) if colon else (0, 1))
        c.splice = (0xE000, raw)
        c.tag = "bad-bytes"
        cases.append(c)
        made8 += 1
    return cases


# ---------------------------------------------------------------------------------------------------------
def configs(tier_all=True):
    return [(a, s) for a in APIS for s in SCANNERS]


def run_cases(ctx, xh, xm, cases, jobs, cfgs):
    """fills case.model[ns] = (events, outcome) and case.impl[(api, scanner, ns)] = (events, errs, fh)"""
    ml, mi = [], []
    hl, hi = [], []
    for ci, c in enumerate(cases):
        if c.kind == "generator-bug":
            continue
        hx = hex4(c.units)
        bx = bhex(doc_bytes(c))
        for ns in c.ns_list:
            ml.append("scan %d %s" % (ns, hx))
            mi.append((ci, ns))
            for (a, s) in c.cfgs(cfgs):
                hl.append("parse %s %s %d %s" % (a, s, ns, bx))
                hi.append((ci, a, s, ns))
    mo = run_lines(xm, ml, jobs)
    ho = run_lines(xh, hl, jobs)
    for (ci, ns), o in zip(mi, mo):
        ev, oc = o.rsplit(" | ", 1)
        cases[ci].model[ns] = (ev, oc)
    for (ci, a, s, ns), o in zip(hi, ho):
        cases[ci].impl[(a, s, ns)] = parse_impl(o)
    return len(hl)


def request_of(c, a, s, ns):
    return "parse %s %s %d %s" % (a, s, ns, bhex(doc_bytes(c)))


KNOWN_CLASSES = {
    # id -> predicate over a case (attribution must be precise: the class of inputs of that finding, nothing more)
}


def run(ctx, for_c03=False):
    t0 = time.time()
    thorough = ctx.tier == "thorough"
    jobs = max(2, min(16, V.NPROC))
    ctx.coverage["trusted_base"] = list(V.GLOBAL_TRUSTED_BASE) + [
        "modelled rather than verified: transcoding of the byte stream (C05) and buffer refills (C04) - the model works "
        "on decoded UTF-16 units; DOCTYPE/DTD, XML 1.1 and namespace prefix resolution are outside the C02 model "
        "(outcome `unsupported`, compared across APIs/scanners only)"]
    ctx.assumptions = ["exit-on-first-fatal (default): the model describes behaviour up to the first fatal error",
                       "documents are sent as UTF-8 without BOM or UTF-16LE with BOM; encoding declarations agree"]
    ctx.build_lib()
    xd, codes = translate_and_crosscheck(ctx)
    if xd is None:
        return
    dirs = ["Base", "Gen", "C02"] + (["C03"] if for_c03 else [])
    pid = "C03" if for_c03 else "C02"
    ok, out, failed = ctx.prove(dirs, ["theories/%s/Properties_%s.vo" % (pid, pid), "theories/C02/Extract_C02.vo"],
                                props_file="theories/%s/Properties_%s.v" % (pid, pid))
    proof_broken = not ok
    if proof_broken:
        ctx.note("proof obligations failed: %s" % failed)
        ctx.note(out[-1500:])
    if not os.path.exists(os.path.join(V.VERIF, "ocaml", "C02", "gen_c02.ml")):
        ctx.violation("extraction", {"what": "extraction of the model failed", "output": out[-3000:]}, no_input=True)
        return
    xm = ctx.ocaml("C02", ["gen_c02"])
    xh = ctx.harness("C02")
    try:
        return correspond(ctx, xh, xm, xd, codes, jobs, thorough, proof_broken, failed, out, for_c03, t0)
    except HarnessCrash as e:
        ctx.violation("harness-crash", {"what": "%s crashed or lost lines" % os.path.basename(e.binpath), "rc": e.rc,
                                        "request": e.request, "stderr": e.stderr})


def correspond(ctx, xh, xm, xd, codes, jobs, thorough, proof_broken, failed, out, for_c03, t0):
    sev = dynamic_crosscheck(ctx, xd, codes, xh, xm)
    cfgs = configs()
    if ctx.replay:
        r = json.load(open(ctx.replay))
        req = r.get("request", "")
        if r.get("expect") is not None and req.startswith("parse "):
            replay_expect(ctx, xh, r)
            return
        if not req.startswith("parse "):
            ctx.note("replay file carries no parse request; re-running the whole check")
        else:
            a = req.split()
            b = bytes.fromhex(a[4]) if a[4] != "-" else b""
            if b[:2] == b"\xff\xfe":
                units = [b[i] | b[i + 1] << 8 for i in range(2, len(b) - 1, 2)]
                enc = "utf16"
            else:
                s = b.decode("utf-8", "surrogatepass")
                units = [x[0] | x[1] << 8 for x in zip(*[iter(s.encode("utf-16-le", "surrogatepass"))] * 2)]
                enc = "utf8"
            c = Case(r.get("case_kind", "mutant"), r.get("op", "replay"), units, enc, r.get("spec_events"),
                     r.get("case_kind") == "valid", (int(a[3]),))
            cases = [c]
            run_cases(ctx, xh, xm, cases, 1, cfgs)
            judge(ctx, cases, cfgs, for_c03)
            return
    replay_witnesses(ctx, xh)
    n_valid = 350 if not thorough else 12000
    n_mut = 800 if not thorough else 30000
    if for_c03 and not thorough:
        n_valid, n_mut = 300, 500      # C03 adds its own streams; keeps its quick tier well below 3 minutes
    cases = gen_cases(ctx, xm, n_valid, n_mut, jobs)
    nreq = run_cases(ctx, xh, xm, cases, jobs, cfgs)
    ctx.coverage["traces_validated_against_impl"] = nreq
    judge(ctx, cases, cfgs, for_c03)
    nreq += doctype_stream(ctx, xh, jobs, 150 if not thorough else 5000)
    nreq += name_stream(ctx, xh, xd, jobs)
    nreq += ns_stream(ctx, xh, jobs)
    nreq += decl11_stream(ctx, xh, jobs)
    nreq += entity_split_stream(ctx, xh, xm, jobs)
    ctx.coverage["traces_validated_against_impl"] = nreq
    if proof_broken and not ctx.violations:
        ctx.violation("obligation", {"what": "Coq obligation no longer checks and no failing input was found by the "
                                     "correspondence", "failed": failed, "output": out[-3000:]}, no_input=True)
    ctx.note("correspondence: %d cases, %d parser runs, %.1fs" % (len(cases), nreq, time.time() - t0))


def replay_expect(ctx, xh, r):
    """replay of a case whose oracle is an explicit expectation (DOCTYPE stream, large line-end documents, ...)"""
    o = run_lines(xh, [r["request"]])[0]
    ev, errs, fh = parse_impl(o)
    ex = r["expect"]
    ctx.count()
    fatal = fatal_count(errs) > 0
    if fatal != ex["fatal"] or (not fatal and ex.get("events") is not None and ev != ex["events"]):
        ctx.violation(r.get("tag", "divergence"), {"what": r.get("what", "replayed case still fails"),
                                                   "request": r["request"], "impl": [ev, errs, fh], "expect": ex})


def entity_split_stream(ctx, xh, xm, jobs):
    """markup and quote pairs split across (different, nested) internal general entities - both directions: documents
    that are ill-formed because an element / a tag / a comment starts in one entity and ends in another must be fatal,
    documents that are well-formed although a quote character or complete markup comes from a referenced entity must be
    accepted with the expanded content.  Oracle: the extracted entity layer of the model (Model02e.escan_doc: every
    replacement text scanned as `content` on its own), IG and DG scanners, namespaces on and off, four APIs."""
    rng = ctx.rng
    n = 150 if ctx.tier == "quick" else 6000
    docs = [GD.gen_split(rng) for _ in range(n)]
    h4 = lambda t: "".join("%04X" % ord(ch) for ch in t) or ""
    mreq = ["escan 0 %s %s" % (";".join("%s:%s" % (h4(nm_), h4(v)) for nm_, v in ents) or "-", h4(body))
            for doc, ents, body in docs]
    mo = run_lines(xm, mreq, jobs)
    lines, meta = [], []
    for k, (doc, ents, body) in enumerate(docs):
        for sc in ("IG", "DG"):
            for ns in (0, 1):
                for a in APIS:
                    lines.append("parse %s %s %d %s" % (a, sc, ns, bhex(doc.encode("utf-8"))))
                    meta.append((k, a, sc, ns))
    out = run_lines(xh, lines, jobs)
    dist = ctx.coverage.setdefault("input_distribution", {})
    nbad = 0
    for (k, a, sc, ns), req, o in zip(meta, lines, out):
        ctx.count()
        mev, moc = mo[k].rsplit(" | ", 1)
        if moc in ("unsupported", "fuel"):
            continue
        kind = "entity-split/" + ("ok" if moc == "ok" else "fatal")
        dist[kind] = dist.get(kind, 0) + 1
        ctx.distinct(("entsplit", docs[k][0], sc, ns))
        ev, errs, fh = parse_impl(o)
        fatal = fatal_count(errs) > 0
        if fatal != (moc != "ok") or (not fatal and ev != mev):
            nbad += 1
            if nbad <= 4:
                ctx.violation("entity-split", {
                    "what": "%s/%s namespaces=%d %s (XML 1.0 4.3.2: the replacement text of every entity must match `content` "
                            "on its own; model verdict %s)" % (
                                a, sc, ns, "accepts a document in which markup is split across entities" if not fatal and moc != "ok"
                                else ("rejects a well-formed document with entities" if fatal else
                                      "delivers content different from the expanded document"), moc),
                    "request": req, "impl": [ev, errs, fh], "model": [mev, moc], "tag": "entity-split",
                    "expect": {"fatal": moc != "ok", "events": mev if moc == "ok" else None}, "document": docs[k][0]})
    ctx.coverage["entity_split_stream"] = {"documents": len(docs), "parser_runs": len(lines)}
    return len(lines)


def decl11_stream(ctx, xh, jobs):
    """XML 1.1 section 2.11: U+0085 and U+2028 inside the XML declaration (document entity) or text declaration
    (external parsed entity) are a fatal error.  Only visible in encodings whose first line is not pre-decoded as
    ASCII: UTF-16 LE/BE, UCS-4 LE/BE and EBCDIC (where NEL is the native line end).  Every position: between the
    pseudo-attributes, around '=', before '?>', with and without ordinary blanks next to it.  Counterparts without the
    offending character - and with NEL / LSEP in the content instead - must be accepted."""
    rng = ctx.rng
    encs = [("utf-16", "UTF-16", True), ("utf-16-be", "UTF-16", True), ("utf-16-le", "UTF-16", False),
            ("utf-32", "UTF-32", True), ("utf-32-be", "UCS-4", False), ("cp037", "IBM037", False)]

    def enc_bytes(text, codec):
        if codec == "utf-16-be":
            return b"\xfe\xff" + text.encode("utf-16-be")
        return text.encode(codec)
    cases = []
    n = 90 if ctx.tier == "quick" else 3000
    for k in range(n):
        codec, name, _ = encs[k % len(encs)]
        bad = rng.choice(["\x85", "\u2028"]) if codec != "cp037" else "\x85"
        pseudo = ['version="1.1"']
        if codec == "cp037" or rng.random() < 0.7:
            pseudo.append('encoding="%s"' % name)
        if rng.random() < 0.4:
            pseudo.append('standalone="%s"' % rng.choice(["yes", "no"]))
        # slots: after each pseudo-attribute (the last one is the slot before "?>"), or around an '='
        slot = rng.randrange(len(pseudo))
        around_eq = rng.random() < 0.2
        form = rng.choice(["only", "before-blank", "after-blank", "both"])
        offending = k % 3 != 0

        def sep(j, last):
            base = "" if last else " "
            if not offending or around_eq or j != slot:
                return base if not last else rng.choice(["", " "])
            return {"only": bad, "before-blank": bad + " ", "after-blank": " " + bad, "both": " " + bad + " "}[form]
        decl = "<?xml "
        for j, pa in enumerate(pseudo):
            if offending and around_eq and j == slot:
                pa = pa.replace("=", rng.choice([bad + "=", "=" + bad]))
            decl += pa + sep(j, j == len(pseudo) - 1)
        decl += "?>"
        where = "doc" if rng.random() < 0.75 else "ent"
        if where == "doc":
            content = "<a>t" + (rng.choice(["\x85", "\u2028", "\r\x85"]) if not offending and codec != "cp037" else "") + "u</a>"
            doc = enc_bytes(decl + content, codec)
            res = {}
            exp = None
            if not offending:
                exp = "S0061 T0074" + ("000A" if len(content) > 9 else "") + "0075 E0061"
        else:
            if "standalone" in decl:
                decl = decl.replace(' standalone="yes"', "").replace(' standalone="no"', "")
            if "encoding" not in decl:
                decl = decl.replace("?>", ' encoding="%s"?>' % name) if not offending else decl
            main = '<?xml version="1.1"?><!DOCTYPE a [<!ENTITY x SYSTEM "e.ent">]><a>&x;</a>'
            doc = main.encode("utf-8")
            res = {"e.ent": enc_bytes(decl + "tu", codec)}
            exp = "S0061 T00740075 E0061" if not offending else None
            if "encoding" not in decl:
                continue          # a text declaration must carry an encoding declaration: not this stream's subject
        cases.append({"doc": doc, "res": res, "offending": offending, "exp": exp, "codec": codec, "where": where,
                      "bad": bad if offending else None, "decl": decl})
    lines, meta = [], []
    for k, c in enumerate(cases):
        rt = "".join(" %s=%s" % (nm_, bhex(v)) for nm_, v in c["res"].items())
        for sc in (SCANNERS if c["where"] == "doc" else ["IG", "DG"]):
            for a in APIS:
                lines.append("parse %s %s %d %s -%s" % (a, sc, k % 2, bhex(c["doc"]), rt))
                meta.append((k, a, sc))
    out = run_lines(xh, lines, jobs)
    dist = ctx.coverage.setdefault("input_distribution", {})
    nbad = 0
    for (k, a, sc), req, o in zip(meta, lines, out):
        ctx.count()
        c = cases[k]
        kind = "decl11/%s/%s/%s" % (c["codec"], c["where"], "offending" if c["offending"] else "clean")
        dist[kind] = dist.get(kind, 0) + 1
        ctx.distinct(("decl11", c["doc"], tuple(c["res"].items()), sc))
        ev, errs, fh = parse_impl(o)
        fatal = fatal_count(errs) > 0
        if c["offending"] and not fatal:
            if c["bad"] == "\u2028" and ctx.find_known("F46"):
                ctx.known_finding("F46", "U+2028 inside an XML 1.1 declaration / text declaration is accepted (U+0085 is rejected)")
                continue
            nbad += 1
            if nbad <= 4:
                ctx.violation("decl11", {
                    "what": "%s/%s accepts U+%04X inside the XML 1.1 %s declaration of a %s document (XML 1.1 2.11: fatal error): %r"
                            % (a, sc, ord(c["bad"]), "XML" if c["where"] == "doc" else "text", c["codec"], c["decl"]),
                    "request": req, "impl": [ev, errs, fh], "expect": {"fatal": True}, "tag": "decl11"})
        elif not c["offending"] and (fatal or ev != c["exp"]):
            nbad += 1
            if nbad <= 4:
                ctx.violation("decl11", {
                    "what": "%s/%s: a well-formed XML 1.1 document in %s (%r) is %s" % (
                        a, sc, c["codec"], c["decl"], "rejected" if fatal else "reported with different content"),
                    "request": req, "impl": [ev, errs, fh], "expect": {"fatal": False, "events": c["exp"]}, "tag": "decl11"})
    ctx.coverage["decl11_stream"] = {"documents": len(cases), "parser_runs": len(lines)}
    return len(lines)


def name_stream(ctx, xh, xd, jobs):
    """names with ONE character that is a legal XML character but not a name character (private-use planes 15/16 -
    surrogate pairs with a high unit above 0xDB7F -, other supplementary non-name code points do not exist in XML 1.0
    5th ed. terms below U+F0000, and BMP non-name characters taken from the regenerated table) at the first / middle /
    last position of element names, attribute names, prefixes, local parts, PI targets and entity names: every such
    document must be fatal on all scanners, namespaces on and off; the same documents with a legal supplementary name
    character (U+10000, U+2F800, U+EFFFF) must be accepted with the names as written"""
    rng = ctx.rng
    mk = xd["masks"]
    t10 = xd["t10"]
    bmp_bad = [c for c in (0xD7, 0xF7, 0x37E, 0x2000, 0x2190, 0x3000, 0x20AC, 0xFFFD, 0x2028, 0x24, 0x2B)
               if (t10[c] & mk["gXMLCharMask"]) and not (t10[c] & mk["gNameCharMask"])]
    bad = [0xF0000, 0xF1234, 0xFFFFD, 0x100000, 0x10FFFD, 0x10FFFF] + bmp_bad
    good = [0x10000, 0x2F800, 0xEFFFF, 0xE0000]
    templates = [
        ("elem", lambda n: "<%s/>" % n, "all"), ("elem2", lambda n: "<%s x='1'></%s>" % (n, n), "all"),
        ("attr", lambda n: "<a %s='v'/>" % n, "all"), ("attr2", lambda n: "<a b='1' %s='v'/>" % n, "all"),
        ("prefix", lambda n: "<%s:a xmlns:%s='u'/>" % (n, n), "all"), ("local", lambda n: "<p:%s xmlns:p='u'/>" % n, "all"),
        ("attr-prefix", lambda n: "<a xmlns:%s='u' %s:b='v'/>" % (n, n), "all"),
        ("attr-local", lambda n: "<a xmlns:p='u' p:%s='v'/>" % n, "all"),
        ("pi", lambda n: "<a><?%s x?></a>" % n, "all"), ("pi-prolog", lambda n: "<?%s?><a/>" % n, "all"),
        ("entity", lambda n: "<!DOCTYPE a [<!ENTITY %s 'v'>]><a>&%s;</a>" % (n, n), "dtd"),
        ("entity-ref", lambda n: "<!DOCTYPE a [<!ENTITY ab 'v'>]><a>&%s;</a>" % n.replace("\x00", ""), "dtd"),
        ("entity-attr", lambda n: "<!DOCTYPE a [<!ENTITY %s 'v'>]><a b='&%s;'/>" % (n, n), "dtd"),
        ("pe", lambda n: "<!DOCTYPE a [<!ENTITY %% %s ' '> %%%s; ]><a/>" % (n, n), "dtd"),
    ]

    def spell(ch, pos):
        base = rng.choice(["ab", "cde", "x1y", "q_"])
        if pos == "first":
            return ch + base
        if pos == "last":
            return base + ch
        return base[:1] + ch + base[1:]
    cases = []
    combos = [(t, c, p) for t in templates for c in bad for p in ("first", "middle", "last")]
    rng.shuffle(combos)
    # every template x position with a private-use-plane character is always included (the class the tables cannot show)
    must = [(t, c, p) for t in templates for c in (0xF0000, 0x10FFFD) for p in ("middle", "last")]
    pick = must + combos[:(60 if ctx.tier == "quick" else len(combos))]
    for (tn, tf, scope), c, pos in pick:
        cases.append(("name-mutant/%s/%s/%s" % (tn, "supp" if c > 0xFFFF else "bmp", pos), tf(spell(chr(c), pos)), scope, True))
    for (tn, tf, scope) in templates:
        if tn in ("pi", "pi-prolog", "entity-ref"):
            continue          # known finding F40: DOM builders reject supplementary characters in PI targets;
                              # entity-ref only makes sense as a mutant (the referenced name is not declared)
        for c in good:
            pos = rng.choice(["first", "middle", "last"])
            cases.append(("name-valid/%s/%s" % (tn, pos), tf(spell(chr(c), pos)), scope, False))
    lines, meta = [], []
    for k, (kind, doc, scope, mustfail) in enumerate(cases):
        scs = SCANNERS if scope == "all" else ["IG", "DG"]
        for sc in scs:
            for ns in (0, 1):
                for a in APIS:
                    lines.append("parse %s %s %d %s" % (a, sc, ns, bhex(doc.encode("utf-8"))))
                    meta.append((k, a, sc, ns))
    out = run_lines(xh, lines, jobs)
    dist = ctx.coverage.setdefault("input_distribution", {})
    nbad = 0
    first = {}
    for (k, a, sc, ns), req, o in zip(meta, lines, out):
        ctx.count()
        kind, doc, scope, mustfail = cases[k]
        dist[kind.rsplit("/", 1)[0]] = dist.get(kind.rsplit("/", 1)[0], 0) + 1
        ctx.distinct(("name", doc, sc, ns))
        ev, errs, fh = parse_impl(o)
        fatal = fatal_count(errs) > 0
        if mustfail and not fatal:
            nbad += 1
            if nbad <= 4:
                ctx.violation("name-mutant", {
                    "what": "%s/%s namespaces=%d accepts a name containing a character that is not a name character (%s)"
                            % (a, sc, ns, kind), "request": req, "impl": [ev, errs, fh], "expect": {"fatal": True},
                    "document": doc})
        elif not mustfail:
            # SGXMLScanner resolves prefixes whatever the setting; all documents here declare their prefixes
            if a in ("dom", "ls") and errs == ["EXC:DOMException:5"] and ("/entity" in kind or "/pe/" in kind) \
                    and ctx.find_known("F40"):
                # known finding F40 (same root cause): the DOM builders re-validate entity names with
                # XMLChar1_0::isValidName, which knows no surrogate pairs
                ctx.known_finding("F40", "DOM builders throw DOMException INVALID_CHARACTER_ERR for an ENTITY declaration "
                                  "whose name contains a supplementary name character (SAX parsers accept)")
                continue
            if fatal or errs:
                nbad += 1
                if nbad <= 4:
                    ctx.violation("name-valid", {
                        "what": "%s/%s namespaces=%d rejects a name with a legal supplementary name character (%s)"
                                % (a, sc, ns, kind), "request": req, "impl": [ev, errs, fh],
                        "expect": {"fatal": False, "events": None}, "document": doc})
            else:
                ref = first.setdefault((k, sc, ns), ev)
                if ref != ev:
                    nbad += 1
                    if nbad <= 4:
                        ctx.violation("name-valid", {"what": "APIs disagree on a document with supplementary name characters",
                                                     "request": req, "impl": [ev, errs, fh],
                                                     "expect": {"fatal": False, "events": ref}, "document": doc})
    ctx.coverage["name_stream"] = {"documents": len(cases), "parser_runs": len(lines)}
    return len(lines)


def ns_stream(ctx, xh, jobs):
    """namespace well-formedness (Namespaces in XML 1.0: Prefix Declared, reserved prefixes and namespace names, no
    prefix undeclaring, QName syntax, Attributes Unique on expanded names): one violated constraint per document,
    prefixes / quotes / nesting / one character of the URI written as a character reference chosen at random.  Verdict:
    fatal with namespaces on for every scanner (defaulted-from-the-DTD forms: IG and DG, the scanners that read the
    DOCTYPE), accepted with namespaces off by WF / IG / DG (SGXMLScanner resolves prefixes whatever the setting); the
    well-formed counterparts are accepted everywhere.  No Coq model: prefix resolution is property C06's model; this
    stream holds the implementation to the verdict prescribed by the Namespaces recommendation."""
    rng = ctx.rng
    XML = "http://www.w3.org/XML/1998/namespace"
    XMLNS = "http://www.w3.org/2000/xmlns/"

    def uri(u):
        """the URI literally or with one character spelled as a (decimal / hexadecimal) character reference"""
        k = rng.randrange(3)
        if k == 0:
            return u
        i = rng.randrange(len(u))
        return u[:i] + (("&#%d;" % ord(u[i])) if k == 1 else ("&#x%X;" % ord(u[i]))) + u[i + 1:]

    def pfx():
        return rng.choice(["p", "q1", "ns_a", "x-y", "a.b"])

    def q(v):
        c = rng.choice("'\"")
        return c + v + c

    def wrap(e):
        """put the element at a random depth"""
        k = rng.randrange(3)
        return e if k == 0 else ("<r>%s</r>" % e if k == 1 else "<r xmlns:z='zz'><z:s>t</z:s>%s</r>" % e)
    P, Q = pfx(), "q9"
    bad = [
        ("unbound-elem", lambda: wrap("<%s:a/>" % P), "all"),
        ("unbound-attr", lambda: wrap("<a %s:b=%s/>" % (P, q("1"))), "all"),
        ("unbound-inner", lambda: "<a xmlns:%s='u'><%s:b/></a>" % (P, Q), "all"),
        ("xmlns-prefix-declared", lambda: wrap("<a xmlns:xmlns=%s/>" % q(uri(rng.choice(["u", XMLNS])))), "all"),
        ("xmlns-uri-bound", lambda: wrap("<a xmlns:%s=%s/>" % (P, q(uri(XMLNS)))), "all"),
        ("xml-prefix-other-uri", lambda: wrap("<a xmlns:xml=%s/>" % q(uri("urn:u"))), "all"),
        ("xml-uri-other-prefix", lambda: wrap("<a xmlns:%s=%s/>" % (P, q(uri(XML)))), "all"),
        ("default-xml-uri", lambda: wrap("<a xmlns=%s/>" % q(uri(XML))), "all"),
        ("default-xmlns-uri", lambda: wrap("<a xmlns=%s/>" % q(uri(XMLNS))), "all"),
        ("default-xml-uri-inner", lambda: "<a xmlns='u'><b c='1' xmlns=%s>t</b></a>" % q(uri(XML)), "all"),
        ("default-xmlns-uri-inner", lambda: "<a xmlns='u'><b xmlns=%s c='1'/></a>" % q(uri(XMLNS)), "all"),
        ("prefix-undeclared", lambda: wrap("<a xmlns:%s=%s/>" % (P, q(""))), "all"),
        ("prefix-undeclared-inner", lambda: "<a xmlns:%s='u'><b xmlns:%s=''><%s:c/></b></a>" % (P, P, P), "all"),
        ("dup-expanded-attr", lambda: wrap("<a xmlns:%s='u' xmlns:%s='u' %s:b='1' %s:b='2'/>" % (P, Q, P, Q)), "all"),
        ("dup-expanded-attr-inherited", lambda: "<r xmlns:%s='u'><a xmlns:%s=%s %s:b='1' %s:b='2'/></r>" % (P, Q, q(uri("u")), P, Q), "all"),
        ("two-colons-attr", lambda: wrap("<a xmlns:%s='u' %s:b:c='1'/>" % (P, P)), "all"),
        ("empty-local-attr", lambda: wrap("<a xmlns:%s='u' %s:='1'/>" % (P, P)), "all"),
        ("default-xml-uri-dtd", lambda: "<!DOCTYPE a [<!ATTLIST a xmlns CDATA %s>]><a/>" % q(uri(XML)), "dtd"),
        ("default-xmlns-uri-dtd", lambda: "<!DOCTYPE a [<!ATTLIST a xmlns CDATA %s>]><a/>" % q(uri(XMLNS)), "dtd"),
        ("xmlns-uri-bound-dtd", lambda: "<!DOCTYPE a [<!ATTLIST a xmlns:%s CDATA %s>]><a/>" % (P, q(uri(XMLNS))), "dtd"),
        ("unbound-attr-dtd", lambda: "<!DOCTYPE a [<!ATTLIST a %s:b CDATA 'v'>]><a/>" % P, "dtd"),
    ]
    good = [
        ("bound-elem", lambda: wrap("<%s:a xmlns:%s=%s/>" % (P, P, q(uri("urn:u")))), "all"),
        ("xml-prefix-own-uri", lambda: wrap("<a xmlns:xml=%s xml:lang='en'/>" % q(uri(XML))), "all"),
        ("xml-prefix-implicit", lambda: wrap("<a xml:space='preserve'/>"), "all"),
        ("default-empty", lambda: wrap("<a xmlns=''/>"), "all"),
        ("default-undeclared-inner", lambda: "<a xmlns='u'><b xmlns=''/></a>", "all"),
        ("default-near-reserved", lambda: wrap("<a xmlns=%s/>" % q(uri(rng.choice([XML + "s", XMLNS[:-1], XML.upper()])))), "all"),
        ("same-local-different-uri", lambda: wrap("<a xmlns:%s='u' xmlns:%s='v' %s:b='1' %s:b='2'/>" % (P, Q, P, Q)), "all"),
        ("unprefixed-and-prefixed", lambda: wrap("<a xmlns:%s='u' b='1' %s:b='2'/>" % (P, P)), "all"),
        ("default-dtd", lambda: "<!DOCTYPE a [<!ATTLIST a xmlns CDATA %s>]><a/>" % q(uri("urn:d")), "dtd"),
    ]
    reps = 1 if ctx.tier == "quick" else 12
    cases = []
    for r in range(reps):
        P = pfx()
        for (n, f, scope) in bad:
            cases.append(("ns-mutant/" + n, f(), scope, True))
        for (n, f, scope) in good:
            cases.append(("ns-valid/" + n, f(), scope, False))
    lines, meta = [], []
    for k, (kind, doc, scope, mustfail) in enumerate(cases):
        for sc in SCANNERS:
            for ns in (0, 1):
                for a in (APIS if (k + ns) % 2 == 0 or ctx.tier != "quick" else APIS[:1] + APIS[-1:]):
                    lines.append("parse %s %s %d %s" % (a, sc, ns, bhex(doc.encode("utf-8"))))
                    meta.append((k, a, sc, ns))
    out = run_lines(xh, lines, jobs)
    dist = ctx.coverage.setdefault("input_distribution", {})
    nbad = 0
    for (k, a, sc, ns), req, o in zip(meta, lines, out):
        ctx.count()
        kind, doc, scope, mustfail = cases[k]
        dist[kind] = dist.get(kind, 0) + 1
        ctx.distinct(("ns", doc, sc, ns))
        ev, errs, fh = parse_impl(o)
        fatal = fatal_count(errs) > 0
        reads_dtd = sc in ("IG", "DG")
        if mustfail and ns == 1 and (scope == "all" or reads_dtd):
            want = True
        elif mustfail and (sc == "SG" or (scope == "dtd" and not reads_dtd)):
            continue       # SG resolves prefixes whatever the setting; WF/SG skip the DOCTYPE: no verdict prescribed
        else:
            want = False
        if want and (not fatal or fh == 0):
            nbad += 1
            if nbad <= 4:
                ctx.violation("ns-mutant", {
                    "what": "%s/%s namespaces=%d accepts a document that violates a namespace constraint (%s)"
                            % (a, sc, ns, kind), "request": req, "impl": [ev, errs, fh], "expect": {"fatal": True},
                    "document": doc})
        elif not want and (fatal or errs):
            nbad += 1
            if nbad <= 4:
                ctx.violation("ns-valid", {
                    "what": "%s/%s namespaces=%d rejects a document that is namespace-well-formed for this setting (%s)"
                            % (a, sc, ns, kind), "request": req, "impl": [ev, errs, fh],
                    "expect": {"fatal": False, "events": None}, "document": doc})
    ctx.coverage["ns_stream"] = {"documents": len(cases), "parser_runs": len(lines)}
    return len(lines)


def doctype_stream(ctx, xh, jobs, ndocs):
    """documents with an internal DTD subset (gen/C02_dtd.py): the verdict prescribed by XML 1.0 section 4.1 (WFC Entity
    Declared applies iff no PE reference in the internal subset or standalone='yes'), the events obtained by expanding
    the entities, agreement of the four APIs and of the IG and DG scanners (WF and SG are documented to skip the
    DOCTYPE and are not held to these documents); malformed DOCTYPE documents must be fatal"""
    rng = ctx.rng
    lines, meta = [], []
    docs = []
    for i in range(ndocs):
        d = GD.gen(rng)
        s = GD.render(d, rng)
        docs.append((d, s))
        for sc in ("IG", "DG"):
            for ns in (0, 1):
                for a in APIS:
                    lines.append("parse %s %s %d %s" % (a, sc, ns, bhex(s.encode("utf-8"))))
                    meta.append((i, a, sc, ns))
    # external subset / external parameter entity with conditional sections (INCLUDE / IGNORE, nesting, runs of ']'
    # before '>', PE references as keyword), served by the harness' entity resolver
    restok = lambda res: "".join(" %s=%s" % (k, bhex(v.encode("utf-8"))) for k, v in sorted(res.items()))
    ext = []
    for i in range(ndocs // 2):
        c = GD.gen_ext(rng)
        ext.append(c)
        for sc in ("IG", "DG"):
            for a in APIS:
                ns = (i + len(a)) % 2
                lines.append("parse %s %s %d %s -%s" % (a, sc, ns, bhex(c["text"].encode("utf-8")), restok(c["res"])))
                meta.append((("x", i), a, sc, ns))
    muts = []
    for rep in range(3 if ctx.tier == "quick" else 40):
        muts += [(n, s, {}) for n, s in GD.mutants(rng)] + GD.ext_mutants(rng)
    for j, (name, s, mres) in enumerate(muts):
        for sc in ("IG", "DG"):
            for a in APIS:
                ns = (j + len(a)) % 2
                lines.append("parse %s %s %d %s -%s" % (a, sc, ns, bhex(s.encode("utf-8")), restok(mres)))
                meta.append((("m", j), a, sc, ns))
    out = run_lines(xh, lines, jobs)
    dist = ctx.coverage.setdefault("input_distribution", {})
    nv = {"doctype-verdict": 0, "doctype-events": 0, "doctype-mutant": 0, "doctype-ext": 0}
    res = {}
    for (i, a, sc, ns), req, o in zip(meta, lines, out):
        ctx.count()
        ev, errs, fh = parse_impl(o)
        fatal = fatal_count(errs) > 0
        if isinstance(i, tuple) and i[0] == "x":
            c = ext[i[1]]
            dist[c["kind"]] = dist.get(c["kind"], 0) + 1
            ctx.distinct(("dtd-ext", c["text"], tuple(sorted(c["res"].items())), sc, ns))
            if fatal or ev != c["events"] or [e for e in errs if e.startswith("E:")]:
                nv["doctype-ext"] += 1
                if nv["doctype-ext"] <= 3:
                    ctx.violation("doctype-ext", {
                        "what": "%s/%s namespaces=%d: a well-formed document whose external subset / external parameter "
                                "entity uses conditional sections is %s" % (a, sc, ns, "rejected with a fatal error" if fatal
                                                                            else "reported with different content"),
                        "request": req, "impl": [ev, errs, fh], "expect": {"fatal": False, "events": c["events"]},
                        "document": c["text"], "resources": c["res"]})
            continue
        if isinstance(i, tuple):
            name, s, mres = muts[i[1]]
            dist["doctype-mutant/" + name] = dist.get("doctype-mutant/" + name, 0) + 1
            ctx.distinct(("dtd-mutant", s))
            if (not fatal or fh == 0) and name.startswith("dtd-charref-overflow") and ctx.find_known("F45"):
                ctx.known_finding("F45", "a numeric character reference >= 2^32 inside a DTD literal wraps around and is "
                                  "accepted (DTDScanner::scanCharRef has no overflow guard)")
            elif not fatal or fh == 0:
                nv["doctype-mutant"] += 1
                if nv["doctype-mutant"] <= 2:
                    ctx.violation("doctype-mutant", {
                        "what": "malformed document with DOCTYPE (%s) accepted without a fatal error by %s/%s" % (name, a, sc),
                        "request": req, "impl": [ev, errs, fh], "expect": {"fatal": True}, "document": s, "resources": mres})
            continue
        d, s = docs[i]
        ef = GD.expected_fatal(d)
        ee = None if ef else GD.expected_events(d)
        kind = "doctype/%s/%s/%s" % ("fatal" if ef else "ok", "peref" if d.has_peref else "nope", d.standalone)
        dist[kind] = dist.get(kind, 0) + 1
        ctx.distinct(("dtd", s, sc, ns))
        res[(i, a, sc, ns)] = (ev, errs)
        if fatal != ef:
            nv["doctype-verdict"] += 1
            if nv["doctype-verdict"] <= 3:
                ctx.violation("doctype-verdict", {
                    "what": ("%s/%s namespaces=%d reports a fatal error for a well-formed document: an undeclared entity "
                             "reference is only a validity matter when the internal subset has a parameter-entity "
                             "reference and standalone is not 'yes' (XML 1.0 4.1)" if fatal else
                             "%s/%s namespaces=%d accepts a document that violates WFC Entity Declared") % (a, sc, ns),
                    "request": req, "impl": [ev, errs, fh], "expect": {"fatal": ef, "events": ee}, "document": s})
        elif not ef and (ev != ee or [e for e in errs if e.startswith("E:")]):
            nv["doctype-events"] += 1
            if nv["doctype-events"] <= 3:
                ctx.violation("doctype-events", {
                    "what": "%s/%s namespaces=%d: content differs from the entity-expanded document" % (a, sc, ns),
                    "request": req, "impl": [ev, errs, fh], "expect": {"fatal": False, "events": ee}, "document": s})
    ctx.coverage["doctype_stream"] = {"documents": ndocs, "malformed": len(muts), "parser_runs": len(lines)}
    return len(lines)


WITNESS_RULE = {   # finding -> predicate on (request, errors, fh) of a witness run saying that the defect shows
    "F2": lambda req, errs, fh: fatal_count(errs) == 0,
    "F41": lambda req, errs, fh: fatal_count(errs) == 0,
    "F42": lambda req, errs, fh: fatal_count(errs) == 0,
    "F45": lambda req, errs, fh: fatal_count(errs) == 0,
    "F63": lambda req, errs, fh: fatal_count(errs) == 0,
    "F46": lambda req, errs, fh: fatal_count(errs) == 0 and not req.endswith(" l"),
    "F40": lambda req, errs, fh: "EXC:DOMException:5" in errs,
    # first witness: DOM builders throw for version 1.5; second: a version string that is no VersionNum is accepted
    "F43": lambda req, errs, fh: ("EXC:DOMException:9" in errs) if req.split()[1] in ("dom", "ls") else fatal_count(errs) == 0,
}


def replay_witnesses(ctx, xh, prop_rules=None):
    """literal witnesses of the listed findings are replayed first; KNOWN-FINDING is printed only when they reproduce"""
    rules = prop_rules or WITNESS_RULE
    for f in ctx.known:
        fid = f.get("id")
        wit = [w for w in f.get("witness", []) if w.startswith("parse ")]
        if fid not in rules or not wit:
            continue
        outs = run_lines(xh, wit)
        ctx.count(len(wit))
        shows = [w for w, o in zip(wit, outs) if rules[fid](w, parse_impl(o)[1], parse_impl(o)[2])]
        if shows:
            ctx.known_finding(fid, f["what"][:300] + " (witness `%s`)" % shows[0][:120])
        else:
            ctx.note("listed finding %s no longer reproduces on its witnesses" % fid)


def judge(ctx, cases, cfgs, for_c03):
    dist = {}
    nviol = 0
    mism_codes = {}
    unexplained = []
    for c in cases:
        key = "%s/%s/%s" % (c.kind, c.op, c.enc)
        dist[key] = dist.get(key, 0) + 1
        if c.kind == "generator-bug":
            unexplained.append(("generator produced a document whose wf flag is not the intended one", c, None))
            continue
        for ns in c.ns_list:
            mev, moc = c.model[ns]
            for (a, s) in c.cfgs(cfgs):
                ctx.count()
                iev, ierrs, fh = c.impl[(a, s, ns)]
                nf = fatal_count(ierrs)
                if c.kind == "valid":
                    # Spec oracle: the events of the document, no fatal error
                    if nf or fh or [e for e in ierrs if e.startswith("E:")]:
                        nviol += 1
                        if nviol <= 4:
                            ctx.violation("divergence", {
                                "what": "well-formed document rejected: %s/%s namespaces=%d reports %s" % (a, s, ns, ierrs),
                                "request": request_of(c, a, s, ns), "impl": [iev, ierrs, fh], "model": [mev, moc],
                                "spec_events": c.spec_events, "case_kind": c.kind, "op": c.op})
                    elif iev != c.spec_events:
                        nviol += 1
                        if nviol <= 4:
                            ctx.violation("divergence", {
                                "what": "%s/%s namespaces=%d delivers content different from the document's" % (a, s, ns),
                                "request": request_of(c, a, s, ns), "impl": [iev, ierrs, fh], "model": [mev, moc],
                                "spec_events": c.spec_events, "case_kind": c.kind, "op": c.op})
                    if (mev, moc) != (c.spec_events, "ok"):
                        unexplained.append(("model differs from the Spec on a well-formed document", c, (a, s, ns)))
                else:
                    # Spec oracle: not well-formed by construction -> at least one fatal error, reported to the handler
                    if nf == 0 or fh == 0:
                        kf = attribute_known(ctx, c, a, s, ns, moc)
                        if kf:
                            continue
                        nviol += 1
                        if nviol <= 4:
                            ctx.violation("divergence", {
                                "what": "malformed document (%s) accepted without a fatal error by %s/%s namespaces=%d"
                                        % (c.op, a, s, ns),
                                "request": request_of(c, a, s, ns), "impl": [iev, ierrs, fh], "model": [mev, moc],
                                "case_kind": c.kind, "op": c.op})
                        continue
                    # model correspondence: first fatal code (WF and IG scanners follow the modelled code)
                    if (s == "WF" or (s == "IG" and ns == 0)) and moc.startswith("F") and c.tag not in ("enc-switched", "code-free"):
                        ff = first_fatal(ierrs)
                        if ff == "E62":
                            # XMLReader's own pre-decoding of the XML declaration line (Reader_CouldNotDecodeFirstLine)
                            dist["reader-first-line"] = dist.get("reader-first-line", 0) + 1
                        elif ff != ("E43" if moc == "F259" else "X" + moc[1:]):
                            k = (c.op, s, moc, ff)
                            mism_codes[k] = mism_codes.get(k, 0) + 1
                            unexplained.append(("first fatal code differs from the model", c, (a, s, ns)))
                    elif (s == "WF" or (s == "IG" and ns == 0)) and moc == "ok" and c.tag not in ("trunc-tail", "bad-bytes") \
                            and c.tag not in KNOWN_TAGS:
                        # (cases of a listed finding's class: the faithful model accepts them; an implementation that
                        #  rejects them shows the repaired behaviour, which satisfies the Spec)
                        unexplained.append(("model accepts a mutant the implementation rejects", c, (a, s, ns)))
            if c.kind == "valid" or True:
                ctx.distinct((c.kind, c.op, hex4(c.units), ns))
        # pairwise agreement between APIs (same scanner, same ns): everything incl. positions
        for ns in c.ns_list:
            for s in SCANNERS:
                if (APIS[0], s, ns) not in c.impl:
                    continue
                ref = c.impl[(APIS[0], s, ns)]
                for a in APIS[1:]:
                    o = c.impl[(a, s, ns)]
                    if (o[0], o[1]) != (ref[0], ref[1]) and c.kind == "valid":
                        nviol += 1
                        if nviol <= 4:
                            ctx.violation("api-disagree", {
                                "what": "%s and %s (scanner %s, namespaces=%d) report differently" % (APIS[0], a, s, ns),
                                "request": request_of(c, a, s, ns), "impl": list(o), "other": list(ref),
                                "case_kind": c.kind, "op": c.op})
    ctx.coverage["input_distribution"] = dist
    ctx.coverage["code_mismatches"] = {repr(k): v for k, v in sorted(mism_codes.items(), key=lambda x: -x[1])[:40]}
    for c in cases[:3] + cases[-3:]:
        if c.kind != "generator-bug" and c.impl:
            k = sorted(c.impl)[0]
            ctx.sample({"kind": c.kind, "op": c.op, "request": request_of(c, *k)[:300], "impl": list(c.impl[k])[:2],
                        "model": list(c.model[k[2]])})
    if unexplained and not nviol:
        what, c, k = unexplained[0]
        a, s, ns = k if k else ("sax", "WF", c.ns_list[0] if c.ns_list else 0)
        ctx.violation("correspondence", {
            "what": what + " (%d such cases); the Spec oracle found no failing input: correspondence xh_C02~xm_C02 no "
                    "longer checks" % len(unexplained),
            "request": request_of(c, a, s, ns) if c.units is not None else None, "op": c.op, "case_kind": c.kind,
            "impl": list(c.impl.get((a, s, ns), ())), "model": list(c.model.get(ns, ())),
            "code_mismatches": ctx.coverage["code_mismatches"]}, no_input=True)
    ctx.coverage["rule"] = (
        "valid stream: random lexical documents (every lexical freedom of Spec02.ldoc incl. line-end forms) rendered by "
        "the extracted `render`; each must be accepted with exactly `events d` by 4 APIs x 4 scanners x namespaces "
        "on/off and by the model; malformed stream: abstract single-constraint mutants (wf_ldoc = false by exactly one "
        "clause) and text-level mutants, each must yield >= 1 fatal error in every configuration and the model's first "
        "fatal code on the WF/IG scanners; a case is counted distinct by (kind, operator, text, namespaces)")


KNOWN_TAGS = {
    # (nul-epilog = F41 and sur-attr-end / sur-pi-end = F42 are repaired in /repo and the model follows the repaired
    #  code: these classes are held to the verdict AND to the model's first fatal code like every other mutant)
    "sur-before-ref": ("F63", "an unpaired high surrogate directly before a character / predefined-entity reference in "
                              "character data or an attribute value is not diagnosed (scanCharData / scanAttValue leave the "
                              "pending-surrogate flag untouched across a reference): UTF-16 `<a>` D800 `&amp;` DC00 `</a>` "
                              "is accepted"),
    "trunc-tail": ("F2", "a well-formed document followed by a truncated multi-byte sequence (UTF-8) / an odd trailing "
                         "byte (UTF-16) is accepted silently"),
}


def attribute_known(ctx, c, a, s, ns, moc):
    """a malformed case accepted by the implementation is attributed to a listed finding only through the precise
    class tag the generator attached to it (and only while the finding is listed as `known`, not `fixed`)"""
    if c.tag in KNOWN_TAGS:
        fid, text = KNOWN_TAGS[c.tag]
        f = ctx.find_known(fid)
        if f and f.get("status", "known") == "known":
            ctx.known_finding(fid, text)
            return True
    return False
