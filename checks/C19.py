"""C19 -- No external resource is touched unless permitted; entity expansion is bounded.
Theorems: coq/theories/C19/Properties_C19.v (models Model19.v / Uri19.v, specification Spec19.v).
Tie: (a) translator/c19_gates.py regenerates the inventory of stream-opening call sites with their guards
(Gen/GenGates.v, obligation: every site is classified); (b) correspondence bin/xh_C19 (real parsers over a
sandbox of canary files watched with inotify) vs bin/xm_C19 (extracted model) over the whole configuration space;
the oracle is the extracted Spec (`permitted`, `rfc_resolve`)."""
import itertools
import re
import urllib.parse
import json
import os
import shutil
import subprocess
import sys
import time

import vcommon as V

sys.path.insert(0, os.path.join(V.VERIF, "translator"))

XSI = "http://www.w3.org/2001/XMLSchema-instance"
XS = "http://www.w3.org/2001/XMLSchema"
HTTP = "http://127.0.0.1:9/c19/"      # nothing listens on the discard port: a fetch attempt fails at once


# ------------------------------------------------------------------------------------------------
# abstract documents (python mirror of Model19.v) : serialisation for the line protocol
# ------------------------------------------------------------------------------------------------
def esc(s):
    """protocol form of a string: printable ASCII except , ; ( ) stays, every other UTF-16 code unit is \\uXXXX
    (the same convention as plain() in the harness and string_of_str in the model driver)"""
    return "".join(ch if 0x20 < ord(ch) < 0x7F and ch not in ",;()" else "\\u%04X" % ord(ch) for ch in s)


def unesc(s):
    return re.sub(r"\\u([0-9A-F]{4})", lambda m: chr(int(m.group(1), 16)), s)


def ser_pieces(ps):
    return "[" + ";".join("T" if p == "T" else "R:" + p[1] for p in ps) + "]"


def ser_edef(d):
    return "I" + ser_pieces(d[1]) if d[0] == "I" else "X(%s,%s)" % (esc(d[1]), esc(d[2]))


def ser_sitem(i):
    return "G(%s,%s)" % (i[1], ser_edef(i[2])) if i[0] == "G" else "P:" + i[1]


def ser_pdef(d):
    return "I[" + ";".join(ser_sitem(i) for i in d[1]) + "]" if d[0] == "I" else "X(%s,%s)" % (esc(d[1]), esc(d[2]))


def ser_ditem(i):
    if i[0] == "G":
        return "G(%s,%s)" % (i[1], ser_edef(i[2]))
    if i[0] == "E":
        return "E(%s,%s)" % (i[1], ser_pdef(i[2]))
    if i[0] == "P":
        return "P:" + i[1]
    return "A" + ser_pieces(i[1])


def ser_ditems(l):
    return "[" + ";".join(ser_ditem(i) for i in l) + "]"


def ser_content(c):
    if c[0] == "D":
        return "D" + ser_ditems(c[1])
    if c[0] == "N":
        return "N" + ser_pieces(c[1])
    # xs:redefine is modelled as xs:include (same resolveSchemaLocation / seen-list logic in openRedefinedSchema)
    return "S[" + ";".join("%s(%s,%s)" % ("inc" if r[0] == "red" else r[0], esc(r[1]), esc(r[2])) for r in c[2]) + "]"


def ser_doc(d):
    dt = d.get("doctype")
    if dt is None:
        sdt = "-"
    else:
        ext = "-" if dt.get("ext") is None else "X(%s,%s)" % (esc(dt["ext"][0]), esc(dt["ext"][1]))
        it = "-" if dt.get("int") is None else ser_ditems(dt["int"])
        sdt = "dt(%s,%s)" % (ext, it)
    atts = "[" + ";".join(ser_pieces(a) for a in d.get("atts", [])) + "]"
    hints = "[" + ";".join("h(%s,%s)" % (esc(h[0]), esc(h[1])) for h in d.get("hints", [])) + "]"
    return "doc(%s,%s,%s,%s,%s)" % (esc(d["sys"]), sdt, atts, hints, ser_pieces(d.get("body", [])))


def ser_fs(files):
    return "[" + ";".join("f(%s,%s)" % (esc(p), ser_content(c)) for p, c in sorted(files.items())) + "]"


# ------------------------------------------------------------------------------------------------
# materialisation as XML text
# ------------------------------------------------------------------------------------------------
def xml_pieces(ps, amp="&"):
    return "".join("x" if p == "T" else "%s%s;" % (amp, p[1]) for p in ps)


def xml_extid(pub, sysid, q='"'):
    if pub:
        return "PUBLIC %s%s%s %s%s%s" % (q, pub, q, q, sysid, q)
    return "SYSTEM %s%s%s" % (q, sysid, q)


def xml_edecl(name, d, q='"'):
    if d[0] == "I":
        return "<!ENTITY %s %s%s%s>" % (name, q, xml_pieces(d[1]), q)
    return "<!ENTITY %s %s>" % (name, xml_extid(d[1], d[2], q))


_attctr = [0]


def xml_ditems(items, root="r"):
    out = []
    for i in items:
        if i[0] == "G":
            out.append(xml_edecl(i[1], i[2]))
        elif i[0] == "E":
            if i[2][0] == "I":
                inner = "".join(xml_edecl(s[1], s[2], "'") if s[0] == "G" else "&#37;%s;" % s[1] for s in i[2][1])
                out.append('<!ENTITY %% %s "%s">' % (i[1], inner))
            else:
                out.append("<!ENTITY %% %s %s>" % (i[1], xml_extid(i[2][1], i[2][2])))
        elif i[0] == "P":
            out.append("%%%s;" % i[1])
        else:
            _attctr[0] += 1
            out.append('<!ATTLIST %s d%d CDATA "%s">' % (root, _attctr[0], xml_pieces(i[1])))
    return "\n".join(out) + "\n"


def xml_content(c):
    if c[0] == "D":
        return xml_ditems(c[1])
    if c[0] == "N":
        return xml_pieces(c[1])
    tns, refs = c[1], c[2]
    s = '<xs:schema xmlns:xs="%s"%s>\n' % (XS, ' targetNamespace="%s"' % tns if tns else "")
    for r in refs:
        if r[0] == "inc":
            s += ' <xs:include schemaLocation="%s"/>\n' % r[2]
        elif r[0] == "red":
            s += ' <xs:redefine schemaLocation="%s"/>\n' % r[2]
        else:
            s += ' <xs:import namespace="%s" schemaLocation="%s"/>\n' % (r[1], r[2])
    s += ' <xs:element name="r%d"/>\n</xs:schema>\n' % (sum(map(ord, tns)) % 97)
    return s


def xml_doc(d):
    s = '<?xml version="1.0" encoding="UTF-8"?>\n'
    dt = d.get("doctype")
    if dt is not None:
        s += "<!DOCTYPE r"
        if dt.get("ext") is not None:
            s += " " + xml_extid(dt["ext"][0], dt["ext"][1])
        if dt.get("int") is not None:
            s += " [\n" + xml_ditems(dt["int"]) + "]"
        s += ">\n"
    s += "<r"
    for k, a in enumerate(d.get("atts", [])):
        s += ' a%d="%s"' % (k, xml_pieces(a))
    hints = d.get("hints", [])
    if hints:
        s += ' xmlns:xsi="%s"' % XSI
        pairs = [h for h in hints if h[0]]
        nons = [h for h in hints if not h[0]]
        # attribute order = order of the hints: the generator puts namespace hints first
        if pairs:
            s += ' xsi:schemaLocation="%s"' % " ".join("%s %s" % h for h in pairs)
        for h in nons[:1]:
            s += ' xsi:noNamespaceSchemaLocation="%s"' % h[1]
    s += ">" + xml_pieces(d.get("body", [])) + "</r>\n"
    return s


R = lambda n: ("R", n)


class Scn:
    """one scenario: a document plus the files it may reach; everything lives under <root>/<tag>/"""

    SUFFIX, FORM = "", "path"

    def __init__(self, root, tag, note):
        self.base_tag = tag
        tag = tag + Scn.SUFFIX
        self.root, self.tag, self.note = root, tag, note
        self.dir = os.path.join(root, tag)
        self.files = {}        # absolute path -> econtent
        self.doc = None
        self.docpath = None
        self.decoys = {}       # path -> why it must never be opened (also part of self.files: the model sees them)
        self.kinds = {}        # path -> explicit kind (dtd / pe / ent / schema) where the name does not tell
        self.netpath = {}      # URL -> file holding what the in-memory net accessor serves for it (keys of self.files
                               # may be URLs: the model's [fs] maps URL texts as well)
        self.net_base = None   # scheme://authority/c19/ of a document that lives on the (in-memory) network

    def p(self, rel):
        return os.path.join(self.dir, rel)

    def n(self, name):
        """globally unique canary basename"""
        return "%s_%s" % (self.tag, name)

    def add(self, rel, content, kind=None, decoy=None):
        path = self.p(rel)
        self.files[path] = content
        if kind:
            self.kinds[path] = kind
        if decoy:
            self.decoys[path] = decoy
        return path

    def setdoc(self, rel, doc, sys_form=None):
        sys_form = sys_form or Scn.FORM
        self.docpath = self.p(rel)
        doc = dict(doc)
        doc["sys"] = self.docpath if sys_form == "path" else "file://" + urllib.parse.quote(self.docpath, safe="/")
        self.doc = doc

    def add_net(self, rel, content, kind=None):
        """a resource of a network document: served for <net_base><tag>/<rel>, stored under <dir>/<rel>"""
        url = self.net_base + self.tag + "/" + rel
        self.files[url] = content
        self.netpath[url] = self.p(rel)
        if kind:
            self.kinds[url] = kind
        return url

    def setdoc_net(self, rel, doc):
        doc = dict(doc)
        doc["sys"] = self.net_base + self.tag + "/" + rel
        self.doc = doc
        self.docpath = doc["sys"]              # what the oracle expects as first resource touched
        self.realdoc = self.p(rel)
        self.netpath[doc["sys"]] = self.realdoc

    def serve_lines(self):
        return ["serve %s %s" % (u, p) for u, p in sorted(self.netpath.items())]

    def write(self):
        realdoc = getattr(self, "realdoc", self.docpath)
        os.makedirs(os.path.dirname(realdoc), exist_ok=True)
        with open(realdoc, "w", encoding="utf-8") as f:
            f.write(xml_doc(self.doc))
        for key, c in self.files.items():
            path = self.netpath.get(key, key)
            os.makedirs(os.path.dirname(path), exist_ok=True)
            with open(path, "w", encoding="utf-8") as f:
                f.write(xml_content(c))


R = lambda n: ("R", n)


class Scn:
    """one scenario: a document plus the files it may reach; everything lives under <root>/<tag>/"""

    SUFFIX, FORM = "", "path"

    def __init__(self, root, tag, note):
        self.base_tag = tag
        tag = tag + Scn.SUFFIX
        self.root, self.tag, self.note = root, tag, note
        self.dir = os.path.join(root, tag)
        self.files = {}        # absolute path -> econtent
        self.doc = None
        self.docpath = None
        self.decoys = {}       # path -> why it must never be opened (also part of self.files: the model sees them)
        self.kinds = {}        # path -> explicit kind (dtd / pe / ent / schema) where the name does not tell
        self.netpath = {}      # URL -> file holding what the in-memory net accessor serves for it (keys of self.files
                               # may be URLs: the model's [fs] maps URL texts as well)
        self.net_base = None   # scheme://authority/c19/ of a document that lives on the (in-memory) network

    def p(self, rel):
        return os.path.join(self.dir, rel)

    def n(self, name):
        """globally unique canary basename"""
        return "%s_%s" % (self.tag, name)

    def add(self, rel, content, kind=None, decoy=None):
        path = self.p(rel)
        self.files[path] = content
        if kind:
            self.kinds[path] = kind
        if decoy:
            self.decoys[path] = decoy
        return path

    def setdoc(self, rel, doc, sys_form=None):
        sys_form = sys_form or Scn.FORM
        self.docpath = self.p(rel)
        doc = dict(doc)
        doc["sys"] = self.docpath if sys_form == "path" else "file://" + urllib.parse.quote(self.docpath, safe="/")
        self.doc = doc

    def add_net(self, rel, content, kind=None):
        """a resource of a network document: served for <net_base><tag>/<rel>, stored under <dir>/<rel>"""
        url = self.net_base + self.tag + "/" + rel
        self.files[url] = content
        self.netpath[url] = self.p(rel)
        if kind:
            self.kinds[url] = kind
        return url

    def setdoc_net(self, rel, doc):
        doc = dict(doc)
        doc["sys"] = self.net_base + self.tag + "/" + rel
        self.doc = doc
        self.docpath = doc["sys"]              # what the oracle expects as first resource touched
        self.realdoc = self.p(rel)
        self.netpath[doc["sys"]] = self.realdoc

    def serve_lines(self):
        return ["serve %s %s" % (u, p) for u, p in sorted(self.netpath.items())]

    def write(self):
        realdoc = getattr(self, "realdoc", self.docpath)
        os.makedirs(os.path.dirname(realdoc), exist_ok=True)
        with open(realdoc, "w", encoding="utf-8") as f:
            f.write(xml_doc(self.doc))
        for key, c in self.files.items():
            path = self.netpath.get(key, key)
            os.makedirs(os.path.dirname(path), exist_ok=True)
            with open(path, "w", encoding="utf-8") as f:
                f.write(xml_content(c))
        return
        for path, c in self.files.items():
            os.makedirs(os.path.dirname(path), exist_ok=True)
            with open(path, "w", encoding="utf-8") as f:
                f.write(xml_content(c))
        os.makedirs(os.path.dirname(self.docpath), exist_ok=True)
        with open(self.docpath, "w", encoding="utf-8") as f:
            f.write(xml_doc(self.doc))


def scenarios(root):
    """the fixed set of reference documents, plus file:-URL variants of three of them (used with
    standard-URI-conformant on, where a plain path is not acceptable as system id)"""
    Scn.SUFFIX, Scn.FORM = "", "path"
    out = scenarios1(root)
    Scn.SUFFIX, Scn.FORM = "u", "url"
    out += [s for s in scenarios1(root) if s.base_tag in ("s01", "s06", "s11")]
    Scn.SUFFIX, Scn.FORM = "", "path"
    return out


def scenarios1(root):
    """every external-reference kind of the property's quantifier"""
    out = []

    # 1. external subset in a sub-directory; nested relative references from the DTD and from an external PE
    s = Scn(root, "s01", "external subset + external GE + external PE, nested relative references in sub-directories")
    s.add("dtd/" + s.n("main.dtd"), ("D", [("G", "e1", ("X", "", "../ent/" + s.n("e1.ent"))),
                                          ("E", "p1", ("X", "", "sub/" + s.n("p1.pe"))),
                                          ("P", "p1"),
                                          ("G", "i1", ("I", ["T", R("e2")]))]))
    s.add("dtd/sub/" + s.n("p1.pe"), ("D", [("G", "e2", ("X", "-//C19//e2", "./" + s.n("e2.ent")))]))
    s.add("ent/" + s.n("e1.ent"), ("N", ["T", R("e2"), "T"]))
    s.add("dtd/sub/" + s.n("e2.ent"), ("N", ["T"]))
    s.setdoc("doc.xml", {"doctype": {"ext": ("", "dtd/" + s.n("main.dtd")), "int": None},
                         "body": ["T", R("e1"), R("i1"), "T"]})
    out.append(s)

    # 2. internal subset only: absolute path, file: URL, attribute default and attribute value with internal entities
    s = Scn(root, "s02", "internal subset: external GE by absolute path, external PE by file: URL, entities in attributes")
    pe = s.add("pe/" + s.n("p.pe"), ("D", [("G", "fromPe", ("I", ["T"])), ("G", "e3", ("X", "", s.n("e3.ent")))]))
    e1 = s.add("abs/" + s.n("e1.ent"), ("N", ["T", R("in1")]))
    s.add("pe/" + s.n("e3.ent"), ("N", ["T"]))
    s.setdoc("d/doc.xml", {"doctype": {"ext": None, "int": [
        ("G", "in1", ("I", ["T"])), ("G", "in2", ("I", [R("in1"), R("in1")])),
        ("G", "e1", ("X", "", e1)), ("E", "p", ("X", "", "file://" + pe)), ("P", "p"),
        ("A", ["T", R("in2")]),
        ("E", "q", ("I", [("G", "viaQ", ("I", ["T", R("in1")]))])), ("P", "q")]},
        "atts": [[R("in2"), "T"], ["T"]],
        "body": [R("e1"), R("viaQ"), R("e3"), R("fromPe")]})
    out.append(s)

    # 3. document given as file: URL, relative external subset and entity
    s = Scn(root, "s03", "document parsed through a file: URL; relative subset and entity resolved against the URL")
    s.add("x/" + s.n("u.dtd"), ("D", [("G", "e1", ("X", "", "../y/" + s.n("e1.ent")))]))
    s.add("y/" + s.n("e1.ent"), ("N", ["T"]))
    s.setdoc("x/doc.xml", {"doctype": {"ext": ("-//C19//u", s.n("u.dtd")), "int": [("G", "k", ("I", ["T"]))]},
                           "body": [R("k"), R("e1")]}, sys_form="url")
    out.append(s)

    # 4. http: identifiers (external subset and an entity): only ever offered to the resolver / attempted
    s = Scn(root, "s04", "http: URL for the external subset")
    s.add("unused/" + s.n("h.dtd"), ("D", [("G", "k", ("I", ["T"]))]))
    s.setdoc("doc.xml", {"doctype": {"ext": ("-//C19//h", HTTP + s.n("h.dtd")), "int": None}, "body": ["T"]})
    out.append(s)

    s = Scn(root, "s05", "http: URL for an external general entity declared in the internal subset")
    s.add("unused/" + s.n("h.ent"), ("N", ["T"]))
    s.setdoc("doc.xml", {"doctype": {"ext": None, "int": [("G", "h", ("X", "", HTTP + s.n("h.ent")))]},
                         "body": ["T", R("h")]})
    out.append(s)

    # 6. schema hints, include / import chains with relative locations
    s = Scn(root, "s06", "xsi:schemaLocation + noNamespaceSchemaLocation; include and import with relative locations")
    s.add("xsd/" + s.n("a.xsd"), ("S", "urn:c19:a", [("inc", "", s.n("b.xsd")), ("imp", "urn:c19:c", "../" + s.n("c.xsd"))]))
    s.add("xsd/" + s.n("b.xsd"), ("S", "urn:c19:a", [("inc", "", "./" + s.n("a.xsd"))]))       # include loop
    s.add(s.n("c.xsd"), ("S", "urn:c19:c", [("imp", "urn:c19:a", "xsd/" + s.n("a.xsd"))]))     # import back
    s.add("nn/" + s.n("n.xsd"), ("S", "", []))
    s.setdoc("doc.xml", {"hints": [("urn:c19:a", "xsd/" + s.n("a.xsd")), ("", "nn/" + s.n("n.xsd"))], "body": ["T"]})
    out.append(s)

    # 7. DTD and schema together; schema location by file: URL and absolute path
    s = Scn(root, "s07", "DTD (internal + external subset) and schema hints by absolute path / file: URL")
    a = s.add("g/" + s.n("a.xsd"), ("S", "urn:c19:g", []))
    n = s.add("g/" + s.n("n.xsd"), ("S", "", [("imp", "urn:c19:h", HTTP + s.n("h.xsd"))]))
    s.add("unused/" + s.n("h.xsd"), ("S", "urn:c19:h", []))
    s.add(s.n("m.dtd"), ("D", [("G", "e1", ("X", "", s.n("e1.ent")))]))
    s.add(s.n("e1.ent"), ("N", ["T"]))
    s.setdoc("doc.xml", {"doctype": {"ext": ("", s.n("m.dtd")), "int": [("G", "k", ("I", ["T"]))]},
                         "hints": [("urn:c19:g", "file://" + a), ("", n)], "atts": [[R("k")]], "body": [R("k"), R("e1")]})
    out.append(s)

    # 8. external entity referenced from an attribute value / from an attribute default: forbidden, never fetched
    s = Scn(root, "s08", "external entity reference in an attribute value (fatal, not fetched)")
    s.add(s.n("e1.ent"), ("N", ["T"]))
    s.setdoc("doc.xml", {"doctype": {"ext": None, "int": [("G", "e1", ("X", "", s.n("e1.ent")))]},
                         "atts": [["T", R("e1")]], "body": [R("e1")]})
    out.append(s)
    s = Scn(root, "s09", "external entity reference in an attribute default of the external subset")
    s.add(s.n("e1.ent"), ("N", ["T"]))
    s.add(s.n("m.dtd"), ("D", [("G", "e1", ("X", "", s.n("e1.ent"))), ("A", [R("e1")])]))
    s.setdoc("doc.xml", {"doctype": {"ext": ("", s.n("m.dtd")), "int": None}, "body": ["T"]})
    out.append(s)

    # 10. missing resources
    s = Scn(root, "s10", "references to files that do not exist (entity, schema)")
    s.add(s.n("m.dtd"), ("D", [("G", "gone", ("X", "", "nowhere/" + s.n("gone.ent")))]))
    s.setdoc("doc.xml", {"doctype": {"ext": ("", s.n("m.dtd")), "int": None},
                         "hints": [("urn:c19:gone", s.n("gone.xsd"))], "body": ["T", R("gone")]})
    out.append(s)

    # 11. dot segments and parent references in system identifiers
    s = Scn(root, "s11", "system identifiers with ./ and ../ segments, nested three levels deep")
    s.add("a/b/" + s.n("l1.dtd"), ("D", [("E", "l2", ("X", "", "./c/../c/" + s.n("l2.pe"))), ("P", "l2")]))
    s.add("a/b/c/" + s.n("l2.pe"), ("D", [("G", "e", ("X", "", "../../../e/./" + s.n("e.ent")))]))
    s.add("e/" + s.n("e.ent"), ("N", ["T", R("f")]))
    s.add("e/z/" + s.n("f.ent"), ("N", ["T"]))
    s.setdoc("a/doc.xml", {"doctype": {"ext": ("", "./b/" + s.n("l1.dtd")),
                                       "int": [("G", "f", ("X", "", "../e/z/" + s.n("f.ent")))]},
                           "body": [R("e"), R("f")]})
    out.append(s)

    # 13. nested schema references of all three kinds below a top-level schema (resolver mode `top` supplies only
    # the top-level schema: with default resolution disabled the nested targets must not be opened)
    s = Scn(root, "s13", "top-level schema with nested xs:include / xs:import / xs:redefine in sub-directories")
    s.add("x/" + s.n("top.xsd"), ("S", "urn:c19:t", [("inc", "", "i/" + s.n("inc.xsd")), ("imp", "urn:c19:u", "../y/" + s.n("imp.xsd")),
                                                    ("red", "", "./r/" + s.n("red.xsd"))]))
    s.add("x/i/" + s.n("inc.xsd"), ("S", "urn:c19:t", [("inc", "", s.n("inc2.xsd"))]))
    s.add("x/i/" + s.n("inc2.xsd"), ("S", "urn:c19:t", []))
    s.add("y/" + s.n("imp.xsd"), ("S", "urn:c19:u", []))
    s.add("x/r/" + s.n("red.xsd"), ("S", "urn:c19:t", []))
    s.setdoc("doc.xml", {"hints": [("urn:c19:t", "x/" + s.n("top.xsd"))], "body": ["T"]})
    out.append(s)

    # 14. percent-escapes in file: URL system identifiers: the resource opened is the SINGLE unescaping of the URL
    # path (RFC 2396 2.4.2); decoys carry the double-unescaped and the not-unescaped names
    s = Scn(root, "s14", "file: URL identifiers with %25hh, %20, %23, %3F, %2B escapes for DTD / PE / GE / schema / import")
    D, E, X = ("D", []), ("N", ["T"]), ("S", "", [])
    s.add("dtd x/" + s.n("m%41.dtd"), ("D", [("G", "e1", ("X", "", "../ent/" + s.n("h%23x%3Fy.ent"))),
                                             ("E", "p1", ("X", "", "deep/er/" + s.n("p%2Bq%2520r.pe"))), ("P", "p1"),
                                             ("G", "e3", ("X", "", "../ent/" + s.n("k%2542%2543.ent")))]), kind="dtd")
    s.add("dtd x/" + s.n("mA.dtd"), D, kind="dtd", decoy="double-unescaped name")
    s.add("dtd x/" + s.n("m%2541.dtd"), D, kind="dtd", decoy="name not unescaped")
    s.add("ent/" + s.n("h#x?y.ent"), E)
    s.add("dtd x/deep/er/" + s.n("p+q%20r.pe"), ("D", [("G", "e2", ("X", "", s.n("z%2520.ent")))]), kind="pe")
    s.add("dtd x/deep/er/" + s.n("p+q r.pe"), D, kind="pe", decoy="double-unescaped name")
    s.add("dtd x/deep/er/" + s.n("z%20.ent"), E)
    s.add("dtd x/deep/er/" + s.n("z .ent"), E, decoy="double-unescaped name")
    s.add("ent/" + s.n("k%42%43.ent"), E)
    s.add("ent/" + s.n("kBC.ent"), E, decoy="double-unescaped name")
    s.add("ent/" + s.n("kB%43.ent"), E, decoy="first escape unescaped twice")
    s.add("xsd/" + s.n("a%25b.xsd"), ("S", "urn:c19:p", [("imp", "urn:c19:q", "sub%20dir/" + s.n("i%2544.xsd"))]))
    s.add("xsd/" + s.n("a%b.xsd"), ("S", "urn:c19:p", []), decoy="double-unescaped name")
    s.add("xsd/sub dir/" + s.n("i%44.xsd"), ("S", "urn:c19:q", []))
    s.add("xsd/sub dir/" + s.n("iD.xsd"), ("S", "urn:c19:q", []), decoy="double-unescaped name")
    s.setdoc("p q/doc.xml", {"doctype": {"ext": ("", "../dtd%20x/" + s.n("m%2541.dtd")), "int": None},
                             "hints": [("urn:c19:p", "../xsd/" + s.n("a%2525b.xsd"))],
                             "body": [R("e1"), R("e2"), R("e3")]}, sys_form="url")
    out.append(s)

    # 15. the same kinds of names through plain paths (LocalFileInputSource: the name is taken literally, only %20
    # becomes a blank); spaces, '#', '?', '+', literal '%hh' and a non-ASCII name
    s = Scn(root, "s15", "plain-path identifiers with blanks, '#', '?', '+', literal %hh and non-ASCII names")
    s.add("dtd x/" + s.n("m%41.dtd"), ("D", [("G", "e1", ("X", "", "../ent/" + s.n("h#x?y.ent"))),
                                             ("G", "e2", ("X", "", "../ent/" + s.n("k%2541.ent"))),
                                             ("G", "e3", ("X", "", "../ent/\u00e9/" + s.n("\u00e9+1.ent")))]), kind="dtd")
    s.add("dtd x/" + s.n("mA.dtd"), D, kind="dtd", decoy="unescaped although addressed as a plain path")
    s.add("ent/" + s.n("h#x?y.ent"), E)
    s.add("ent/" + s.n("k%2541.ent"), E)
    s.add("ent/" + s.n("kA.ent"), E, decoy="double-unescaped name")
    s.add("ent/\u00e9/" + s.n("\u00e9+1.ent"), E)
    s.setdoc("doc.xml", {"doctype": {"ext": ("", "dtd x/" + s.n("m%41.dtd")), "int": None},
                         "body": [R("e1"), R("e2"), R("e3")]})
    out.append(s)

    # 16. UTF-8 escapes in a file: URL (known finding C19-F3: decoded octet by octet as Latin-1)
    s = Scn(root, "s16", "file: URL identifier with UTF-8 escapes for a non-ASCII file name")
    s.add("\u00e9/" + s.n("\u00e9.ent"), E)
    s.add("\u00c3\u00a9/" + s.n("\u00c3\u00a9.ent"), E, decoy="latin1")
    s.add("lit/" + s.n("\u00e9.ent"), E)
    s.setdoc("doc.xml", {"doctype": {"ext": None, "int": [("G", "u8", ("X", "", "%C3%A9/" + s.n("%C3%A9.ent"))),
                                                        ("G", "lit", ("X", "", "lit/" + s.n("\u00e9.ent")))]},
                         "body": [R("lit"), R("u8")]}, sys_form="url")
    out.append(s)

    # 17/18. documents that live on a server with user, password and an explicit non-default port: every relative
    # reference (path-relative, parent-relative, absolute-path, from nested entities, schema hints and includes) must be
    # requested from exactly that authority.  An in-memory net accessor records the URLs; nothing touches the network.
    for tag, nb in (("s17", "http://usr:pw@127.0.0.1:8080/c19/"), ("s18", "ftp://ftp.c19.example:2121/c19/")):
        s = Scn(root, tag, "document on %s: relative references inherit user, password, host and port" % nb)
        s.net_base = nb
        abs_e2 = "/c19/" + s.tag + "/abs/" + s.n("e2.ent")
        s.add_net("dtd/" + s.n("m.dtd"), ("D", [("G", "e1", ("X", "", "../ent/" + s.n("e1.ent"))),
                                              ("G", "e2", ("X", "", abs_e2)),
                                              ("E", "p1", ("X", "", "sub/" + s.n("p1.pe"))), ("P", "p1")]), kind="dtd")
        s.add_net("dtd/sub/" + s.n("p1.pe"), ("D", [("G", "e3", ("X", "", "./" + s.n("e3.ent")))]), kind="pe")
        s.add_net("ent/" + s.n("e1.ent"), ("N", ["T", R("e3")]))
        s.add_net("abs/" + s.n("e2.ent"), ("N", ["T"]))
        s.add_net("dtd/sub/" + s.n("e3.ent"), ("N", ["T"]))
        s.add_net("xsd/" + s.n("a.xsd"), ("S", "urn:c19:net", [("inc", "", "inc/" + s.n("b.xsd"))]))
        s.add_net("xsd/inc/" + s.n("b.xsd"), ("S", "urn:c19:net", []))
        s.setdoc_net("docs/" + s.n("main.xml"), {"doctype": {"ext": ("", "../dtd/" + s.n("m.dtd")), "int": None},
                                                 "hints": [("urn:c19:net", "../xsd/" + s.n("a.xsd"))],
                                                 "body": [R("e1"), R("e2")]})
        out.append(s)

    # c1-c3: the three DOCTYPE shapes of the cached-grammar matrix
    s = Scn(root, "c01", "external subset, no internal subset (the shape useCachedGrammarInParse looks up in the pool)")
    s.add("dtd/" + s.n("m.dtd"), ("D", [("G", "k", ("I", ["T"])), ("G", "e1", ("X", "", s.n("e1.ent"))), ("A", ["T", R("k")])]))
    s.add("dtd/" + s.n("e1.ent"), ("N", ["T"]))
    s.setdoc("doc.xml", {"doctype": {"ext": ("-//C19//c1", "dtd/" + s.n("m.dtd")), "int": None}, "body": ["T", R("k"), R("e1")]})
    out.append(s)
    s = Scn(root, "c02", "external and internal subset")
    s.add("dtd/" + s.n("m.dtd"), ("D", [("G", "e1", ("X", "", s.n("e1.ent")))]))
    s.add("dtd/" + s.n("e1.ent"), ("N", ["T"]))
    s.setdoc("doc.xml", {"doctype": {"ext": ("", "dtd/" + s.n("m.dtd")), "int": [("G", "k", ("I", ["T"]))]}, "body": [R("k"), R("e1")]})
    out.append(s)
    s = Scn(root, "c03", "no DOCTYPE")
    s.setdoc("doc.xml", {"body": ["T"]})
    out.append(s)

    # 12. no references at all (nothing may be touched in any configuration)
    s = Scn(root, "s12", "document without external references")
    s.setdoc("doc.xml", {"doctype": {"ext": None, "int": [("G", "k", ("I", ["T"]))]}, "body": [R("k")]})
    out.append(s)
    for s in out:
        s.parents = PARENTS[s.base_tag]
    return out


# which entity holds the declaration / reference of each canary (None = the document entity); a.xsd is also
# referenced from b.xsd and c.xsd (loops), which the oracle accepts as additional parents
PARENTS = {'s01': {'main.dtd': None, 'p1.pe': 'main.dtd', 'e1.ent': 'main.dtd', 'e2.ent': 'p1.pe'}, 's02': {'p.pe': None, 'e1.ent': None, 'e3.ent': 'p.pe'}, 's03': {'u.dtd': None, 'e1.ent': 'u.dtd'}, 's04': {'h.dtd': None}, 's05': {'h.ent': None}, 's06': {'a.xsd': None, 'b.xsd': 'a.xsd', 'c.xsd': 'a.xsd', 'n.xsd': None}, 's07': {'a.xsd': None, 'n.xsd': None, 'h.xsd': 'n.xsd', 'm.dtd': None, 'e1.ent': 'm.dtd'}, 's08': {'e1.ent': None}, 's09': {'e1.ent': 'm.dtd', 'm.dtd': None}, 's10': {'m.dtd': None, 'gone.ent': 'm.dtd', 'gone.xsd': None}, 's11': {'l1.dtd': None, 'l2.pe': 'l1.dtd', 'e.ent': 'l2.pe', 'f.ent': None}, 's12': {}, 'c01': {}, 'c02': {}, 'c03': {}, 's17': {}, 's18': {}, 's14': {}, 's15': {}, 's16': {}, 's13': {'top.xsd': None, 'inc.xsd': 'top.xsd', 'imp.xsd': 'top.xsd', 'red.xsd': 'top.xsd', 'inc2.xsd': 'inc.xsd'}}
EXTRA_PARENTS = {'s06': {'a.xsd': ['b.xsd', 'c.xsd']}}


# ------------------------------------------------------------------------------------------------
# entity tables for the expansion limit and the recursion check
# ------------------------------------------------------------------------------------------------
def limit_docs(root):
    """(scenario, needed expansions in content+attribute values, dtd-side expansions, cyclic?) ; every document is
    self-contained (internal subset only)"""
    out = []
    k = [0]

    def mk(note, decls, atts, body, needed, dtd_side=0, cyc=0, files=None, ext=None):
        k[0] += 1
        s = Scn(root, "l%03d" % k[0], note)
        for rel, c in (files or {}).items():
            s.add(rel.replace("@", s.tag + "_"), c)
        decls = [(d[0], d[1], ("X", d[2][1], d[2][2].replace("@", s.tag + "_")))
                 if d[0] in ("G", "E") and d[2][0] == "X" else d for d in decls]
        s.setdoc("doc.xml", {"doctype": {"ext": ext, "int": decls}, "atts": atts, "body": body})
        s.needed, s.dtd_side, s.cyc = needed, dtd_side, cyc
        out.append(s)
        return s

    e0 = ("G", "e0", ("I", ["T"]))
    for n in (0, 1, 2, 3, 4, 5, 7, 8, 9):
        mk("flat: %d references in content" % n, [e0], [], [R("e0")] * n + ["T"], n)
    for n in (1, 2, 3, 4, 5, 6):
        # chain e_n -> e_{n-1} -> ... -> e0 : one reference in content needs n+1 expansions
        decls = [e0] + [("G", "e%d" % i, ("I", ["T", R("e%d" % (i - 1))])) for i in range(1, n + 1)]
        mk("chain of depth %d" % (n + 1), decls, [], [R("e%d" % n)], n + 1)
    for n in (1, 2, 3):
        # binary tree: e_i = e_{i-1} e_{i-1} : 2^(n+1)-1 expansions
        decls = [e0] + [("G", "e%d" % i, ("I", [R("e%d" % (i - 1))] * 2)) for i in range(1, n + 1)]
        mk("binary tree of depth %d" % (n + 1), decls, [], [R("e%d" % n)], 2 ** (n + 1) - 1)
    for n in (1, 2, 3, 5):
        mk("%d references in an attribute value, 1 in content" % n, [e0], [[R("e0")] * n], [R("e0")], n + 1)
    mk("attribute values and content mixed", [e0, ("G", "e1", ("I", [R("e0"), R("e0")]))],
       [[R("e1")], ["T", R("e0")]], [R("e1"), "T", R("e0")], 3 + 1 + 3 + 1)
    # references nested below an attribute value, below an attribute default, and below both
    for n in (1, 2, 3, 4):
        chain = [e0] + [("G", "e%d" % i, ("I", ["T", R("e%d" % (i - 1))])) for i in range(1, n + 1)]
        tree = [e0] + [("G", "e%d" % i, ("I", [R("e%d" % (i - 1))] * 2)) for i in range(1, n + 1)]
        mk("chain of depth %d inside an attribute value" % (n + 1), chain, [[R("e%d" % n)]], ["T"], n + 1)
        mk("binary tree of depth %d inside an attribute value" % (n + 1), tree, [["T", R("e%d" % n)]], ["T"], 2 ** (n + 1) - 1)
        mk("chain of depth %d inside an attribute default" % (n + 1), chain + [("A", [R("e%d" % n)])], [], ["T"], 0,
           dtd_side=n + 1)
        mk("tree of depth %d inside an attribute default, chain inside a value and in content" % (n + 1),
           tree + [("A", ["T", R("e%d" % n)])], [[R("e%d" % min(n, 2))]], [R("e1")],
           (2 ** (min(n, 2) + 1) - 1) + 3, dtd_side=2 ** (n + 1) - 1)
    # recursion cycles of every length 1..6, entered from content, from an attribute value
    for n in range(1, 7):
        decls = [("G", "c%d" % i, ("I", ["T", R("c%d" % ((i + 1) % n))])) for i in range(n)]
        mk("cycle of length %d entered from content" % n, decls, [], ["T", R("c0")], None, cyc=n)
        mk("cycle of length %d entered from an attribute value" % n, decls, [[R("c0")]], ["T"], None, cyc=n)
        mk("cycle of length %d behind a non-cyclic entity" % n, decls + [("G", "lead", ("I", [R("c%d" % (n - 1))]))],
           [], [R("lead")], None, cyc=n)
    # cycle through an external entity
    s = mk("cycle through an external general entity", [("G", "x", ("X", "", "@x.ent"))], [], [R("x")], None, cyc=1,
           files={"@x.ent": ("N", ["T", R("x")])})
    # DTD-side expansions: parameter entities and general entities in attribute defaults (not counted by the code)
    for n in (1, 3, 6):
        mk("%d parameter entity references in the internal subset" % n,
           [("E", "p", ("I", [("G", "fromP", ("I", ["T"]))]))] + [("P", "p")] * n, [], ["T"], 0, dtd_side=n)
        mk("%d general entity references in an attribute default" % n, [e0, ("A", [R("e0")] * n)], [], ["T"], 0,
           dtd_side=n)
    for n in range(1, 7):
        decls = [("E", "q%d" % i, ("I", [("P", "q%d" % ((i + 1) % n))])) for i in range(n)] + [("P", "q0")]
        mk("parameter entity cycle of length %d" % n, decls, [], ["T"], None, cyc=n)
        decls = [("G", "c%d" % i, ("I", [R("c%d" % ((i + 1) % n))])) for i in range(n)] + [("A", ["T", R("c0")])]
        mk("general entity cycle of length %d in an attribute default" % n, decls, [], ["T"], None, cyc=n)
    return out


# ------------------------------------------------------------------------------------------------
# running
# ------------------------------------------------------------------------------------------------
def run_bin(binpath, lines, timeout=1500):
    p = subprocess.run([binpath], input=("\n".join(lines) + "\n").encode(), stdout=subprocess.PIPE,
                       stderr=subprocess.PIPE, timeout=timeout)
    return p.returncode, p.stdout.decode("utf-8", "replace").splitlines(), p.stderr.decode("utf-8", "replace")


def canon(o):
    """collapse consecutive identical O events (inotify coalesces them)"""
    parts = o.split(" ")
    if not parts[0].startswith("tr="):
        return o
    out = []
    for e in parts[0][3:].split(";"):
        if out and e.startswith("O(") and out[-1] == e:
            continue
        out.append(e)
    return "tr=" + ";".join(out) + " " + " ".join(parts[1:])


def parse_answer(o):
    d = {}
    for part in o.split(" "):
        if "=" in part:
            k, v = part.split("=", 1)
            d[k] = v
    d["events"] = [] if d.get("tr", "-") in ("-", "") else [unesc(e) for e in d["tr"].split(";")]
    return d


def req(api, scn, val, ds, ls, ld, dis, su, lim, res, s):
    return "parse %s %s %s %s %s %s %s %s %s %s %s %s %s" % (
        api, scn, val, ds, ls, ld, dis, su, "-" if lim is None else lim, res, s.doc["sys"], ser_doc(s.doc),
        ser_fs(s.files))


def creq(a, uc, primed, s):
    """parse with useCachedGrammarInParse = uc, on a parser whose grammar pool was (primed) / was not filled by a
    previous parse of the same document with cacheGrammarFromParse"""
    f = req(*a, s).split(" ")
    return " ".join(["cparse"] + f[1:11] + [uc, primed] + f[11:])


SCANNERS = ["IG", "DG", "SG", "WF"]
VALS = ["never", "always", "auto"]
RES = ["none", "null", "src", "top"]


def strip_file(u):
    return u[7:] if u.startswith("file://") else u


def kind_of_file(s, path):
    c = s.files.get(path)
    if c is None:
        return None
    if path in s.kinds:
        return s.kinds[path]
    if c[0] == "S":
        return "schema"
    if c[0] == "N":
        return "ent"
    # a DTD-content file is the external subset if the DOCTYPE names it, else an external parameter entity
    dt = s.doc.get("doctype") or {}
    ext = dt.get("ext")
    if ext is not None and os.path.basename(ext[1]) == os.path.basename(path):
        return "dtd"
    return "pe"


class Oracle:
    """the Spec side: `permitted` and `rfc_resolve` evaluated by the extracted specification functions"""

    def __init__(self, xm):
        self.xm = xm
        self.perm = {}
        self.rfc = {}
        self.unesc = {}
        lines, keys = [], []
        for scn in SCANNERS:
            for val in VALS:
                for ds, ls, ld, dis, hs in itertools.product("01", repeat=5):
                    for k in ("dtd", "ent", "pe", "schema"):
                        keys.append((scn, val, ds, ls, ld, dis, hs, k))
                        lines.append("permitted %s %s %s %s %s %s %s %s" % keys[-1])
        rc, out, err = run_bin(xm, lines)
        for k, o in zip(keys, out):
            self.perm[k] = o == "ok 1"

    def permitted(self, scn, val, ds, ls, ld, dis, has_subset, kind):
        return self.perm[(scn, val, ds, ls, ld, dis, "1" if has_subset else "0", kind)]

    def unescape_all(self, strs):
        """single-pass unescape by the extracted Spec (pct_decode); the octets are then read as UTF-8"""
        todo = [x for x in set(strs) if x not in self.unesc]
        if not todo:
            return
        rc, out, err = run_bin(self.xm, ["unesc " + esc(x) for x in todo])
        for x, o in zip(todo, out):
            if not o.startswith("ok"):
                self.unesc[x] = None
                continue
            units = unesc("" if o == "ok -" else o[3:])
            try:
                self.unesc[x] = bytes(ord(c) for c in units).decode("utf-8") if all(ord(c) < 256 for c in units) else units
            except (UnicodeDecodeError, ValueError):
                self.unesc[x] = units

    def resolve_all(self, pairs):
        todo = [p for p in set(pairs) if p not in self.rfc]
        if not todo:
            return
        rc, out, err = run_bin(self.xm, ["rfc %s %s" % (b or "-", r or "-") for b, r in todo])
        for p, o in zip(todo, out):
            self.rfc[p] = "" if o == "ok -" else o[3:]


def spec_check(orc, a, s, ans):
    """does the implementation's answer to request fields `a` on scenario `s` satisfy the property text?
    returns a list of (what, detail); empty = satisfied.  Uses only the extracted Spec functions + the scenario."""
    bad = []
    api, scn, val, ds, ls, ld, dis, su, lim, res = a
    dt = s.doc.get("doctype")
    has_subset = dt is not None and (dt.get("ext") is not None or dt.get("int") is not None)
    ev = ans["events"]
    docpath = s.docpath
    opens = [(i, e[2:-1]) for i, e in enumerate(ev) if e.startswith("O(") or e.startswith("N(")]
    if not opens or opens[0][1] != docpath:
        bad.append(("doc", "the document entity itself was not the first resource touched"))
    if s.net_base:
        # RFC 2396 5.2 step 4: no reference of this document has an authority of its own, so every request must go to
        # the scheme and authority (userinfo@host:port, as one unit) of the document's URL
        auth = lambda u: u.split("://", 1)[0] + "://" + re.split(r"[/?#]", u.split("://", 1)[1])[0] if "://" in u else None
        for i, name in opens[1:]:
            if ev[i].startswith("N(") and auth(name) != auth(docpath):
                bad.append(("authority", "%s was requested although the document lives on %s" % (name, auth(docpath))))
    pairs = []
    for i, path in opens[1:]:
        if path == docpath:
            continue
        kind = kind_of_file(s, path)
        if kind is None and ev[i].startswith("N("):
            # a network identifier whose canary is not served (nothing listens there): classified by its base name
            same = [p for p in s.files if os.path.basename(p) == os.path.basename(path)]
            kind = kind_of_file(s, same[0]) if same and not s.net_base else None
        if kind is None:
            bad.append(("foreign", "a resource that the document does not reference was fetched: " + path))
            continue
        if path in s.decoys:
            if s.decoys[path] == "latin1":
                bad.append(("KF3", "UTF-8 escapes decoded octet by octet as Latin-1: opened " + path))
            else:
                bad.append(("unescape-once", "decoy opened (%s): %s" % (s.decoys[path], path)))
            continue
        if not orc.permitted(scn, val, ds, ls, ld, dis, has_subset, kind):
            bad.append(("forbidden", "%s %s was fetched although the configuration forbids it" % (kind, path)))
        if res != "none":
            if i == 0 or not ev[i - 1].startswith("R("):
                bad.append(("resolver-first", "open of %s was not preceded by a resolver call" % path))
            else:
                f = ev[i - 1][2:-1].split(",")
                pairs.append((f[2], f[1], path))
    if res == "src":
        # a source supplied by the resolver must be used instead of the default: no canary may be opened
        for i, e in enumerate(ev):
            if e.startswith("U(") and i + 1 < len(ev) and ev[i + 1].startswith("O(") and \
                    os.path.basename(ev[i + 1][2:-1]) == e[2:-1].split(":", 1)[1]:
                bad.append(("resolver-source", "resolver supplied %s but the default was opened" % e))
    simple = lambda x: all(0x20 < ord(ch) < 0x7F for ch in x)
    pairs = [(b, r, path) for b, r, path in pairs if simple(b) and simple(r)]
    orc.resolve_all([(b, r) for b, r, _ in pairs])
    orc.unescape_all([strip_file(orc.rfc[(b, r)]) for b, r, _ in pairs])
    for b, r, path in pairs:
        res_uri = orc.rfc[(b, r)]
        lit = strip_file(res_uri)
        once = orc.unesc.get(lit)
        # a file: URL names the single unescaping of its path; a plain path names itself (or its single unescaping)
        ok_names = {once} if res_uri.startswith("file:") else {lit, once}
        if path not in ok_names:
            bad.append(("rfc2396", "resolver saw (%s, base %s) = %s by RFC 2396, which names %s, but %s was opened"
                        % (r, b, res_uri, sorted(x for x in ok_names if x), path)))
    # base of every resolver call = system id of the entity that contains the reference / declaration
    bypath = {os.path.basename(p): p for p in s.files}
    for e in ev:
        if e.startswith("R("):
            f = e[2:-1].split(",")
            bn = os.path.basename(f[1])
            short = bn[len(s.tag) + 1:] if bn.startswith(s.tag + "_") else bn
            parents = getattr(s, "parents", None)
            if parents is None or short not in parents:
                continue
            okb = set()
            for par in [parents[short]] + EXTRA_PARENTS.get(s.base_tag, {}).get(short, []):
                if par is None:
                    okb |= {docpath, s.doc["sys"]}
                else:
                    pp = bypath.get(s.tag + "_" + par)
                    okb |= {pp, "file://%s" % pp, "mem:%s_%s" % (s.tag, par)}
            if f[2] not in okb:
                bad.append(("base", "resolver was given base %r for %s, not the system id of the containing entity"
                            % (f[2], f[1])))
    if lim is not None:
        if int(ans.get("starts", "0")) > lim:
            bad.append(("limit", "%s expansions reported with limit %d" % (ans.get("starts"), lim)))
    return bad


KF3_ID = "C19-F3"
KF3_TEXT = ("XMLURL::makeNewStream unescapes a file: URL path octet by octet into XMLCh values, so UTF-8 escapes of a "
            "non-ASCII file name are read as Latin-1: file:///.../%C3%A9/x_%C3%A9.ent opens 'Ã©/x_Ã©.ent' (if it "
            "exists) instead of 'é/x_é.ent', while the literal non-ASCII identifier opens the right file")
KF_ID = "C19-F1"
KF_TEXT = ("entity references expanded by the DTD scanner (parameter-entity references; general-entity references in "
           "attribute default values) are not counted against SecurityManager::getEntityExpansionLimit: "
           "DTDScanner::expandPERef / DTDScanner::scanEntityRef never touch fEntityExpansionCount")


def build_cases(ctx, root):
    """returns (scenarios, limit docs, cases) ; case = (kind, fields, scenario, request line)"""
    scs = scenarios(root)
    lds = limit_docs(root)
    for s in scs + lds:
        s.write()
    cases = []

    def add(kind, a, s):
        cases.append((kind, a, s, req(*a, s)))

    # known-finding witnesses first (limit 2, six DTD-side expansions, nothing in content)
    for s in lds:
        if s.dtd_side == 6:
            add("witness-F1", ("sax", "IG", "never", "0", "0", "0", "0", "0", 2, "none"), s)
    # 1. the whole configuration space on every reference document
    for s in scs:
        if s.tag.endswith("u"):
            continue
        for api in ("sax", "dom"):
            for scn in SCANNERS:
                for val in VALS:
                    for ds, ls, ld, dis in itertools.product("01", repeat=4):
                        for res in RES:
                            if res in ("src", "top") and s.tag in ("s14", "s15", "s16"):
                                continue      # the canary resolver finds files by their literal base name
                            if res == "top" and s.net_base:
                                continue      # `top` hands out real paths as system ids
                            add("cfg-space", (api, scn, val, ds, ls, ld, dis, "0", None, res), s)
        if s.doc["sys"].startswith("file:"):
            for scn in ("IG", "SG"):
                for dis in "01":
                    for res in (RES[:2] if s.base_tag in ("s14", "s15", "s16") else RES):
                        for api in ("sax", "dom"):
                            add("std-uri", (api, scn, "auto", "1", "1", "1", dis, "1", None, res), s)
    # 1b. the gate matrix around useCachedGrammarInParse (the refuter of the T-gate obligation): scanner x useCached x
    # pool primed or not x loadExternalDTD x validation scheme x DOCTYPE shape x resolver x disableDefault x API
    for s in scs:
        if not s.tag.startswith("c0"):
            continue
        for api in ("sax", "dom"):
            for scn in SCANNERS:
                for val in VALS:
                    for ld, dis, uc, pr in itertools.product("01", repeat=4):
                        for res in RES[:3]:
                            a = (api, scn, val, "0", "0", ld, dis, "0", None, res)
                            cases.append(("cache-matrix", a, s, creq(a, uc, pr, s)))
    # 2. expansion limits L-1, L, L+1 around what each document needs; recursion cycles
    for s in lds:
        if s.cyc:
            lims = [None, 0, 1, s.cyc, s.cyc + 1, 100]
        else:
            n = s.needed + s.dtd_side
            lims = sorted({x for x in (0, s.needed - 1, s.needed, s.needed + 1, n - 1, n, n + 1, 50) if x >= 0}) + [None]
        for lim in lims:
            for api in ("sax", "dom"):
                for scn in ("IG", "DG"):
                    add("limit" if not s.cyc else "cycle", (api, scn, "never", "0", "0", "1", "0", "0", lim, "none"), s)
            add("limit-nodtd-scanner", ("sax", "WF", "never", "0", "0", "1", "0", "0", lim, "none"), s)
    # 3. seeded extra: random configurations x random limit on the reference documents
    rng = ctx.rng
    for _ in range(300 if ctx.tier == "quick" else 5000):
        s = rng.choice(scs)
        su = rng.choice("01") if s.doc["sys"].startswith("file:") else "0"
        a = (rng.choice(("sax", "dom")), rng.choice(SCANNERS), rng.choice(VALS), rng.choice("01"), rng.choice("01"),
             rng.choice("01"), rng.choice("01"), su, rng.choice([None, 0, 1, 2, 3, 6, 50]),
             rng.choice(RES[:2] if s.base_tag in ("s14", "s15", "s16") or s.net_base else RES))
        add("seeded", a, s)
    return scs, lds, cases


RFC_C = ["g:h", "g", "./g", "g/", "/g", "//g", "?y", "g?y", "#s", "g#s", "g?y#s", ";x", "g;x", "g;x?y#s", ".", "./", "..",
         "../", "../g", "../..", "../../", "../../g", "../../../g", "../../../../g", "/./g", "/../g", "g.", ".g", "g..",
         "..g", "./../g", "./g/.", "g/./h", "g/../h", "g;x=1/./y", "g;x=1/../y", "g?y/./x", "g?y/../x", "g#s/./x",
         "g#s/../x", "http:g"]
URI_BASES = ["http://a/b/c/d;p?q", "file:///w/d1/doc.xml", "/w/d1/doc.xml", "/w/d1/", "d1/doc.xml", "http://h/x/y/z.xml"]
# bases whose authority has user, password and/or an explicit port (RFC 2396 5.2 step 4: inherited as one unit);
# XMLUri's authority model does not cover these, so they go to the XMLURL / default-source operations only
AUTH_BASES = ["http://usr:pw@host.example:8080/dir/sub/doc.xml", "http://usr@h:8080/a/b", "ftp://ftp.example:2121/pub/d/doc.xml",
              "https://h.example:8443/x/y?q#f", "http://h:80/x/doc.xml", "file://fh:99/w/doc.xml", "http://u:p@h/only/user.xml"
              ]   # (an IPv6 literal host is not accepted by XMLURL at all: setURL fails, the model agrees)
KF2_ID = "C19-F2"
KF2_TEXT = ("relative-reference resolution deviates from RFC 2396 section 5.2 on abnormal references: XMLURL/weavePaths "
            "and LocalFileInputSource keep a trailing '.'/'..' segment ('.' against http://a/b/c/d;p?q gives "
            "http://a/b/c/. instead of http://a/b/c/), treat 'a//../b' as '/b', XMLURL drops the base query for '#s' and "
            "cannot resolve 'g:h'/'http:g'/'' at all, LocalFileInputSource treats '?', '#', ':' as file-name characters, "
            "XMLUri returns '//g' unresolved, resolves '?y' the RFC 3986 way and throws on base http://a/x with '..'")


def is_plain_rel(ref, depth):
    """mirror of Uri19.plain_rel restricted by the base depth: k leading '..' (k <= depth) then non-empty
    segments of unreserved characters none of which is '.' or '..'"""
    if not ref or ref.startswith("/"):
        return False
    segs = ref.split("/")
    k = 0
    while k < len(segs) and segs[k] == "..":
        k += 1
    rest = segs[k:]
    if k > depth or not rest:
        return False
    ok = set("abcdefghijklmnopqrstuvwxyzABCDEFGHIJKLMNOPQRSTUVWXYZ0123456789-_.~")
    return all(s and s not in (".", "..") and set(s) <= ok for s in rest)


def uri_cases(ctx):
    rng = ctx.rng
    refs = list(RFC_C)
    segs = ["a", "b.c", ".", "..", "", "x%20y", "g", "dtd", "e-1"]
    for _ in range(700 if ctx.tier == "quick" else 20000):
        n = rng.randrange(1, 6)
        r = "/".join(rng.choice(segs) for _ in range(n))
        pre = rng.choice(["", "", "", "/", "file:", "file://", "file:///", "http://h/", "../", "./"])
        r = pre + r + rng.choice(["", "", "/"])
        refs.append(r or "-")
    for _ in range(300 if ctx.tier == "quick" else 5000):       # plain relative references (the guarded theorem's class)
        k = rng.randrange(0, 3)
        refs.append("/".join([".."] * k + [rng.choice(["a", "b.c", "g", "dtd", "e-1", "x.ent"]) for _ in range(rng.randrange(1, 4))]))
    out = []
    for base in URI_BASES:
        for r in refs:
            for op in ("localfile", "xmlurl", "xmluri", "default0", "default1"):
                out.append((op, base, r))
    for base in AUTH_BASES:
        for r in refs:
            for op in ("xmlurl", "xmlurlparts", "default0", "default1"):
                out.append((op, base, r))
    for r in refs:
        out.append(("normalize", "-", r))
    return out


def url_authority(u):
    """scheme://authority of a URL text, authority = userinfo@host:port as one unit"""
    if "://" not in u:
        return None
    sch, rest = u.split("://", 1)
    return sch + "://" + re.split(r"[/?#]", rest)[0]


def base_depth(base):
    """number of directory segments of the base path that a leading '..' can climb"""
    path = base
    if "://" in base:
        path = "/" + base.split("://", 1)[1].split("/", 1)[1] if "/" in base.split("://", 1)[1] else "/"
    path = path.split("?")[0]
    return max(0, len([s for s in path.split("/")[:-1] if s]))


def hist_cases(ctx, lds):
    """histories on ONE parser object: (api, ops, docs) ; docs are self-contained entity-table documents whose
    number of counted expansions (`needed`) is known by construction"""
    rng = ctx.rng
    pool = [s for s in lds if not s.cyc and s.dtd_side == 0 and s.needed >= 1]
    by_need = {}
    for s in pool:
        by_need.setdefault(s.needed, []).append(s)
    out = []

    def add(kind, api, ops, docs):
        out.append((kind, api, ops, docs))

    def pick(n):
        return rng.choice(by_need[n])

    needs = sorted(by_need)
    for api in ("sax", "dom", "sax1"):
        for scn in SCANNERS:
            for (n1, n2, n3) in ((2, 2, 1), (3, 1, 3), (1, 1, 1), (5, 4, 2), (7, 3, 5)):
                docs = [pick(n1), pick(n2), pick(n3)]
                lim = max(n1, n2, n3)                     # each document within the limit, prefix sums cross it
                seq = ["P0", "P1", "P2", "P0"]
                add("hist-sums", api, ["L%d" % lim, "M1", "S" + scn] + seq, docs)          # manager before the scanner
                add("hist-sums", api, ["S" + scn, "L%d" % lim, "M1"] + seq, docs)          # manager after the scanner
                add("hist-sums", api, ["M1", "S" + scn, "L%d" % lim] + seq[:2], docs)      # limit set after installing
                # lowered between parses: over the new limit must be rejected; raised again: accepted
                add("hist-lower", api, ["L50", "M1", "S" + scn, "P0", "L%d" % (n1 - 1), "P0", "P1", "L50", "P0"], docs)
                add("hist-raise", api, ["S" + scn, "L%d" % (n1 - 1), "M1", "P0", "L%d" % n1, "P0", "L%d" % (n1 + n2), "P1", "P0"], docs)
                # scanner switches in the middle of the history
                other = "DG" if scn != "DG" else "IG"
                add("hist-switch", api, ["L%d" % lim, "M1", "S" + scn, "P0", "P1", "S" + other, "P2", "P0", "S" + scn, "P1", "P2"], docs)
                add("hist-switch", api, ["S" + other, "L%d" % lim, "M1", "P0", "S" + scn, "L%d" % (n2 - 1), "P1", "P2"], docs)
                # manager removed and installed again
                add("hist-remove", api, ["L%d" % (n1 - 1), "M1", "S" + scn, "P0", "M0", "P0", "P1", "M1", "P0", "L%d" % lim, "P0"], docs)
    for _ in range(400 if ctx.tier == "quick" else 6000):
        docs = [pick(rng.choice(needs)) for _ in range(rng.randrange(2, 5))]
        ops = []
        for _ in range(rng.randrange(4, 12)):
            r = rng.random()
            if r < 0.45:
                ops.append("P%d" % rng.randrange(len(docs)))
            elif r < 0.70:
                ops.append("L%d" % rng.choice([0, 1, 2, 3, 4, 5, 7, 8, 15, 50]))
            elif r < 0.85:
                ops.append("M%d" % (1 if rng.random() < 0.8 else 0))
            else:
                ops.append("S" + rng.choice(SCANNERS))
        if not ops[0].startswith("L"):
            ops.insert(0, "L%d" % rng.choice([1, 3, 8]))
        add("hist-seeded", rng.choice(("sax", "dom", "sax1")), ops, docs)
    return out


def hist_line(api, ops, docs):
    return "hist %s %s %s" % (api, ";".join(ops), " ".join("%s %s" % (s.doc["sys"], ser_doc(s.doc)) for s in docs))


def hist_spec_check(ops, docs, answer):
    """the property on a history: every parse is judged against the limit in force at ITS start with a count
    starting at zero -- evaluated from the ops alone (no model): returns [(what, detail)]"""
    bad = []
    if not answer.startswith("h="):
        return [("hist", "no answer: " + answer)]
    res = [] if answer == "h=-" else answer[2:].split(";")
    installed, mgr, scn = False, None, "IG"
    k = 0
    for op in ops:
        if op[0] == "L":
            mgr = int(op[1:])
        elif op[0] == "M":
            installed = op == "M1"
        elif op[0] == "S":
            scn = op[1:]
        elif op[0] == "P":
            s = docs[int(op[1:])]
            if k >= len(res):
                bad.append(("hist", "parse %d has no verdict" % k))
                break
            fatal, starts = res[k].rsplit(":", 1)
            lim = mgr if installed else None
            if scn in ("IG", "DG"):
                want = "Limit" if (lim is not None and s.needed > lim) else "none"
                if fatal != want:
                    bad.append(("limit-per-parse", "parse %d (%s, needs %d expansions, limit in force %s) gave %s, "
                                "expected %s" % (k, s.tag, s.needed, lim, fatal, want)))
                if lim is not None and int(starts) > lim:
                    bad.append(("limit-per-parse", "parse %d delivered %s expansions with limit %d" % (k, starts, lim)))
            elif fatal == "Limit":
                bad.append(("limit-per-parse", "parse %d on a scanner without entity pool reported the limit" % k))
            k += 1
    return bad


def limit_spec(a, s, ans, nolimit_ans):
    """Spec for the expansion budget on the self-contained entity-table documents (IG/DG scanners)"""
    bad = []
    lim = a[8]
    fatal = ans.get("fatal")
    if s.cyc:
        if fatal not in ("Recursive", "Limit"):
            bad.append(("recursion", "self-referential entity was not reported (fatal=%s)" % fatal))
        if fatal == "Limit" and lim is None:
            bad.append(("recursion", "limit error without a SecurityManager"))
        if int(ans.get("starts", "0")) > s.cyc + 2:
            bad.append(("recursion", "more than |entities|+1 nested expansions before the report"))
        return bad, False
    total = s.needed + s.dtd_side
    known = False
    if lim is not None:
        if total > lim and fatal != "Limit":
            if s.needed <= lim:
                known = True      # only the DTD-side references exceed the limit: known finding C19-F1
            else:
                bad.append(("limit", "needs %d expansions, limit %d, not rejected (fatal=%s)" % (total, lim, fatal)))
        if total <= lim and nolimit_ans is not None and \
                (ans.get("tr"), fatal, ans.get("starts")) != (nolimit_ans.get("tr"), nolimit_ans.get("fatal"),
                                                              nolimit_ans.get("starts")):
            bad.append(("limit", "document within the limit is affected by the SecurityManager"))
        if int(ans.get("starts", "0")) > lim:
            bad.append(("limit", "%s expansions delivered with limit %d" % (ans.get("starts"), lim)))
    return bad, known


def run(ctx):
    t0 = time.time()
    ctx.coverage["trusted_base"] = list(V.GLOBAL_TRUSTED_BASE) + [
        "modelled rather than verified: the abstract document lists its external references (the XML syntax that "
        "carries them is produced by the generator in checks/C19.py); file opens are observed with inotify IN_OPEN on "
        "the sandbox directories, network fetches only as the net accessor's connection failure to 127.0.0.1:9; "
        "libcurl, the OS; XInclude (C20) and schema redefine are not modelled; that no other code path opens a stream "
        "rests on the T-gate call-site inventory (translator/c19_gates.py) and on the canary exploration"]
    ctx.assumptions = ["fExitOnFirstFatal is left at its default (true): a fatal error ends the parse",
                       "namespaces are on in every parse (schema processing requires it)",
                       "nothing listens on 127.0.0.1:9 (an http fetch attempt fails immediately, no traffic leaves the host)"]
    ctx.build_lib()
    proof_broken = False
    gate_report = None
    try:
        import c19_gates
        gate_report = c19_gates.generate()
        import c19_opens
        open_report = c19_opens.generate()
        gate_report["open_entries"] = open_report["entries"]
        gate_report["open_occurrences"] = open_report["occurrences"]
        gate_report["files_read_for_opens"] = open_report["files_read"]
    except Exception as e:
        ctx.note("translator T-gate failed: %r" % (e,))
        ctx.violation("translator", {"what": "T-gate can no longer read the stream-opening call sites", "error": repr(e)},
                      no_input=True)
        return
    ok, out, failed = ctx.prove(["Base", "Gen", "C19"],
                                ["theories/C19/Properties_C19.vo", "theories/C19/Extract_C19.vo"],
                                props_file="theories/C19/Properties_C19.v")
    if not ok:
        proof_broken = True
        ctx.note("proof obligations failed: %s" % failed)
        try:      # say which stream-opening occurrence moved when the T-open obligation is the one that broke
            tbl = dict((k, int(n)) for k, n in re.findall(r'\("([^"]+)",\s*(\d+)\)',
                       open(os.path.join(V.COQ, "theories", "C19", "Opens19.v")).read().split("Definition open_table")[1].split("].")[0]))
            moved, gone = c19_opens.diff(tbl)
            if moved or gone:
                ctx.note("T-open: unclassified or changed stream-opening occurrences (key, committed, found): %s; vanished: %s"
                         % (moved[:12], gone[:12]))
        except Exception as e:
            ctx.note("T-open diff failed: %r" % (e,))
        ctx.note(out[-2500:])
    if not os.path.exists(os.path.join(V.VERIF, "ocaml", "C19", "gen_c19.ml")):
        ctx.violation("obligation", {"what": "model does not compile, nothing to extract", "output": out[-3000:]},
                      no_input=True)
        return
    xm = ctx.ocaml("C19", ["gen_c19"])
    xh = ctx.harness("C19")
    root = os.path.join(V.VERIF, "work", "C19", str(os.getpid()))
    shutil.rmtree(root, ignore_errors=True)
    os.makedirs(root)
    try:
        _correspond(ctx, xm, xh, root, proof_broken, failed if not ok else [], out, gate_report)
    finally:
        shutil.rmtree(root, ignore_errors=True)
    ctx.note("done in %.1fs" % (time.time() - t0))


def _correspond(ctx, xm, xh, root, proof_broken, failed, proof_out, gate_report):
    scs, lds, cases = build_cases(ctx, root)
    all_cases = cases
    if ctx.replay:
        r = json.load(open(ctx.replay))
        want = r.get("request")
        if want:
            want = want.replace("$R", root)
            hit = [c for c in cases if c[3] == want][:1] or cases[:1]
            # keep the companion run without limit (the "unaffected" clause compares with it)
            cases = hit + [c for c in cases if c[1][8] is None and c[2] is hit[0][2] and
                           (c[1][:8], c[1][9]) == (hit[0][1][:8], hit[0][1][9]) and c is not hit[0]][:1]
    serve = [l for s in scs for l in s.serve_lines()]
    # library switch for finding C19-F1: ask the library itself, with the witness (limit 2, six %p; references), whether
    # its DTD scanner counts expansions; the model is run with the same switch (c_countDtd) and the Spec stays the same
    wit = [c for c in all_cases if c[0] == "witness-F1"][:1]
    f1_fixed = False
    if wit:
        rcw, outw, _ = run_bin(xh, ["root " + root, wit[0][3]])
        f1_fixed = len(outw) == 2 and "fatal=Limit" in outw[1]
    ctx.coverage["library_switches"] = {"C19-F1 DTD scanner counts expansions (c_countDtd)": f1_fixed}
    serve.append("switch countdtd %d" % (1 if f1_fixed else 0))
    lines = ["root " + root] + serve + [c[3] for c in cases]
    t1 = time.time()
    rc1, impl, err1 = run_bin(xh, lines)
    t2 = time.time()
    rc2, model, err2 = run_bin(xm, lines)
    ctx.note("harness %.1fs, model %.1fs, %d requests" % (t2 - t1, time.time() - t2, len(lines)))
    if rc1 != 0 or len(impl) != len(lines):
        k = len(impl)
        ctx.violation("harness-crash", {"what": "implementation harness crashed or lost lines", "rc": rc1,
                                        "stderr": err1[-2000:], "answered": k, "asked": len(lines),
                                        "request": lines[k].replace(root, "$R") if k < len(lines) else None})
        return
    if rc2 != 0 or len(model) != len(lines):
        ctx.violation("model-crash", {"what": "model driver crashed", "stderr": err2[-2000:]}, no_input=True)
        return
    impl, model = [canon(x) for x in impl[1 + len(serve):]], [canon(x) for x in model[1 + len(serve):]]
    orc = Oracle(xm)
    kinds = {}
    divergences = []
    spec_fail = []
    known_hits = 0
    kf3_hits = 0
    nolimit = {}
    for (kind, a, s, line), i in zip(cases, impl):
        if a[8] is None:
            nolimit[(a[:8], a[9], s.tag)] = parse_answer(i)
    fatals = {}
    for (kind, a, s, line), i, m in zip(cases, impl, model):
        ctx.count()
        kinds[kind] = kinds.get(kind, 0) + 1
        ans = parse_answer(i)
        fatals[ans.get("fatal", "?").split(":")[0]] = fatals.get(ans.get("fatal", "?").split(":")[0], 0) + 1
        if len(ans["events"]) > 1 or ans.get("fatal") != "none":
            ctx.distinct(line.replace(root, "$R"))
        rline = line.replace(root, "$R")
        if i != m:
            divergences.append((kind, rline, i.replace(root, "$R"), m.replace(root, "$R"), a, s, ans))
        # Spec oracle on EVERY case (agreeing or not), so that a defect shared by model and code cannot hide
        bad = spec_check(orc, a, s, ans)
        if any(b[0] == "KF3" for b in bad):
            kf3_hits += 1
            bad = [b for b in bad if b[0] != "KF3"]
        known = False
        if hasattr(s, "needed") and a[1] in ("IG", "DG"):
            b2, known = limit_spec(a, s, ans, nolimit.get((a[:8], a[9], s.tag)))
            bad += b2
        if known:
            known_hits += 1
        if bad:
            spec_fail.append((kind, rline, i.replace(root, "$R"), m.replace(root, "$R"), bad, i == m))
    ctx.coverage["traces_validated_against_impl"] = len(cases)
    ctx.coverage["input_distribution"] = dict(kinds, fatal_classes=fatals)
    ctx.coverage["spec_oracle_checked"] = len(cases)
    ctx.coverage["gate_inventory"] = gate_report
    for k in sorted({min(1, len(cases) - 1), len(cases) // 3, len(cases) // 2, len(cases) - 1}):
        ctx.sample({"kind": cases[k][0], "request": cases[k][3].replace(root, "$R")[:400],
                    "impl": impl[k].replace(root, "$R")[:600], "model": model[k].replace(root, "$R")[:600]})
    # --- URI resolution: real XMLURL / XMLUri / LocalFileInputSource vs model, RFC 2396 as oracle -----------
    ucases = uri_cases(ctx)
    if ctx.replay:
        rq = json.load(open(ctx.replay)).get("request") or ""
        if rq.startswith("uri "):
            f = rq.split()
            ucases = [(f[1], f[2], f[3])]
        else:
            ucases = ucases[:50]
    ulines = ["uri %s %s %s" % (op, b, r or "-") for op, b, r in ucases]
    rcu1, uimpl, uerr1 = run_bin(xh, ulines)
    rcu2, umodel, uerr2 = run_bin(xm, ulines)
    rcu3, urfc, _ = run_bin(xm, ["uri rfc %s %s" % (b, r or "-") for op, b, r in ucases])
    if rcu1 != 0 or len(uimpl) != len(ulines):
        k = len(uimpl)
        ctx.violation("harness-crash", {"what": "harness crashed on a URI request", "rc": rcu1, "stderr": uerr1[-1500:],
                                        "request": ulines[k] if k < len(ulines) else None})
        return
    kf2 = 0
    udiv = 0
    for (op, b, r), line, i, m, want in zip(ucases, ulines, uimpl, umodel, urfc):
        ctx.count()
        kinds["uri-" + op] = kinds.get("uri-" + op, 0) + 1
        if i != "NONE":
            ctx.distinct(line)
        agree = i == m
        if not agree:
            udiv += 1
        if op == "xmlurl" and b in AUTH_BASES and i not in ("NONE",) and not re.match(r"^([A-Za-z][A-Za-z0-9+.-]*:|//)", r) \
                and "\\" not in i:
            # Spec (RFC 2396 5.2 step 4): a reference without scheme/authority inherits scheme and authority of the base
            if url_authority(i) != url_authority(want) or url_authority(want) != url_authority(b):
                spec_fail.append(("uri", line, i, m, [("authority", "resolved to %s: authority differs from the base's %s"
                                                       % (i, url_authority(b)))], agree))
        if op not in ("localfile", "xmlurl", "xmluri"):
            if not agree:
                divergences.append(("uri", line, i, m, None, None, None))
                spec_fail.append(("uri", line, i, m, [("uri-model", "default-source decision differs from the model")], False))
            continue
        hier = b.startswith("/") if op == "localfile" else "://" in b
        plain = hier and r != "-" and is_plain_rel(r, base_depth(b))
        if plain and i != want:
            spec_fail.append(("uri", line, i, m, [("rfc2396", "plain relative reference resolves to %s, RFC 2396 gives %s"
                                                   % (i, want))], agree))
        elif not agree:
            divergences.append(("uri", line, i, m, None, None, None))
            if hier and i != want:
                spec_fail.append(("uri", line, i, m, [("rfc2396", "result %s differs from the model and from RFC 2396 %s"
                                                       % (i, want))], False))
        elif hier and i != want and line.split()[3] in RFC_C + ["a//../b"]:
            kf2 += 1          # abnormal reference, deviation mirrored by the model: known finding C19-F2
    ctx.coverage["uri_requests"] = len(ulines)
    ctx.coverage["input_distribution"] = dict(kinds, fatal_classes=fatals)
    ctx.note("uri: %d requests, %d divergences, %d RFC deviations on Appendix C references" % (len(ulines), udiv, kf2))
    if kf2:
        if ctx.find_known(KF2_ID):
            ctx.known_finding(KF2_ID, KF2_TEXT + " (%d Appendix-C requests deviate, model mirrors each)" % kf2)
        else:
            ctx.violation(KF2_ID, {"request": "uri xmlurl http://a/b/c/d;p?q .", "what": KF2_TEXT})
    # --- histories on one parser object: the limit is per parse ----------------------------------------------
    hcases = hist_cases(ctx, lds)
    hlines = [hist_line(api, ops, docs) for kind, api, ops, docs in hcases]
    if ctx.replay:
        rq = (json.load(open(ctx.replay)).get("request") or "").replace("$R", root)
        keep = [k for k, l in enumerate(hlines) if l == rq]
        hcases = [hcases[k] for k in keep[:1]]
        hlines = [hlines[k] for k in keep[:1]]
    if hlines:
        sw = "switch countdtd %d" % (1 if f1_fixed else 0)
        rch, himpl, herr = run_bin(xh, ["root " + root, sw] + hlines)
        rcm, hmodel, _ = run_bin(xm, ["root " + root, sw] + hlines)
        himpl, hmodel = himpl[1:], hmodel[1:]
        if rch != 0 or len(himpl) != len(hlines) + 1:
            k = max(len(himpl) - 1, 0)
            ctx.violation("harness-crash", {"what": "harness crashed on a history", "rc": rch, "stderr": herr[-1500:],
                                            "request": hlines[k].replace(root, "$R") if k < len(hlines) else None})
            return
        hdiv = hbad = 0
        nparse = 0
        for (kind, api, ops, docs), line, i, m in zip(hcases, hlines, himpl[1:], hmodel[1:]):
            ctx.count()
            kinds[kind] = kinds.get(kind, 0) + 1
            nparse += sum(1 for o in ops if o[0] == "P")
            if "Limit" in i:
                ctx.distinct(line.replace(root, "$R"))
            rline = line.replace(root, "$R")
            bad = hist_spec_check(ops, docs, i)
            if i != m:
                hdiv += 1
                divergences.append((kind, rline, i, m, None, None, None))
            if bad:
                hbad += 1
                spec_fail.append((kind, rline, i, m, bad, i == m))
        ctx.coverage["history_requests"] = len(hlines)
        ctx.coverage["history_parses"] = nparse
        ctx.coverage["input_distribution"] = dict(kinds, fatal_classes=fatals)
        ctx.note("histories: %d (%d parses), %d divergences, %d spec failures" % (len(hlines), nparse, hdiv, hbad))
    # --- decide -------------------------------------------------------------------------------
    reported = 0
    for kind, rline, i, m, bad, agree in spec_fail:
        reported += 1
        if reported <= 5:
            ctx.violation("divergence" if not agree else "spec", {
                "request": rline, "impl": i, "model": m, "spec": [list(b) for b in bad], "kind": kind,
                "what": ("implementation differs from the model and violates the Spec" if not agree else
                         "implementation and model agree but violate the Spec (defect mirrored by the model, not listed)")})
    unexplained = [d for d in divergences if not any(d[1] == f[1] for f in spec_fail)]
    if unexplained and not spec_fail:
        kind, rline, i, m, a, s, ans = unexplained[0]
        ctx.violation("correspondence", {"what": "model and implementation differ but the Spec oracle found no failing "
                                         "input: correspondence xh_C19~xm_C19 no longer checks", "request": rline,
                                         "impl": i, "model": m, "count": len(unexplained)}, no_input=True)
    if known_hits:
        if ctx.find_known(KF_ID):
            ctx.known_finding(KF_ID, KF_TEXT + " (witness: limit 2, six %%p; references in the internal subset, "
                              "accepted; %d cases of this class, all within the predicate needed<=L<needed+dtd_side)"
                              % known_hits)
        else:
            w = [c for c in cases if c[0] == "witness-F1"][0]
            ctx.violation("C19-F1", {"request": w[3].replace(root, "$R"), "impl": impl[0].replace(root, "$R"),
                                  "what": KF_TEXT})
    if kf3_hits:
        if ctx.find_known(KF3_ID):
            ctx.known_finding(KF3_ID, KF3_TEXT + " (%d parses of scenario s16 open the Latin-1 decoy)" % kf3_hits)
        else:
            ctx.violation(KF3_ID, {"what": KF3_TEXT, "request": [c[3].replace(root, "$R") for c in cases
                                                                if c[2].tag == "s16"][0]})
    if proof_broken and not ctx.violations:
        ctx.violation("obligation", {"what": "Coq obligation no longer checks and no failing input was found by the "
                                     "correspondence sweeps", "failed": failed, "output": proof_out[-3000:]}, no_input=True)
    elif proof_broken:
        ctx.note("proof obligation failed; a concrete failing input was found by the correspondence")
    ctx.coverage["rule"] = (
        "exhaustive: every combination of {SAX2,DOM} x scanner(4) x validation scheme(3) x doSchema x loadSchema x "
        "loadExternalDTD x disableDefaultEntityResolution x resolver{none,null,MemBufInputSource for everything,MemBufInputSource for top-level references only} on 16 reference documents "
        "(external subset, external GE/PE, nested relative references in sub-directories, absolute paths, file: and http: "
        "URLs, schemaLocation/noNamespaceSchemaLocation, include/import loops, references in attribute values/defaults, "
        "missing files, dot segments, file: URL identifiers with %25hh/%20/%23/%3F/%2B/UTF-8 escapes and plain-path "
        "identifiers with blanks/#/?/+/literal %hh/non-ASCII names next to decoy files carrying the double-unescaped and "
        "not-unescaped names) + standard-URI-conformant sweep + entity tables needing N expansions with limits "
        "N-1,N,N+1 (flat, chain, tree, attribute values, DTD side) + recursion cycles of every length 1..6 (content, "
        "attribute value, attribute default, parameter entities, through an external entity) + histories of 2-11 "
        "operations on ONE parser object (SAX2/DOM/SAXParser x 4 scanners: prefix sums crossing the limit, limit lowered / "
        "raised between parses, manager installed before/after useScanner, scanner switches, manager removed) + seeded random "
        "configurations; a case is non-trivial when anything besides the document is touched/offered or a fatal error "
        "occurs; distinct by request text")
    ctx.coverage["exhaustive"] = True
    ctx.note("correspondence: %d cases, %d divergences, %d spec failures, %d known-finding hits" % (
        len(cases), len(divergences), len(spec_fail), known_hits))
