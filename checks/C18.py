"""C18 -- MemoryManager discipline and Initialize/Terminate lifecycle are leak-free.

Theorems: coq/theories/C18/Properties_C18.v
  * T18_monitor_sound_complete: the extracted ledger monitor answers Ok exactly on disciplined traces
  * T18_xmemory*, T18_arena*, T18_initterm*: header mechanism, DOM arena, lifecycle state machine (models)
Tie: translator/c18_init.py regenerates Gen/GenC18DomHeap.v and Gen/GenC18Init.v from /repo on every run.
Correspondence = monitored exploration: bin/xh_C18 runs the real library with instrumented MemoryManagers and
prints every allocate/deallocate; the stream is piped through bin/xm_C18 where the *extracted* monitor judges the
events of every case; the model predictions (header size/offset, arena block requests and offsets, lifecycle
state) are compared line by line with what the implementation did.

Claim: PARTIAL.  Proved: monitor, header mechanism, DOM arena, lifecycle state machine.  The universal claim over the
whole parser (every document, every ending) rests on the monitored exploration, not on a proof."""
import json
import os
import subprocess
import sys
import time
from concurrent.futures import ThreadPoolExecutor

import vcommon as V

sys.path.insert(0, os.path.join(V.VERIF, "translator"))
sys.path.insert(0, os.path.join(V.VERIF, "gen"))
import C18_docs as G  # noqa
import c18_init as TI  # noqa
import c18_janitor as TJ  # noqa

APIS = ["sax2", "sax", "dom", "ls"]
NESTED_DECL = b"<!ELEMENT r (h?, (a | b)*, c?)>"


def hexs(b):
    return b.hex() if b else "-"


def case_line(cid, d, kv):
    ext = ",".join("%s:%s" % (k, v.hex()) for k, v in sorted(d["ext"].items()))
    line = "case %s " % cid + " ".join("%s=%s" % (k, v) for k, v in sorted(kv.items())) + " doc=" + hexs(d["doc"])
    if ext:
        line += " ext=" + ext
    return line


def gen_sweep(ctx, ndocs):
    """request lines of the main sweep (without init/term); returns list of (case-id, kind, line)"""
    rng = ctx.rng
    docs = G.pool(rng, ndocs)
    out = []
    for i, d in enumerate(docs):
        api = APIS[(i + i // 12) % 4] if rng.random() < 0.8 else rng.choice(APIS)    # every kind meets every API
        scn = rng.choice(["IG", "IG", "IG", "WF", "DG", "SG"])
        kv = dict(d["cfg"])
        if scn == "WF":
            kv["val"] = 0
        kv.update(api=api, scn=scn, pool=rng.choice([0, 0, 1]), exc=rng.randrange(4),
                  mode=rng.choice(["fresh", "fresh", "reuse"]), filter=rng.randrange(4) if api == "ls" else 0)
        # known finding C18-DG-GRAMMAR-DOUBLE-OWNED: DGXMLScanner + caching grammar pool + external DTD subset + reuse of
        # the parser after a parse that ended before the DOCTYPE.  Exactly that class is kept out of the sweep (no pool).
        dg_ext = scn == "DG" and b"<!DOCTYPE" in d["doc"] and b"SYSTEM" in d["doc"]
        if dg_ext:
            kv["pool"] = 0
        # known finding C18-DTD-CONTENTSPEC-LEAK: a syntax error inside a NESTED content-model group + an exception thrown by
        # the error handler.  The only declaration with a nested group the generator writes is NESTED_DECL; documents in which
        # it is damaged get no handler-exception endings (natural and progressive endings are still explored).
        dtd_text = d["doc"] + b"".join(d["ext"].values())
        cs_class = b"<!ELEMENT" in dtd_text and NESTED_DECL not in dtd_text
        if cs_class:
            kv["thr"] = 0
        cid = "c%d-%s" % (i, d["kind"])
        if rng.random() < 0.35:      # InputSource kind / forced encoding / ids also vary on the ordinary documents
            kv["src"] = rng.choice(G.SRC_KINDS[api])
            kv["tmp"] = os.path.join(V.BUILD, "c18-work", "tmp-%s.xml" % cid)
            if rng.random() < 0.5:
                kv["enc"] = rng.choice(G.ENCODINGS[1:])
        out.append((cid, d["kind"] + "/" + api, case_line(cid, d, kv)))
        # object lifetimes of DOM documents and grammar pools on a part of the pool
        if i % 3 == 0:
            life = "".join(rng.choice("PPAARXDNC" if cs_class else "PPAARXDNTC") for _ in range(rng.randrange(2, 9)))
            kv2 = dict(d["cfg"]); kv2.update(scn=scn if scn != "WF" else "IG", pool=0 if dg_ext else rng.choice([0, 1]), life="P" + life)
            cid2 = "l%d-%s" % (i, d["kind"])
            out.append((cid2, "domlife", case_line(cid2, d, kv2).replace("case ", "domlife ", 1)))
        if i % 3 == 1:
            # other objects taking a manager: serializer, XPath, regex, URIs, transcoding, XSValue, Base64, XSModel, DOM editing.
            # XPath expressions of the sweep all start with '/' (the other class is known finding C18-XPATH-EXPR-MANAGER,
            # replayed by its own witness)
            xp = [b"//a", b"/r/a", b"//a[@x='1']", b"/r/@*", b"//*", b"/", b"/r/a/@kind", b"//a | //b", b"/root/item/name", b"//x:e"]
            other = [b"a+b*", b"[a-z", b"(a|b)*abb", b"\\p{L}+\\d{2,3}", b"2001-01-01T10:00:00", b"12.50", b"-INF", b"../x/y?z#f",
                     b"http://[bad", b"aGVsbG8=", b"not base64!", b"P1Y2M", b"x:y", b"", b"caf\xc3\xa9", b"a{2,1}", b"(", b"%zz"]
            ops = "".join(rng.choice("SXRUTVBNG") for _ in range(rng.randrange(3, 10)))
            strs = [(rng.choice(xp) if c == "X" else rng.choice(other)) or b"." for c in ops]
            kv4 = dict(d["cfg"]); kv4.update(scn="IG", ops=ops, strs=",".join(x.hex() for x in strs))
            cid4 = "m%d-%s" % (i, d["kind"])
            out.append((cid4, "misc", case_line(cid4, d, kv4).replace("case ", "misc ", 1)))
        if i % 4 == 1 and d["ext"]:
            life = "".join(rng.choice("LPPDNKUZ" if cs_class else "LPPTDNKUZ") for _ in range(rng.randrange(2, 9)))
            kv3 = dict(d["cfg"]); kv3.update(api=rng.choice(["sax2", "sax", "dom"]), scn="IG", life="L" + life)
            cid3 = "p%d-%s" % (i, d["kind"])
            out.append((cid3, "poollife", case_line(cid3, d, kv3).replace("case ", "poollife ", 1)))
    return out


def gen_round2(ctx, thorough):
    """systematic additions: (a) DOCTYPE x schema x features x scanner cross product, (b) failing external resources at every
    nesting level, (c) InputSource kinds x forced encodings, (d) exhaustive DOM parser lifetime histories.
    returns list of (case-id, kind, line)"""
    import itertools
    rng = ctx.rng
    work = os.path.join(V.BUILD, "c18-work")
    os.makedirs(work, exist_ok=True)
    out = []

    def add(cid, kind, d, kv, op="case"):
        dd = dict(doc=d["doc"], ext=d.get("ext", {}))
        kv = dict(kv)
        if d.get("extenc"):
            kv["extenc"] = ",".join("%s:%s" % (k, v) for k, v in sorted(d["extenc"].items()))
        line = case_line(cid, dd, kv)
        if op != "case":
            line = line.replace("case ", op + " ", 1)
        out.append((cid, kind, line))

    # (a) cross product; every parser parses the document twice (base + again) before it is destroyed
    for i, c in enumerate(G.combo_cases()):
        apis = APIS if thorough else [APIS[(i + i // 4) % 4]]
        for api in apis:
            kv = dict(c["kv"])
            full = (i % 8 == 3)
            kv.update(api=api, exc=i % 4, pool=1 if i % 5 == 0 and not (c["kv"]["scn"] == "DG") else 0,
                      mode="reuse" if i % 2 else "fresh", thr=1 if full else 0, prog=1 if full else 0)
            if api == "ls":
                kv["preload"] = 0
            add("x%d%s-%s" % (i, api, c["tag"]), "combo/" + api, c, kv)
    # (b) failing external resources: every ending on one API (all four in thorough), natural endings on another
    for i, c in enumerate(G.extfail_cases()):
        for j, api in enumerate(APIS):
            full = thorough or j == i % 4
            if not full and j != (i + 1) % 4:
                continue
            kv = dict(c["kv"])
            kv.update(api=api, scn=["IG", "DG", "SG", "IG"][i % 4] if c["kv"].get("sch") else ["IG", "DG", "WF", "IG"][i % 4],
                      exc=i % 4, mode="fresh" if i % 3 else "reuse", thr=1 if full else 0, prog=1 if full else 0)
            if kv["scn"] == "WF":
                kv["val"] = 0
            add("e%d%s-%s" % (i, api, c["tag"]), "extfail/" + api, c, kv)
    # (c) InputSource kinds x forced encodings
    n = 0
    for di, doc in enumerate(G.SRC_DOCS):
        for api in APIS:
            for src in G.SRC_KINDS[api]:
                for enc in G.ENCODINGS:
                    if di > 0 and not thorough and rng.random() > 0.12:
                        continue
                    unsupported = enc.startswith("x-no-such")
                    kv = dict(api=api, scn=["IG", "WF", "DG", "SG"][n % 4], ns=n % 2, val=0, src=src, exc=n % 4,
                              thr=1 if unsupported or n % 7 == 0 else 0, prog=1 if unsupported or n % 7 == 0 else 0,
                              mode="reuse" if n % 3 == 0 else "fresh", pub="-//V//C18//EN" if n % 2 else "", sys="dir/doc%d.xml" % (n % 3))
                    if enc:
                        kv["enc"] = enc
                    if not kv["pub"]:
                        del kv["pub"]
                    cid = "s%d%s-%s-%s" % (n, api, src, enc or "noenc")
                    kv["tmp"] = os.path.join(work, "tmp-%s.xml" % cid)
                    add(cid, "source/" + src, dict(doc=doc), kv)
                    n += 1
    # (d) lifetime histories of XercesDOMParser / DOMLSParser
    hdoc = dict(doc=b'<?xml version="1.0"?><!DOCTYPE r SYSTEM "e.dtd"><r><a>t</a><a>u</a></r>',
                ext={"e.dtd": b"<!ELEMENT r (a*)><!ELEMENT a (#PCDATA)>"})
    hdoc2 = dict(doc=b'<r xmlns="urn:d"><a x="1">t</a><b/><nope></r>', ext={})
    n = 0

    def hist(api, h, d):
        nonlocal n
        kv = dict(api=api, hist=h, end=n % 2, val=1 if d is hdoc else 0, ns=n % 2, pool=1 if n % 11 == 0 else 0, scn="IG")
        add("h%d%s-%s" % (n, api, h), "domhist/" + api, d, kv, op="domhist")
        n += 1
    for L in range(1, 6):
        for h in itertools.product("PAXR", repeat=L):
            hist("dom", "".join(h), hdoc)
            if L <= 4:
                hist("ls", "".join(h), hdoc)
    if thorough:
        for L in range(1, 5):
            for h in itertools.product("PAXRFGSE", repeat=L):
                hist("dom", "".join(h), hdoc2 if n % 3 == 0 else hdoc)
    for _ in range(3000 if thorough else 300):
        api = rng.choice(["dom", "dom", "ls"])
        h = "".join(rng.choice("PPAAXRFGSE" if api == "dom" else "PPAAXRE") for _ in range(rng.randrange(3, 10)))
        hist(api, h, hdoc2 if rng.random() < 0.3 else hdoc)
    return out


def open_content_model(d):
    """predicate of known finding C18-DTD-CONTENTSPEC-EOE-LEAK: some entity text (a PE literal of the document, an external entity /
    DTD, or a piece of the internal subset between PE references) contains an <!ELEMENT declaration whose content model is not
    closed inside that same text, so the entity can end (or an error can be raised from a nested reader) while
    DTDScanner::scanChildren holds a partially built ContentSpecNode tree"""
    import re
    texts = [v.decode("latin-1") for v in d.get("ext", {}).values()]
    doc = d["doc"].decode("latin-1")
    texts += re.findall(r'<!ENTITY\s+%\s+\S+\s+"([^"]*)"', doc) + re.findall(r"<!ENTITY\s+%\s+\S+\s+'([^']*)'", doc)
    m = re.search(r"<!DOCTYPE[^\[>]*\[(.*)\]\s*>", doc, re.S)
    if m:
        texts.append(re.sub(r'"[^"]*"|\'[^\']*\'', "Q", m.group(1)))      # the internal subset without its literals
    elif "<!DOCTYPE" in doc and "[" in doc:
        texts.append(re.sub(r'"[^"]*"|\'[^\']*\'', "Q", doc[doc.index("["):]))
    for t in texts:
        t = t.replace("&#37;", "%").replace("&#34;", '"')
        for mm in re.finditer(r"<!ELEMENT\s+\S+\s*", t):
            rest = t[mm.end():]
            if not rest.startswith("(") and not rest.startswith("%"):
                continue
            depth = 0
            closed = False
            for ch in rest:
                if ch == "(":
                    depth += 1
                elif ch == ")":
                    depth -= 1
                    if depth <= 0:
                        closed = True
                        break
                elif ch in "<>[]" or (ch == "%" and depth > 0):
                    break                       # another construct (or a PE reference inside the group) before the group is closed
            if not closed:
                return True
    return False


def mixed_star_class(d):
    """predicate of finding C18-DTD-MIXED-HANDLER-LEAK: some entity text (PE literal, external entity / DTD, internal subset between
    its literals) has an <!ELEMENT declaration with a MIXED content model with children, `(#PCDATA | name ...)`, whose closing
    parenthesis is not followed by `*` in that same text (the text ends there, a PE reference follows, or the star is simply
    missing), or that has a `*` inside the group: DTDScanner::scanMixed then reports ExpectedAsterisk / NoRepInMixed while it
    holds the nodes built so far in a raw pointer.  With setExitOnFirstFatalError(false) the error does not throw by itself, and an
    exception thrown by the application's error handler at that callback leaves the nodes behind."""
    import re
    texts = [v.decode("latin-1") for v in d.get("ext", {}).values()]
    doc = d["doc"].decode("latin-1")
    texts += re.findall(r'<!ENTITY\s+%\s+\S+\s+"([^"]*)"', doc) + re.findall(r"<!ENTITY\s+%\s+\S+\s+'([^']*)'", doc)
    m = re.search(r"<!DOCTYPE[^\[>]*\[(.*)\]\s*>", doc, re.S)
    if m:
        texts.append(re.sub(r'"[^"]*"|\'[^\']*\'', "Q", m.group(1)))
    elif "<!DOCTYPE" in doc and "[" in doc:
        texts.append(re.sub(r'"[^"]*"|\'[^\']*\'', "Q", doc[doc.index("["):]))
    for t in texts:
        t = t.replace("&#37;", "%").replace("&#34;", '"')
        for mm in re.finditer(r"<!ELEMENT\s+\S+\s*\(\s*#PCDATA", t):
            rest = t[mm.end():]
            close = rest.find(")")
            if close < 0:
                continue                      # the group is open at the end of the text: class of C18-DTD-CONTENTSPEC-EOE-LEAK
            inner = rest[:close]
            if "*" in inner:
                return True                   # NoRepInMixed
            if "|" in inner and not rest[close + 1:close + 2] == "*":
                return True                   # ExpectedAsterisk
    return False


def gen_round3(ctx, thorough):
    """(a) error recovery of the reader stack in DTDs x exitOnFirstFatalError x DTD-reading scanners x APIs, (b) DOM heap growth
    paths x document lifetimes, (c) grammar ownership cross product.  returns list of (case-id, kind, line)"""
    rng = ctx.rng
    out = []

    def add(cid, kind, d, kv, op="case"):
        line = case_line(cid, dict(doc=d["doc"], ext=d.get("ext", {})), kv)
        if op != "case":
            line = line.replace("case ", op + " ", 1)
        out.append((cid, kind, line))
    # (a)
    n = 0
    skipped = 0
    mixed_skipped = [0]
    for i, d in enumerate(G.pe_recovery_docs(rng, 400 if thorough else 40)):
        if ctx.find_known("C18-DTD-CONTENTSPEC-EOE-LEAK") and open_content_model(d):
            skipped += 1          # replayed by the literal witness of the known finding instead
            continue
        for xff in (1, 0):
            for scn in ("IG", "DG"):
                for api in (APIS if thorough else [APIS[n % 4]]):
                    kv = dict(api=api, scn=scn, xff=xff, val=n % 3, ns=(n // 3) % 2, exc=n % 4, mode="reuse" if n % 2 else "fresh",
                              thr=1, prog=1 if (thorough or n % 3 == 0) else 0, pool=1 if n % 7 == 0 and scn != "DG" else 0)
                    # class of finding C18-DTD-MIXED-HANDLER-LEAK (see mixed_star_class): while it is listed as known, these documents
                    # get no handler-exception endings under setExitOnFirstFatalError(false); natural and progressive endings stay
                    if xff == 0 and ctx.find_known("C18-DTD-MIXED-HANDLER-LEAK") and mixed_star_class(d):
                        kv["thr"] = 0
                        mixed_skipped[0] += 1
                    add("r%d%s-%s-x%d%s" % (n, api, d["tag"], xff, scn), "pe-recovery/" + api, d, kv)
                    n += 1
    # (b)
    hists = ["P", "PA", "PAR", "PP", "PAP", "PXP", "PARP", "PPA", "EP", "PAXP"]
    n = 0
    for i, d in enumerate(G.domheap_docs()):
        for api in ("dom", "ls"):
            for h in (hists if thorough else [hists[(n + k) % len(hists)] for k in range(3)]):
                kv = dict(api=api, hist=h, end=n % 2, ents=0 if n % 5 else 1, val=n % 2, ns=n % 2, scn=["IG", "DG", "WF"][n % 3] if n % 2 == 0 else "IG")
                if kv["scn"] == "WF":
                    kv["val"] = 0
                add("g%d%s-%s-%s" % (n, api, d["tag"], h), "domheap/" + api, d, kv, op="domhist")
                n += 1
    # (c)
    n = 0
    for i, c in enumerate(G.gramown_cases()):
        scns = ("IG", "SG") if c["kv"]["sch"] and "dtd" not in c["tag"].split("-")[0] else ("IG", "DG")
        for scn in scns:
            for mode in ("reuse", "fresh"):
                for api in (APIS if thorough else [APIS[n % 4]]):
                    kv = dict(c["kv"])
                    kv.update(api=api, scn=scn, mode=mode, val=1 if n % 3 else 2, exc=n % 4, thr=1, prog=1 if thorough else 0,
                              kmax=0 if thorough or not c["kv"]["sch"] else 8)
                    # class of known finding C18-DG-GRAMMAR-DOUBLE-OWNED (see its identified_by): no handler-exception endings there
                    if (ctx.find_known("C18-DG-GRAMMAR-DOUBLE-OWNED") and scn == "DG" and kv["cache"] == 1 and not kv["lock"]
                            and b"SYSTEM" in c["doc"] and mode == "reuse"):
                        kv["thr"] = 0
                    add("o%d%s-%s-%s-%s" % (n, api, c["tag"], scn, mode), "gramown/" + api, c, kv)
                    n += 1
    return out


def model_cases(ctx, dflt, nx, na):
    """XMemory and arena request pairs: returns (model requests, harness requests) as lists of (id, line, info)"""
    rng = ctx.rng
    mreq, hreq = [], []
    sizes = [0, 1, 7, 8, 9, 15, 16, 17, 24, 100, 255, 256, 4096, 100000]
    for i in range(nx):
        ops = []
        nobj = 0
        for _ in range(rng.randrange(1, 14)):
            r = rng.random()
            if r < 0.45 or nobj == 0:
                ops.append("n%d.%d" % (rng.randrange(2, 6), rng.choice(sizes))); nobj += 1
            elif r < 0.6:
                ops.append("N%d" % rng.choice(sizes)); nobj += 1
            elif r < 0.9:
                ops.append("d%d" % rng.randrange(nobj))
            else:
                ops.append("D%d.%d" % (rng.randrange(nobj), rng.randrange(2, 6)))
        cid = "x%d" % i
        o = ",".join(ops)
        mreq.append((cid, "mxmem %s glob=1 ops=%s" % (cid, o), None))
        hreq.append((cid, "xmem %s ops=%s" % (cid, o), {"kind": "xmem"}))
    ini, mx, sub = dflt
    hdr = 8
    for i in range(na):
        ops = []
        setblock_class = False
        if i == 0:      # the literal witness of C18-ARENA-SETBLOCK is replayed first
            ops = ["s%d" % (sub + 1), "a%d" % sub]
            setblock_class = True
            cid = "a0"
            o = ",".join(ops)
            mreq.append((cid, "marena %s fx=0 cfg=%d,%d,%d ops=%s\nmarena %s fx=1 cfg=%d,%d,%d ops=%s" % (cid, ini, mx, sub, o, cid, ini, mx, sub, o), None))
            hreq.append((cid, "arena %s ops=%s" % (cid, o), {"kind": "arena", "ops": ops, "setblock_class": True}))
            continue
        for _ in range(rng.randrange(1, 25)):
            r = rng.random()
            if r < 0.08:
                sz = rng.choice([0, sub, sub + hdr, sub + hdr + 1, 1024, 4096, ini, 3 * ini, mx, 2 * mx])
                if i % 10 == 0 and rng.random() < 0.5:
                    sz = rng.randrange(sub + 1, sub + hdr)           # the defect class, only in every 10th case
                    setblock_class = True
                ops.append("s%d" % sz)
            elif r < 0.5:
                ops.append("a%d" % rng.choice([0, 1, 7, 8, 9, 24, 40, 100, sub - 9, sub - 8, sub - 7, sub - 1, sub]))
            elif r < 0.7:
                ops.append("a%d" % rng.choice([sub + 1, sub + 7, sub + 8, sub + 9, 1000, ini - hdr, ini, ini + 1, 5 * ini]))
            else:
                ops.append("a%d" % rng.randrange(1, sub + 1))
        if i % 7 == 3:     # fill blocks completely so that growth (doubling up to the maximum) is exercised
            ops += ["a%d" % sub] * rng.randrange(60, 200)
        cid = "a%d" % i
        o = ",".join(ops)
        mreq.append((cid, "marena %s fx=0 cfg=%d,%d,%d ops=%s\nmarena %s fx=1 cfg=%d,%d,%d ops=%s" % (cid, ini, mx, sub, o, cid, ini, mx, sub, o), None))
        hreq.append((cid, "arena %s ops=%s" % (cid, o), {"kind": "arena", "ops": ops, "setblock_class": setblock_class}))
    return mreq, hreq


def arena_spec(answer, info):
    """Spec oracle on an arena answer line (ops ...): every region inside its block, aligned, pairwise disjoint.
    returns None or a description of the violation"""
    toks = answer.split()[1:]
    amounts = [int(o[1:]) for o in info["ops"] if o[0] == "a"]
    regs = []
    k = 0
    for t in toks:
        if t == "s":
            continue
        if t == "z":
            k += 1
            continue
        parts = t.split(":")
        out = parts[-1] == "OUT"
        if out:
            parts = parts[:-1]
        loc = parts[-1]
        idx, off = loc.split("+")
        amt = (amounts[k] + 7) // 8 * 8 if k < len(amounts) else 0
        k += 1
        if out:
            return "region %s of %d bytes is not inside a block owned by the document" % (loc, amt)
        if int(off) % 8:
            return "region %s is not aligned" % loc
        regs.append((int(idx), int(off), amt))
    regs.sort()
    for (i1, o1, a1), (i2, o2, a2) in zip(regs, regs[1:]):
        if i1 == i2 and o1 + a1 > o2 and a1 > 0 and a2 > 0:
            return "regions %d+%d(%d) and %d+%d(%d) overlap" % (i1, o1, a1, i2, o2, a2)
    return None


def xmem_spec(answer):
    """Spec oracle on an xmem answer: i-th delete reaches the manager of the i-th new; payload offset >= pointer size"""
    toks = answer.split()
    news = [t for t in toks if t.startswith("m")]
    for t in news:
        off = int(t.split("+")[1])
        if off < 8 or off % 8:
            return "payload offset %d does not leave room for the manager pointer / is misaligned" % off
    return None


def lifecycle(ctx, xh, xm, dflt, nseq):
    """random Initialize/Terminate sequences with/without custom global managers and DOM heap arguments; the model
    predicts (live, manager) after every call; the monitor judges every user manager at each return to count 0;
    a reference document must parse identically in every (re-)initialised state"""
    rng = ctx.rng
    refdoc = (b'<?xml version="1.0"?><!DOCTYPE r [<!ELEMENT r (a*)><!ELEMENT a (#PCDATA)><!ATTLIST a x CDATA "d">'
              b'<!ENTITY e "ent">]><r><a x="1">t&e;</a><a>u</a><!-- c --><?pi d?></r>')
    sticky_seen = 0
    digests = set()
    # an op is I<user>[:initial.max.maxSub]~LNP (L: a locale the loader keeps, N: nlsHome non-null, P: application panic handler) or T.
    # EVERY argument of both Initialize overloads varies, and every re-initialisation at count 0 uses another manager than the last.
    seqs = [["I4~100", "T"], ["I0~100", "I4~111", "T", "T", "T"], ["I4~110", "T", "I5~011", "T", "I0~111", "T", "I6~000", "T"],
            ["I4:%d.%d.%d~110" % (4 * dflt[0], dflt[1], dflt[2]), "T", "I5~000", "T"],
            ["I4~010", "I5~111", "T", "T", "I5~010", "T", "I0~010", "T", "I4~100", "T"]]
    while len(seqs) < nseq:
        ops = []
        depth = 0
        last_u = None
        for _ in range(rng.randrange(2, 14)):
            if depth == 0 or rng.random() < 0.5:
                u = rng.choice([x for x in (0, 4, 5, 6, 7) if depth > 0 or x != last_u])
                if depth == 0:
                    last_u = u
                op = "I%d" % u
                if rng.random() < 0.3:
                    op += ":%d.%d.%d" % (rng.choice([dflt[0], 2 * dflt[0], 4096]), dflt[1], dflt[2])
                op += "~%d%d%d" % (rng.randrange(2), rng.randrange(2), rng.randrange(2))
                ops.append(op); depth += 1
            else:
                ops.append("T"); depth -= 1
        ops += ["T"] * depth + (["T"] if rng.random() < 0.5 else [])
        seqs.append(ops)
    jobs = []
    for si, ops in enumerate(seqs):
        lines = []
        depth = 0
        for k, op in enumerate(ops):
            lab = "L%d.%d" % (si, k)
            if op[0] == "I":
                core, _, fl = op[1:].partition("~")
                fl = fl or "100"
                u, _, d = core.partition(":")
                ln = "init %s user=%s" % (lab, u)
                if d:
                    ln += " dom=" + d.replace(".", ",")
                ln += " loc=%s nls=%s ph=%s" % (rng.choice(["en_US", "fr", "de_DE_x"]) if fl[0] == "1" else rng.choice(["0", "bad", "toolong"]),
                                                rng.choice(["/opt/xerces/nls", "n"]) if fl[1] == "1" else "0", fl[2])
                lines.append(ln)
                depth += 1
            else:
                lines.append("term %s" % lab)
                depth = max(0, depth - 1)
            if depth > 0:
                lines.append("ref R%d.%d api=sax2 val=1 doc=%s" % (si, k, refdoc.hex()))
                lines.append("arena A%d.%d ops=a24" % (si, k))
        jobs.append((si, ops, lines))
    with ThreadPoolExecutor(max_workers=min(8, V.NPROC)) as ex:
        results = list(ex.map(lambda j: run_pipeline(xh, xm, j[2], "life%d" % j[0]), jobs))
    rd = 1 if ctx.coverage.get("terminate_resets_dom_heap") else 0
    mp = subprocess.run([xm], input=("\n".join("mlife L%d rd=%d dom0=%d,%d,%d ops=%s" % (si, rd, dflt[0], dflt[1], dflt[2], ";".join(ops))
                                                for si, ops, _ in jobs) + "\n").encode(), stdout=subprocess.PIPE, timeout=600)
    mlines = {ln.split()[1]: ln.split()[2:] for ln in mp.stdout.decode().splitlines() if ln.startswith("ml ")}
    for (si, ops, lines), (rc1, rc2, o, err) in zip(jobs, results):
        ctx.count()
        ctx.distinct(tuple(ops))
        if rc1 != 0 or rc2 != 0:
            ctx.violation("harness-crash", {"what": "crash in an Initialize/Terminate sequence", "stderr": err[-1500:], "request": lines})
            continue
        st = {}
        verdicts, bad = judge(ctx, o, lines, "life", st)
        for label, ln in bad[:3]:
            ctx.violation("lifecycle", {"what": "per-manager verdict of the extracted monitor: blocks of a global manager outstanding after the "
                                                "last Terminate, or a pointer released through a manager that does not own it",
                                        "verdict": ln, "request": lines})
        impl_states = ["/".join(ln.split()[2:6]) for ln in o if ln.startswith("st ")]
        if any(t == "foreign=1" for t in mlines.get("L%d" % si, [])):
            ctx.violation("model", {"what": "the lifecycle model itself releases a string through a foreign manager", "ops": ops}, no_input=True)
        model = mlines.get("L%d" % si, [])
        model_states = [t for t in model if t.startswith("live=")]
        if impl_states != model_states:
            ctx.violation("divergence", {"what": "Initialize/Terminate state differs from the model (live iff count > 0, manager ownership, message-loader strings)",
                                         "impl": impl_states, "model": model_states, "request": lines})
        for ln in o:
            if ln.startswith("r ") and " ref " in ln:
                digests.add(" ".join(ln.split()[3:]))
        # DOM heap parameters: the first arena block requested in each live state, against the model's i_dom history
        exp = []
        cur = list(dflt)
        cnt = 0
        for op in ops:
            op = op.split("~")[0]
            if op[0] == "I":
                cnt += 1
                if cnt == 1 and ":" in op:
                    cur = [int(x) for x in op.split(":")[1].split(".")]
            else:
                cnt = max(0, cnt - 1)
            if cnt > 0:
                exp.append(cur[0])
        got = [int(ln.split()[3].split(":")[0][3:]) for ln in o if ln.startswith("x A") and " ops " in ln and "new" in ln]
        if got != exp:
            pristine_exp = []
            cnt = 0
            curp = list(dflt)
            for op in ops:
                op = op.split("~")[0]
                if op[0] == "I":
                    cnt += 1
                    if cnt == 1:
                        curp = [int(x) for x in op.split(":")[1].split(".")] if ":" in op else list(dflt)
                else:
                    cnt = max(0, cnt - 1)
                if cnt > 0:
                    pristine_exp.append(curp[0])
            if got == pristine_exp:
                ctx.coverage["domheap_reset_on_terminate"] = True
            else:
                ctx.violation("divergence", {"what": "DOM heap block size after (re-)initialisation differs from the model",
                                             "impl": got, "model": exp, "request": lines})
        elif exp and any(a != b for a, b in zip(exp, [dflt[0]] * len(exp))):
            # did a later initialisation without arguments still see the earlier arguments?
            cnt = 0
            for op, e in zip([o_ for o_ in ops], range(len(ops))):
                pass
            pristine_exp = []
            cnt = 0
            curp = list(dflt)
            for op in ops:
                op = op.split("~")[0]
                if op[0] == "I":
                    cnt += 1
                    if cnt == 1:
                        curp = [int(x) for x in op.split(":")[1].split(".")] if ":" in op else list(dflt)
                else:
                    cnt = max(0, cnt - 1)
                if cnt > 0:
                    pristine_exp.append(curp[0])
            if pristine_exp != exp:
                sticky_seen += 1
    if len(digests) > 1:
        ctx.violation("lifecycle", {"what": "a re-initialised library parses the reference document differently",
                                    "results": sorted(digests)}, no_input=True)
    ctx.coverage["input_distribution"]["lifecycle_sequences"] = len(seqs)
    ctx.coverage["lifecycle_reference_results"] = sorted(digests)
    if sticky_seen:
        txt = ("Terminate does not restore the DOM heap parameters set by Initialize(initialDOMHeapAllocSize,...): a later "
               "Initialize() without arguments keeps them (witness `I:65536.524288.256 T I` -> first DOM block 65536 instead of "
               "16384); %d generated sequences of this class" % sticky_seen)
        if ctx.find_known("C18-DOMHEAP-STICKY"):
            ctx.known_finding("C18-DOMHEAP-STICKY", txt)
        else:
            ctx.violation("C18-DOMHEAP-STICKY", {"what": txt, "request": ["init a user=4 dom=65536,524288,256", "term a", "init b user=4",
                                                                          "arena c ops=a24", "term b"]})


def witnesses(ctx, xh, xm, dflt):
    # F23: Initialize(initial, max, maxSub) accepts maxSub > initial: allocate() hands out a region larger than the block
    lines = ["init w user=1 dom=1024,4096,2048", "arena wF23 ops=a2000,a8", "term w"]
    rc1, rc2, o, err = run_pipeline(xh, xm, lines, "wF23")
    impl = [ln.split(" ", 2)[2] for ln in o if ln.startswith("x wF23 ops")]
    mp = subprocess.run([xm], input=b"marena wF23 fx=0 cfg=1024,4096,2048 ops=a2000,a8\nmarena wF23 fx=1 cfg=1024,4096,2048 ops=a2000,a8\n",
                        stdout=subprocess.PIPE, timeout=60)
    ml = [ln.split(" ", 2)[2] for ln in mp.stdout.decode().splitlines() if ln.startswith("x ")]
    ctx.count()
    if rc1 != 0 or not impl or len(ml) != 2:
        ctx.violation("harness-crash", {"what": "F23 witness could not be replayed", "stderr": err[-1000:], "request": lines}, no_input=True)
    elif impl[0] == ml[0] and "OUT" in impl[0]:
        txt = ("XMLPlatformUtils::Initialize(initialDOMHeapAllocSize=1024, max=4096, maxDOMSubAllocationSize=2048) is accepted; "
               "DOMDocumentImpl::allocate(2000) then returns a 2000-byte region in a fresh 1024-byte block (`%s`), as the model "
               "predicts (T18_arena_cfg_refuted)" % impl[0])
        if ctx.find_known("F23"):
            ctx.known_finding("F23", txt)
        else:
            ctx.violation("F23", {"what": txt, "request": lines})
    elif impl[0] == ml[1] and "OUT" not in impl[0]:
        ctx.note("F23 witness: the tree behaves like the repaired arena model")
    else:
        ctx.violation("divergence", {"what": "F23 witness: implementation matches neither the faithful nor the repaired arena model",
                                     "impl": impl, "model": ml, "request": lines})
    sb = ["init w user=1", "arena wSB ops=s257,a256", "term w"]
    # (the setblock class is also exercised by the generated arena cases)
    # C18-STALE-READERS: progressive parse left without parseReset, then another parse on the same parser
    doc = b'<?xml version="1.0"?><!DOCTYPE r [<!ENTITY e "<b>inner</b> tail">]><r><a>&e;</a><c/></r>'
    doc2 = b"<q><z/>text</q>"
    lines = ["init w user=1"] + ["progreuse wPR%d api=%s j=%d doc=%s doc2=%s" % (j, api, j, doc.hex(), doc2.hex())
                                  for j in (0, 3) for api in ("sax2", "dom")][:4] + ["term w"]
    lines = ["init w user=1"] + ["progreuse wPR%d%s api=%s j=%d doc=%s doc2=%s" % (j, api, api, j, doc.hex(), doc2.hex())
                                  for j in (0, 3) for api in ("sax2", "dom", "sax")] + ["term w"]
    rc1, rc2, o, err = run_pipeline(xh, xm, lines, "wPR")
    res = [ln for ln in o if ln.startswith("r ") and " progreuse " in ln]
    ctx.count()
    st = {}
    verdicts, bad = judge(ctx, o, lines, "wPR", st)
    if rc1 != 0:
        res.append("crash rc=%d" % rc1)
    different = [ln for ln in res if "DIFFERENT" in ln or ln.startswith("crash")]
    if different:
        txt = ("a progressive parse left without parseReset is not cleaned up by the next parse on the same parser although "
               "SAXParser.hpp documents that it is: the stale readers stay on the ReaderMgr stack, the next document is parsed on "
               "top of them (fresh parser: ok, reused parser: fatal error; with external DTD entities: use of a released entity "
               "declaration, SIGSEGV); %d of %d witness runs differ" % (len(different), len(res)))
        if ctx.find_known("C18-STALE-READERS"):
            ctx.known_finding("C18-STALE-READERS", txt)
        else:
            ctx.violation("C18-STALE-READERS", {"what": txt, "results": different, "request": lines})
    report_bad(ctx, bad, lines, "discipline violated in the progressive-reuse witness")
    # C18-DG-GRAMMAR-DOUBLE-OWNED
    dtd = b"<!ELEMENT r (a*)><!ELEMENT a (#PCDATA)>"
    gdoc = b'<?xml version="1.0"?><!DOCTYPE r SYSTEM "ext.dtd"><r><a>t</a></r>'
    lines = ["init w user=1", "case wDG api=sax2 exc=0 mode=reuse ns=1 pool=1 sch=0 scn=DG val=1 prog=0 kmax=1 doc=%s ext=ext.dtd:%s"
             % (gdoc.hex(), dtd.hex()), "term w"]
    rc1, rc2, o, err = run_pipeline(xh, xm, lines, "wDG")
    ctx.count()
    st = {}
    verdicts, bad = judge(ctx, o, lines, "wDG", st)
    vk = verdicts.get("wDG.kreuse", "")
    if rc1 != 0 or (vk and vk.split()[2] != "ok"):
        txt = ("DGXMLScanner with a caching grammar pool: a parse that ends before the DOCTYPE (handler exception at startDocument) "
               "leaves its fresh DTDGrammar cached under the key [dtd]; the next parse on the same parser caches its own grammar under the "
               "system id while it is still in the resolver's bucket, so ~GrammarResolver and ~XMLGrammarPoolImpl both delete it "
               "(double free of blocks of the pool's manager, %s) and the first grammar is orphaned"
               % ("harness killed by signal %d in ~XMLGrammarPoolImpl" % -rc1 if rc1 != 0 else " ".join(vk.split()[2:5])))
        if ctx.find_known("C18-DG-GRAMMAR-DOUBLE-OWNED"):
            ctx.known_finding("C18-DG-GRAMMAR-DOUBLE-OWNED", txt)
        else:
            ctx.violation("C18-DG-GRAMMAR-DOUBLE-OWNED", {"what": txt, "request": lines})
    else:
        report_bad(ctx, bad, lines, "discipline violated in the DG grammar-cache witness")
    # C18-DTD-CONTENTSPEC-LEAK
    cdoc = b'<?xml version="1.0"?><!DOCTYPE r [<!ELEMENT r (h?, (a | b<)*, c?)><!ELEMENT h (#PCDATA)>]><r><h>t</h></r>'
    lines = ["init w user=1", "case wCS api=sax2 exc=3 mode=fresh ns=1 pool=0 sch=0 scn=IG val=0 prog=0 doc=%s" % cdoc.hex(), "term w"]
    rc1, rc2, o, err = run_pipeline(xh, xm, lines, "wCS")
    ctx.count()
    st = {}
    verdicts, bad = judge(ctx, o, lines, "wCS", st)
    leaks = [ln for lab, ln in bad if ln.split()[2] == "outstanding" and ".k" in lab]
    if rc1 != 0:
        ctx.violation("harness-crash", {"what": "content-spec witness crashed", "stderr": err[-1000:], "request": lines})
    elif leaks and len(leaks) == len(bad):
        txt = ("DTDScanner::scanChildren: an exception thrown by the application's error handler while a NESTED content-model group "
               "reports a syntax error passes the outer frames, which only clean up for XMLErrs::Codes: the partially built "
               "ContentSpecNode tree is never freed (`%s` after the parser was destroyed)" % " ".join(leaks[0].split()[1:5]))
        if ctx.find_known("C18-DTD-CONTENTSPEC-LEAK"):
            ctx.known_finding("C18-DTD-CONTENTSPEC-LEAK", txt)
        else:
            ctx.violation("C18-DTD-CONTENTSPEC-LEAK", {"what": txt, "verdict": leaks[0], "request": lines})
    else:
        report_bad(ctx, bad, lines, "discipline violated in the content-spec witness")
    # C18-DTD-CONTENTSPEC-EOE-LEAK: an entity ends (EndOfEntityException) while scanChildren holds a partially built content model
    edoc = (b'<?xml version="1.0"?><!DOCTYPE r [<!ENTITY % inner "<!ELEMENT r (a,"><!ENTITY % mid "<!ELEMENT m EMPTY>&#37;inner;">'
            b'<!ENTITY % outer SYSTEM "outer.ent">%outer;]><r/>')
    lines = ["init w user=1", "case wEOE api=sax2 exc=0 mode=fresh ns=1 pool=0 sch=0 scn=IG val=0 thr=0 prog=0 doc=%s ext=outer.ent:%s,o2.ent:%s"
             % (edoc.hex(), b"<!ENTITY % o2 SYSTEM 'o2.ent'>%o2;<!ELEMENT w EMPTY>".hex(), b"<!ELEMENT q EMPTY>%mid;".hex()), "term w"]
    rc1, rc2, o, err = run_pipeline(xh, xm, lines, "wEOE")
    ctx.count()
    st = {}
    verdicts, bad = judge(ctx, o, lines, "wEOE", st)
    leaks = [ln for lab, ln in bad if ln.split()[2] == "outstanding" and lab.startswith("wEOE.")]
    if rc1 != 0:
        ctx.violation("harness-crash", {"what": "EOE content-spec witness crashed", "stderr": err[-1000:], "request": lines})
    elif leaks and len(leaks) == len(bad):
        txt = ("DTDScanner::scanChildren: a parameter entity that ends inside an open content-model group raises EndOfEntityException "
               "(ReaderMgr::popReader) through scanChildren, which holds its partially built ContentSpecNode tree in raw pointers: "
               "the tree is never freed, also when the parse simply ends with the fatal error (`%s` after the parser was destroyed)"
               % " ".join(leaks[0].split()[1:5]))
        if ctx.find_known("C18-DTD-CONTENTSPEC-EOE-LEAK"):
            ctx.known_finding("C18-DTD-CONTENTSPEC-EOE-LEAK", txt)
        else:
            ctx.violation("C18-DTD-CONTENTSPEC-EOE-LEAK", {"what": txt, "verdict": leaks[0], "request": lines})
    else:
        report_bad(ctx, bad, lines, "discipline violated in the EOE content-spec witness")
    # C18-DTD-MIXED-HANDLER-LEAK: scanMixed reports ExpectedAsterisk (the PE ends right behind the closing parenthesis of a mixed
    # model) with setExitOnFirstFatalError(false); the error handler throws at that callback
    mdoc = (b'<?xml version="1.0"?><!DOCTYPE r [<!ENTITY % p "<!ELEMENT a (#PCDATA | b)"><!ELEMENT r (a)*>%p;*><!ELEMENT b EMPTY>]><r><a>t</a></r>')
    lines = ["init w user=1", "case wMIX api=sax2 exc=1 mode=fresh ns=1 pool=0 sch=0 scn=IG val=0 xff=0 thr=1 prog=0 doc=%s" % mdoc.hex(), "term w"]
    rc1, rc2, o, err = run_pipeline(xh, xm, lines, "wMIX")
    ctx.count()
    st = {}
    verdicts, bad = judge(ctx, o, lines, "wMIX", st)
    leaks = [ln for lab, ln in bad if ln.split()[2] == "outstanding" and lab.startswith("wMIX.k")]
    sizes_ok = all(all(int(b.split(":")[1]) in (72, 80) or int(b.split(":")[1]) <= 32 for b in ln.split()[4].split(",")) for ln in leaks)
    if rc1 != 0:
        ctx.violation("harness-crash", {"what": "mixed-content witness crashed", "stderr": err[-1000:], "request": lines})
    elif leaks and len(leaks) == len(bad) and sizes_ok:
        txt = ("DTDScanner::scanMixed: with setExitOnFirstFatalError(false) the error ExpectedAsterisk / NoRepInMixed is reported while the "
               "ContentSpecNode tree built so far is held in a raw pointer; an exception thrown by the application's error handler at "
               "that callback leaves the tree and its QNames outstanding after the parser is destroyed (`%s`); repair: "
               "fixes/C18-dtd-mixed-handler-exception-leak.patch" % " ".join(leaks[0].split()[1:5]))
        if ctx.find_known("C18-DTD-MIXED-HANDLER-LEAK"):
            ctx.known_finding("C18-DTD-MIXED-HANDLER-LEAK", txt)
        else:
            ctx.violation("C18-DTD-MIXED-HANDLER-LEAK", {"what": txt, "verdict": leaks[0], "request": lines})
    else:
        report_bad(ctx, bad, lines, "discipline violated in the mixed-content witness")
    # C18-XPATH-EXPR-MANAGER: DOMXPathExpressionImpl copies an expression that does not start with '/' with the GLOBAL manager
    # and releases it to the document's manager
    xdoc = b'<r><a x="1">t</a><a>u</a></r>'
    lines = ["init w user=1", "misc wXP1 ops=X strs=%s doc=%s" % (b"a".hex(), xdoc.hex()),
             "misc wXP2 ops=X strs=%s doc=%s" % (b"//a".hex(), xdoc.hex()), "term w"]
    rc1, rc2, o, err = run_pipeline(xh, xm, lines, "wXP")
    ctx.count()
    st = {}
    verdicts, bad = judge(ctx, o, lines, "wXP", st)
    v1 = verdicts.get("wXP1.misc", "")
    v2 = verdicts.get("wXP2.misc", "")
    vg = verdicts.get("w", "")
    if rc1 != 0 or not v1 or not vg:
        ctx.violation("harness-crash", {"what": "XPath witness could not be replayed", "stderr": err[-1000:], "request": lines}, no_input=True)
    elif v1.split()[2] != "ok" and v2.split()[2] == "ok" and vg.split()[2] == "outstanding":
        txt = ("DOMXPathExpressionImpl copies an XPath expression that does not start with '/' with XMLString::replicate(expression) "
               "(global manager) but releases it to the document's manager: foreign pointer handed to the application's manager "
               "(`%s`) and one block of the global manager never returned (`%s`); expressions starting with '/' are fine" % (
                   " ".join(v1.split()[2:5]), " ".join(vg.split()[2:5])))
        if ctx.find_known("C18-XPATH-EXPR-MANAGER"):
            ctx.known_finding("C18-XPATH-EXPR-MANAGER", txt)
        else:
            ctx.violation("C18-XPATH-EXPR-MANAGER", {"what": txt, "verdict": v1, "request": lines})
    else:
        report_bad(ctx, bad, lines, "discipline violated in the XPath witness")


def run_pipeline(xh, xm, lines, tag):
    """xh < lines | xm ; returns (rc_h, rc_m, output lines of xm, stderr)"""
    work = os.path.join(V.BUILD, "c18-work")
    os.makedirs(work, exist_ok=True)
    req = os.path.join(work, "req-%s.txt" % tag)
    with open(req, "w") as f:
        f.write("\n".join(lines) + "\n")
    p1 = subprocess.Popen([xh], stdin=open(req), stdout=subprocess.PIPE, stderr=subprocess.PIPE)
    p2 = subprocess.Popen([xm], stdin=p1.stdout, stdout=subprocess.PIPE, stderr=subprocess.PIPE)
    p1.stdout.close()
    out, err2 = p2.communicate(timeout=3000)
    err1 = p1.stderr.read()
    p1.wait()
    return p1.returncode, p2.returncode, out.decode("utf-8", "replace").splitlines(), (err1 + err2).decode("utf-8", "replace")


def judge(ctx, out, session_lines, tag, stats):
    """read the echoed stream: every 'chk'/'term' must be followed by a verdict; every verdict must be ok.
    session_lines: the request lines of this pipeline (for the replay)."""
    by_id = {}
    for ln in session_lines:
        a = ln.split(" ", 2)
        if len(a) >= 2:
            by_id[a[1]] = ln
    pending = None
    own = {}
    verdicts = {}
    cur = None
    for ln in out:
        if ln.startswith("req "):
            cur = ln.split()[1]
        elif ln.startswith("bt "):      # the harness' stack of a deallocate() of a block that is not outstanding (second free)
            stats.setdefault("stacks", {}).setdefault(cur, []).append(ln)
        if ln.startswith("chk ") or ln.startswith("term "):
            pending = ln.split()[1]
        elif ln.startswith("v "):
            a = ln.split()
            verdicts[a[1]] = ln
            pending = None
        elif ln.startswith("own "):
            a = ln.split()
            own[a[1]] = int(a[2])
        elif ln.startswith("r "):
            a = ln.split()
            stats["r"] = stats.get("r", 0) + 1
            key = a[2] + ":" + (a[4] if a[2] in ("throw", "prog") and len(a) > 4 else a[3] if len(a) > 3 else "")
            if a[2] == "prog" and len(a) > 5:
                key = "prog:" + a[5]
            stats.setdefault("outcomes", {})
            stats["outcomes"][key] = stats["outcomes"].get(key, 0) + 1
            if "harness-exc" in ln or "not-initialised" in ln or "bad-request" in ln:
                ctx.violation("harness", {"what": "harness could not run a request", "line": ln,
                                          "request": [session_lines[0], by_id.get(a[1], ""), session_lines[-1]]}, no_input=True)
        elif ln.startswith("model-error"):
            ctx.violation("model-crash", {"what": "monitor driver failed on a line", "line": ln}, no_input=True)
    bad = []
    for label, ln in verdicts.items():
        ctx.count()
        a = ln.split()
        stats["verdicts"] = stats.get("verdicts", 0) + 1
        stats["events"] = stats.get("events", 0) + int(a[-1].split("=")[1])
        if a[2] != "ok":
            bad.append((label, ln))
        # the harness' own count decides nothing, but it must agree with the monitor
        if label in own and ((own[label] == 0) != (a[2] != "outstanding")):
            if a[2] in ("ok", "outstanding"):
                ctx.violation("correspondence", {"what": "extracted monitor and the harness' own block count disagree",
                                                 "verdict": ln, "own": own[label]}, no_input=True)
    return verdicts, bad


def report_bad(ctx, bad, session_lines, what, stacks=None):
    by_id = {}
    for ln in session_lines:
        a = ln.split(" ", 2)
        if len(a) >= 2:
            by_id[a[1]] = ln
    # replay files for at most 6 verdicts per call, one of each request kind (first letter of the case id) first
    seen_kinds = set()
    first = [b for b in bad if not (b[0][:1] in seen_kinds or seen_kinds.add(b[0][:1]))]
    for label, ln in (first + [b for b in bad if b not in first])[:6]:
        cid = label.split(".")[0]
        req = [session_lines[0]] + ([by_id[cid]] if cid in by_id else session_lines[1:-1]) + [session_lines[-1]]
        payload = {"what": what, "verdict": ln, "case": label, "request": req}
        if stacks and stacks.get(cid):
            payload["stack_of_free_of_block_not_outstanding"] = stacks[cid][:4]
        ctx.violation("discipline", payload)


def guard_cases(ctx, thorough):
    """requests for the scope-guard / adopting-container correspondences: list of (id, harness line, model line or None, kind)"""
    import itertools
    rng = ctx.rng
    out = []
    n = 0
    # (a) a temporary under Janitor<T> / ArrayJanitor<T>: EVERY sequence of {call, reset, release} up to length 4 (5 in thorough)
    #     x EVERY throw choice, both janitor kinds; plus random longer sequences
    seqs = [list(t) for L in range(0, 6 if thorough else 5) for t in itertools.product("crl", repeat=L)]
    for _ in range(400 if thorough else 60):
        seqs.append([rng.choice("ccrl") for _ in range(rng.randrange(5, 12))])
    for ops in seqs:
        ncalls = ops.count("c")
        for kind in "JA":
            for k in [-1] + list(range(ncalls)):
                cid = "j%d" % n
                n += 1
                arg = "kind=%s k=%d ops=%s" % (kind, k, ",".join(ops))
                out.append((cid, "jan %s %s" % (cid, arg), "mjan %s %s" % (cid, arg), "jan/" + kind))
    # (b) RefVectorOf<T>(max, adopt): operation histories with indices around the current size (bad indices included)
    for i in range(1200 if thorough else 260):
        adopt = i % 2
        mx = [0, 1, 2, 4, 9][i % 5]
        ops = []
        size = 0
        for _ in range(rng.randrange(0, 16)):
            r = rng.random()
            ix = max(0, size + rng.choice([-2, -1, -1, 0, 0, 1])) if rng.random() < 0.6 else rng.randrange(0, size + 2)
            if r < 0.35:
                ops.append("a"); size += 1
            elif r < 0.47:
                ops.append("s%d" % ix)
            elif r < 0.6:
                ops.append("i%d" % ix); size += 1 if ix <= size else 0
            elif r < 0.72:
                ops.append("o%d" % ix); size -= 1 if ix < size else 0
            elif r < 0.84:
                ops.append("r%d" % ix); size -= 1 if ix < size else 0
            elif r < 0.94:
                ops.append("l"); size -= 1 if size else 0
            else:
                ops.append("x"); size = 0
        cid = "v%d" % i
        arg = "adopt=%d max=%d ops=%s" % (adopt, mx, ",".join(ops))
        out.append((cid, "rvec %s %s" % (cid, arg), "mrvec %s %s" % (cid, arg), "rvec/adopt%d" % adopt))
    # (c) guarded constructors with arguments that make the body throw at different places: every prefix of valid texts,
    #     damaged characters, empty strings
    def prefixes(t, step=1):
        return [t[:j] for j in range(0, len(t) + 1, step)]
    urls = prefixes("http://user:pw@host.example:8080/a/b/../c.xml?q=1#frag") + ["http://h:xx/", "http://h:99999999999/", "zz://h/p", "file:///tmp/x",
            "ftp://u@h/f", "http:/one-slash", "//h/p", "/abs/path", "rel/path?q", "#f", "http://[::1]/", "http://h/%zz", "http://h:/p", ":", "http://"]
    uris = prefixes("http://user@host.example:8080/a/b;p?q=1#frag") + ["urn:isbn:0", "mailto:a@b", "http://[1080::8:800:200C:417A]/p", "http://[bad/p", "1http://h",
            "http://h:port/", "http://h/%2", "http://h/^", "a:b#c#d", "?q", "//auth", "http://a b/", "file:///c|/x", "http://h/p?%", ""]
    rexs = prefixes("(a|b)*[c-f&&[^d]]{2,3}\\p{L}+(?=x)\\d\\1") + ["a{2,1}", "[z-a]", "\\p{Nope}", "(?<!a)b", "a**", "(?i)abc", "[[:alpha:]]", "\\", "(?", "a{", "a{1", "a{1,",
            "[a-", "(a)(b)\\3", ".*?x", "\\c", "[\\", "(?#c)a", "(?:a|)", "\\x{110000}"]
    decs = ["12.50", "-0.0", "+1", "1e5", "abc", "", "--1", "1.2.3", ".", "-.5", "5.", " 12 ", "1 2", "00012.3400", "+", "9" * 60 + "." + "1" * 40]
    toks = [("a b  c", " "), ("", " "), ("abc", ""), (",a,,b,", ","), ("   ", " "), ("one", "xyz")]
    qns = [("p:l", "q:m"), ("nocolon", "x:y"), (":l", "p:"), ("", ""), ("a:b:c", "z"), ("p:" + "l" * 300, "s")]
    k = 0

    def add(cls, a, b=""):
        nonlocal k
        cid = "k%d" % k
        k += 1
        out.append((cid, "ctor %s cls=%s arg=%s arg2=%s" % (cid, cls, a.encode().hex() or "-", b.encode().hex() or "-"), None, "ctor/" + cls))
    sub = (lambda l, m: l) if thorough else (lambda l, m: [x for j, x in enumerate(l) if j % m == 0 or j >= len(l) - 16])
    for u in sub(urls, 2):
        add("url", u)
    for u in sub(urls, 3):
        add("urlrel", u, "http://base.example/d/e/f.xml")
        add("urlbase", u, "http://base.example:81/d/e/f.xml?bq#bf")
        add("urlset", u, rng.choice(["http://base.example/x/y", "", "nobase"]))
    for u in sub(uris, 2):
        add("uri", u)
    for u in sub(uris, 3):
        add("urirel", u, "http://base.example/d/e/f?bq")
    for r in sub(rexs, 2):
        add("regex", r, rng.choice(["", "i", "x", "is", "F", "H", "zz"]))
    for d in decs:
        add("bigdec", d)
    for a, b in toks:
        add("tok", a, b)
    for a, b in qns:
        add("qname", a, b)
    return out


def guards_and_containers(ctx, xh, xm, jgen, thorough):
    """scope guards (Janitor.c) and adopting containers (RefVectorOf) against their models; guarded constructors with failing
    arguments judged by the monitor; the generated constructor obligations evaluated by the extracted model"""
    t = time.time()
    cases = guard_cases(ctx, thorough)
    lines = ["init m0 user=1"] + [h for _, h, _, _ in cases] + ["term m0"]
    rc1, rc2, o, err = run_pipeline(xh, xm, lines, "guards")
    if rc1 != 0 or rc2 != 0:
        # the request in flight is the last "req" line
        last = [ln for ln in o if ln.startswith("req ")]
        cid = last[-1].split()[1] if last else None
        req = [ln for c, ln, _, _ in cases if c == cid]
        ctx.violation("harness-crash", {"what": "the library crashed the harness in the scope-guard / container session (a double delete or a "
                                                "use of released memory ends like this)", "stderr": err[-1500:],
                                        "request": ["init m0 user=1"] + req + ["term m0"]}, no_input=not req)
        return
    st = {}
    verdicts, bad = judge(ctx, o, lines, "guards", st)
    report_bad(ctx, bad, lines, "discipline violated by a scope guard / adopting container / guarded constructor", st.get("stacks"))
    impl = {}
    for ln in o:
        if ln.startswith("x "):
            a = ln.split(" ", 2)
            impl[a[1]] = a[2]
    mlines = [m for _, _, m, _ in cases if m]
    pm = subprocess.run([xm], input=("\n".join(mlines) + "\nmjsites all\n").encode(), stdout=subprocess.PIPE, timeout=900)
    model = {}
    sites = {}
    for ln in pm.stdout.decode().splitlines():
        a = ln.split(" ", 2)
        if ln.startswith("x "):
            model[a[1]] = a[2]
        elif ln.startswith("mv ") and a[2] != "ok":
            ctx.violation("model", {"what": "the Janitor model's own trace is rejected by the monitor (T18_janitor_local would be false)",
                                    "line": ln}, no_input=True)
        elif ln.startswith("js "):
            sites[int(a[1])] = a[2]
    dist = {}
    ndiv = 0
    for cid, hline, mline, kind in cases:
        dist[kind] = dist.get(kind, 0) + 1
        ctx.distinct(hline.split(" ", 2)[2])
        if mline is None:
            continue
        ctx.count()
        if cid not in impl or cid not in model:
            ctx.violation("correspondence", {"what": "missing answer", "case": cid, "request": ["init m0 user=1", hline, "term m0"]}, no_input=True)
            continue
        if impl[cid] != model[cid]:
            ndiv += 1
            if ndiv > 4:
                continue
            v = verdicts.get(cid + "." + hline.split()[0])
            spec_bad = bool(v) and v.split()[2] != "ok"
            # Spec oracle of the container: what it deleted must be distinct objects it was given and must not overlap what it handed back
            if hline.startswith("rvec"):
                f = dict(x.split("=") for x in impl[cid].split())
                d = [x for x in f["del"].split(",") if x != "-"]
                if len(set(d)) != len(d) or ("adopt=0" in hline and d):
                    spec_bad = True
            ctx.violation("divergence" if spec_bad else "correspondence",
                          {"what": "%s: implementation differs from the model%s" % (kind, " and violates the discipline" if spec_bad else
                                                                                    " (events / deletions / array requests)"),
                           "impl": impl[cid], "model": model[cid], "request": ["init m0 user=1", hline, "term m0"]})
    # generated constructor obligations: name the sites whose obligation fails and the exit the model shows to be wrong
    recs = jgen["sites"]
    failing = []
    for i, r in enumerate(recs):
        txt = sites.get(i, "missing")
        if " ok=1" not in " " + txt or "all-exits-ok" not in txt:
            failing.append({"site": "%s %s::%s#%d" % (r["file"], r["cls"], r["fn"], r["ordinal"]), "model": txt,
                            "assigned": r["allocated"], "guard_releases": r["released"], "destructor_releases": r["dtor"],
                            "release_last": r["release_last"], "work_after_release": r["unguarded_work"]})
    bad_shapes = [k for k, v in jgen["shapes"].items() if not v]
    ctx.coverage["input_distribution"]["guards_and_containers"] = dist
    ctx.coverage["guarded_constructor_sites"] = len(recs)
    ctx.note("guards/containers: %d requests, %d divergences, %d constructor sites (%d failing), outcomes %s, %.1fs" % (
        len(cases), ndiv, len(recs), len(failing), {k: v for k, v in st.get("outcomes", {}).items()}, time.time() - t))
    return failing, bad_shapes


def run(ctx):
    t0 = time.time()
    ctx.coverage["trusted_base"] = list(V.GLOBAL_TRUSTED_BASE) + [
        "C18: the instrumented MemoryManager of harness/C18.cpp (prints one line per allocate/deallocate, delegates to "
        "malloc/free) and the 60-line OCaml driver that groups the events of a case and calls the extracted ledger_check",
        "C18 modelled rather than verified: Janitor/exception paths of the parser are NOT modelled; the claim over the whole "
        "parser is monitored exploration (partial claim)"]
    ctx.assumptions = ["deallocate(0) is a no-op (as in MemoryManagerImpl) and is not an event",
                       "LeakSanitizer is not used: allocations that bypass the managers are outside this check"]
    ctx.build_lib()
    try:
        consts = TI.generate(V.REPO, os.path.join(V.COQ, "theories", "Gen"))
    except Exception as e:
        ctx.note("translator failed: %r" % (e,))
        ctx.violation("translator", {"what": "translator can no longer read DOM heap constants / initialiser lists",
                                     "error": repr(e)}, no_input=True)
        return
    try:
        jgen = TJ.generate(V.REPO, os.path.join(V.COQ, "theories", "Gen"))
    except Exception as e:
        ctx.note("translator failed: %r" % (e,))
        ctx.violation("translator", {"what": "translator can no longer read the guarded constructors / Janitor.c", "error": repr(e)}, no_input=True)
        return
    ctx.coverage["terminate_resets_dom_heap"] = bool(consts["init"]["dom_reset"])
    ctx.coverage["arena_block_fits_request"] = bool(consts["heap"]["shape"]["block_fits_request"])
    ok, out, failed = ctx.prove(["Base", "Gen", "C18"],
                                ["theories/C18/Properties_C18.vo", "theories/C18/Extract_C18.vo"],
                                props_file="theories/C18/Properties_C18.v")
    proof_broken = not ok
    if proof_broken:
        ctx.note("proof obligations failed: %s" % failed)
        ctx.note(out[-2500:])
    xm = ctx.ocaml("C18", ["gen_c18"])
    xh = ctx.harness("C18")

    if ctx.replay:
        r = json.load(open(ctx.replay))
        lines = r["request"]
        rc1, rc2, o, err = run_pipeline(xh, xm, lines, "replay")
        stats = {}
        verdicts, bad = judge(ctx, o, lines, "replay", stats)
        for ln in o:
            if not ln.startswith(("a ", "f ")):
                print(ln)
        report_bad(ctx, bad, lines, "replayed case violates the discipline", stats.get("stacks"))
        # model comparison for arena / xmem requests of the replay
        heap = consts["heap"]
        cfg = (heap["kInitialHeapAllocSize"], heap["kMaxHeapAllocSize"], heap["kMaxSubAllocationSize"])
        for ln in lines:
            a = ln.split()
            if a[0] == "init" and any(t.startswith("dom=") for t in a):
                cfg = tuple(int(x) for x in [t for t in a if t.startswith("dom=")][0][4:].split(","))
            if a[0] in ("arena", "xmem"):
                opsarg = [t for t in a if t.startswith("ops=")][0]
                if a[0] == "arena":
                    mreq = "marena %s fx=0 cfg=%d,%d,%d %s\nmarena %s fx=1 cfg=%d,%d,%d %s\n" % ((a[1],) + cfg + (opsarg, a[1]) + cfg + (opsarg,))
                else:
                    mreq = "mxmem %s glob=1 %s\n" % (a[1], opsarg)
                mo = subprocess.run([xm], input=mreq.encode(), stdout=subprocess.PIPE, timeout=60).stdout.decode().splitlines()
                impl = [x.split(" ", 2)[2] for x in o if x.startswith("x %s " % a[1]) and " ctor" not in x]
                models = [x.split(" ", 2)[2] for x in mo if x.startswith("x ")]
                print("impl : %s" % impl)
                print("model: %s" % models)
                if impl and models and impl[0] != models[0]:
                    ctx.violation("divergence", {"what": "replayed request: implementation differs from the model", "impl": impl,
                                                 "model": models, "request": lines})
                elif impl and "OUT" in impl[0]:
                    ctx.violation("arena", {"what": "replayed request: region outside its block", "impl": impl, "request": lines})
            if a[0] in ("jan", "rvec"):
                mreq = "m" + ln + "\n"
                mo = subprocess.run([xm], input=mreq.encode(), stdout=subprocess.PIPE, timeout=60).stdout.decode().splitlines()
                impl = [x.split(" ", 2)[2] for x in o if x.startswith("x %s " % a[1])]
                models = [x.split(" ", 2)[2] for x in mo if x.startswith("x ")]
                print("impl : %s" % impl)
                print("model: %s" % models)
                if impl and models and impl[0] != models[0]:
                    ctx.violation("divergence", {"what": "replayed request: implementation differs from the model", "impl": impl,
                                                 "model": models, "request": lines})
        for ln in o:
            if ln.startswith("r ") and "DIFFERENT" in ln:
                ctx.violation("replay", {"what": "replayed request: reused parser differs from a fresh one", "line": ln, "request": lines})
        return

    thorough = ctx.tier == "thorough"
    stats = {}
    # ---- 1. main sweep ------------------------------------------------------------------------------
    ndocs = 4000 if thorough else 72
    sweep = gen_sweep(ctx, ndocs) + gen_round2(ctx, thorough) + gen_round3(ctx, thorough)
    nchunks = 8
    chunks = [[] for _ in range(nchunks)]
    for i, c in enumerate(sweep):
        chunks[i % nchunks].append(c)
    sessions = []
    for ci, ch in enumerate(chunks):
        if ch:
            sessions.append(["init s%d user=1" % ci] + [c[2] for c in ch] + ["term s%d" % ci])
    kinds = {}
    for _, kind, _ in sweep:
        kinds[kind] = kinds.get(kind, 0) + 1
    def run_session(t):
        """a session whose harness process dies is continued behind the request that killed it (at most 8 times), so one
        crash neither hides the verdicts of the other requests nor is attributed to the wrong one"""
        si, lines = t
        parts = []
        rest = list(lines)
        for attempt in range(9):
            rc1, rc2, o, err = run_pipeline(xh, xm, rest, "sweep%d-%d" % (si, attempt))
            parts.append((rest, rc1, rc2, o, err))
            if rc1 == 0 and rc2 == 0:
                break
            last = [ln for ln in o if ln.startswith("req ")]
            cid = last[-1].split()[1] if last else None
            idx = [k for k, ln in enumerate(rest) if cid and len(ln.split(" ", 2)) > 1 and ln.split(" ", 2)[1] == cid]
            if not idx or idx[-1] >= len(rest) - 2:
                break
            rest = [lines[0]] + rest[idx[-1] + 1:]
        return parts

    with ThreadPoolExecutor(max_workers=min(8, V.NPROC)) as ex:
        results = list(ex.map(run_session, enumerate(sessions)))
    allbad = 0
    ncrash = 0
    for parts in results:
        for lines, rc1, rc2, o, err in parts:
            if rc1 != 0 or rc2 != 0:
                last = [ln for ln in o if ln.startswith("req ")]
                cid = last[-1].split()[1] if last else None
                req = [lines[0]] + [ln for ln in lines if cid and ln.split(" ", 2)[1] == cid] + [lines[-1]]
                crash_stack = [ln for ln in o if ln.startswith("bt crash")]
                creq = " ".join(ln for ln in lines if cid and ln.split(" ", 2)[1:2] == [cid])
                if " xff=0 " in creq + " ":
                    # setExitOnFirstFatalError(false) = fgXercesContinueAfterFatalError: XMLUni/SAX2XMLReader document the behaviour after a
                    # fatal error as UNDETERMINED ("the parser may get stuck in an infinite loop or worse"); a crash there is counted, not
                    # reported.  Traces that do complete under this setting are judged like all others.
                    stats["crashes_after_continued_fatal_error"] = stats.get("crashes_after_continued_fatal_error", 0) + 1
                    ncrash -= 1
                ncrash += 1
                if ncrash <= 12 and " xff=0 " not in creq + " ":
                    ctx.violation("harness-crash", {"what": "the library crashed the harness (signal %s) while serving this request; a double "
                                                            "delete / use of released memory ends like this before the monitor sees it"
                                                            % (-rc1 if rc1 < 0 else rc1), "stderr": err[-1500:], "case": cid, "request": req,
                                                    "stack_at_crash": crash_stack[-1:] })
                # the verdicts printed before the crash still count
                o = [ln for ln in o if not (cid and ln.split()[1:2] == [cid])]
            verdicts, bad = judge(ctx, o, lines, "sweep", stats)
            for label, ln in verdicts.items():
                if ln.split()[2] == "ok" and int(ln.split()[-1].split("=")[1]) > 0:
                    ctx.distinct(label)
            # the final 'term' verdict of a crashed part is meaningless (the process never terminated the library)
            bad = [(lab, ln) for lab, ln in bad if not (rc1 != 0 and lab.startswith("s") and "." not in lab)]
            allbad += len(bad)
            report_bad(ctx, bad, lines, "a block of an application-supplied manager was not returned exactly once "
                                        "(verdict of the extracted monitor on the recorded trace)", stats.get("stacks"))
    ctx.coverage["traces_validated_against_impl"] = stats.get("verdicts", 0)
    ctx.coverage["events_judged"] = stats.get("events", 0)
    ctx.coverage["crashes_after_continued_fatal_error_not_reported"] = stats.get("crashes_after_continued_fatal_error", 0)
    ctx.coverage["input_distribution"] = {"cases": kinds, "endings": stats.get("outcomes", {})}
    ctx.note("sweep: %d requests, %d traces judged (%d events), %d not ok, %.1fs" % (
        len(sweep), stats.get("verdicts", 0), stats.get("events", 0), allbad, time.time() - t0))

    # ---- 2. model correspondences (XMemory header, DOM arena) in one monitored session -------------
    t1 = time.time()
    heap = consts["heap"]
    dflt = (heap["kInitialHeapAllocSize"], heap["kMaxHeapAllocSize"], heap["kMaxSubAllocationSize"])
    mreq, hreq = model_cases(ctx, dflt, 400 if thorough else 120, 600 if thorough else 150)
    lines = ["init m0 user=1"] + [h for _, h, _ in hreq] + ["term m0"]
    rc1, rc2, o, err = run_pipeline(xh, xm, lines, "models")
    if rc1 != 0 or rc2 != 0:
        ctx.violation("harness-crash", {"what": "harness crashed in the model correspondence session", "stderr": err[-1500:],
                                        "request": lines}, no_input=True)
        return
    st2 = {}
    verdicts, bad = judge(ctx, o, lines, "models", st2)
    report_bad(ctx, bad, lines, "discipline violated in an XMemory / arena request")
    impl_x = {}
    for ln in o:
        if ln.startswith("x "):
            a = ln.split(" ", 2)
            if not a[2].startswith("ctor"):
                impl_x[a[1]] = a[2]
    pm = subprocess.run([xm], input=("\n".join(m for _, m, _ in mreq) + "\n").encode(), stdout=subprocess.PIPE, timeout=600)
    model_x = {}
    for ln in pm.stdout.decode().splitlines():
        a = ln.split(" ", 2)
        if ln.startswith("x "):
            model_x.setdefault(a[1], []).append(a[2])
        elif ln.startswith("mv ") and a[2] != "ok":
            ctx.violation("model", {"what": "the XMemory model's own trace is rejected by the monitor", "line": ln}, no_input=True)
    ndiv = 0
    setblock_hits = 0
    for (cid, hline, info), (_, mline, _) in zip(hreq, mreq):
        ctx.count()
        impl = impl_x.get(cid)
        models = model_x.get(cid, [])
        faithful = models[0] if models else None
        fixed = models[1] if len(models) > 1 else None
        if impl is None or faithful is None:
            ctx.violation("correspondence", {"what": "missing answer", "case": cid, "request": ["init m0 user=1", hline, "term m0"]}, no_input=True)
            continue
        ctx.distinct(hline)
        if info["kind"] == "arena":
            spec_bad = arena_spec(impl, info)
            if impl == faithful:
                if spec_bad:
                    # a defect the model mirrors: attributed to the setMemoryAllocationBlockSize class?
                    if info["setblock_class"] and fixed is not None and not arena_spec(fixed, info):
                        setblock_hits += 1
                    else:
                        ctx.violation("arena", {"what": "arena hands out a region outside its block: " + spec_bad, "impl": impl,
                                                "model": faithful, "request": ["init m0 user=1", hline, "term m0"]})
            elif fixed is not None and impl == fixed and not spec_bad:
                stats["arena_repaired"] = stats.get("arena_repaired", 0) + 1
            else:
                ndiv += 1
                if spec_bad:
                    ctx.violation("divergence", {"what": "arena differs from the model and violates the Spec: " + spec_bad,
                                                 "impl": impl, "model": faithful, "request": ["init m0 user=1", hline, "term m0"]})
                elif ndiv <= 3:
                    ctx.violation("correspondence", {"what": "arena model and implementation differ (block requests / offsets)",
                                                     "impl": impl, "model": faithful,
                                                     "request": ["init m0 user=1", hline, "term m0"]}, no_input=True)
        else:
            if impl != faithful:
                ndiv += 1
                # Spec: the manager called by delete must be the one that allocated; offset = header
                ctx.violation("divergence", {"what": "XMemory header mechanism differs from the model", "impl": impl, "model": faithful,
                                             "request": ["init m0 user=1", hline, "term m0"]})
            else:
                sb = xmem_spec(impl)
                if sb:
                    ctx.violation("xmemory", {"what": sb, "impl": impl, "request": ["init m0 user=1", hline, "term m0"]})
    if setblock_hits:
        f = ctx.find_known("C18-ARENA-SETBLOCK")
        txt = ("DOMDocumentImpl::setMemoryAllocationBlockSize(s) with kMaxSubAllocationSize < s < kMaxSubAllocationSize + header "
               "makes allocate() hand out a region that overruns the fresh block (witness `arena ops=s257,a256`: region 0+8 of "
               "256 bytes in a 257-byte block); %d generated cases of this class" % setblock_hits)
        if f:
            ctx.known_finding("C18-ARENA-SETBLOCK", txt)
        else:
            ctx.violation("C18-ARENA-SETBLOCK", {"what": txt, "request": ["init m0 user=1", "arena w ops=s257,a256", "term m0"]})
    ctx.coverage["input_distribution"]["model_cases"] = {"xmem": sum(1 for _, _, i in hreq if i["kind"] == "xmem"),
                                                         "arena": sum(1 for _, _, i in hreq if i["kind"] == "arena"),
                                                         "arena_setblock_class": setblock_hits}
    ctx.note("model correspondence: %d cases, %d divergences, %.1fs" % (len(hreq), ndiv, time.time() - t1))

    # ---- 3. lifecycle: Initialize/Terminate sequences, each in its own process ----------------------
    t2 = time.time()
    lifecycle(ctx, xh, xm, dflt, 120 if thorough else 18)
    ctx.note("lifecycle: %.1fs" % (time.time() - t2))

    # ---- 3b. scope guards, adopting containers, guarded constructors --------------------------------
    gres = guards_and_containers(ctx, xh, xm, jgen, thorough)

    # ---- 4. witnesses of the known findings (each in its own process) -------------------------------
    witnesses(ctx, xh, xm, dflt)

    if not consts["init"].get("orphan_shape_ok", True) and not ctx.violations:
        ctx.violation("translator", {"what": "GrammarResolver::orphanGrammar no longer has the modelled shape (a grammar handed out must leave "
                                             "its owner) and the exploration found no failing input"}, no_input=True)
    if gres and (gres[0] or gres[1]) and not ctx.violations:
        ctx.violation("guard-obligation", {"what": "a constructor that arms JanitorMemFunCall no longer satisfies the obligation of "
                                                   "T18_ctor_guard_obligations (every member it assigns is released by the guard function and by "
                                                   "the destructor, cleanup.release() last) or Janitor.c lost a modelled statement; the model shows "
                                                   "the exit that leaks / releases twice, the exploration found no input that takes it",
                                           "sites": gres[0][:6], "janitor_shapes_lost": gres[1]}, no_input=True)
    if proof_broken and not ctx.violations:
        ctx.violation("obligation", {"what": "Coq obligation no longer checks and the exploration found no failing input",
                                     "failed": failed, "output": out[-3000:]}, no_input=True)
    ctx.coverage["rule"] = ("every document of a seeded pool (well-formed, malformed, DTD valid/invalid/malformed, entities, "
                            "schema valid/invalid/malformed) x API (SAX1, SAX2, XercesDOMParser, DOMLSParser) x scanner x every "
                            "ending: natural, exception thrown at the k-th handler callback for EVERY k of the run (4 exception "
                            "kinds), parseFirst/parseNext abandoned at EVERY step (3 ways), fresh and reused parsers, DOM document "
                            "lifetimes, grammar pool lifetimes; one trace = events of the case's managers up to the destruction "
                            "of its objects, judged by the extracted ledger_check; non-trivial = trace with at least one event")
    ctx.coverage["exhaustive"] = False
