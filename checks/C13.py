"""C13 -- DOM mutation keeps the tree well-formed and equal to a reference DOM.
Theorems: coq/theories/C13/Properties_C13.v (heap model Model13.v, reference DOM Spec13.v, abstraction Abs13.v;
the kidOK table and the numeric DOM codes are regenerated from /repo by translator/c13_kidok.py).
Correspondence: bin/xh_C13 (an operation-sequence interpreter over real DOM documents, dumping every node through the
public getters and checking the dump for internal consistency without any model) vs bin/xm_C13 (the extracted
model) on the same operation sequences; oracle = the extracted reference DOM (xm_C13 spec / cmp)."""
import itertools
import json
import os
import subprocess
import sys
import time

import vcommon as V

sys.path.insert(0, os.path.join(V.VERIF, "translator"))
import c13_kidok as TK  # noqa


def hx(s):
    return "".join("%02X" % ord(c) for c in s) or "-"


# ---------------------------------------------------------------------------------------------------------------
# witnesses of the defects (replayed first on every run)
# ---------------------------------------------------------------------------------------------------------------
W_SELF = "1 1 ; cr 0 e %s - ; ac 1 1" % hx("a")                                       # F18
W_SELF2 = "1 1 ; cr 0 e %s - ; cr 0 e %s - ; ac 1 2 ; ac 1 1" % (hx("a"), hx("b"))    # F18, target has a child
W_CLONE = "1 1 ; cr 0 e %s - ; cr 0 t - %s ; ac 1 2 ; cl 2 0 ; ac 1 3" % (hx("a"), hx("x"))   # F26
W_FRAGDOC = "1 1 ; cr 0 f - - ; cr 0 e %s - ; cr 0 e %s - ; ac 1 2 ; ac 1 3 ; ac 0 1" % (hx("a"), hx("b"))   # F27
W_STALE = "1 1 ; cr 0 e %s - ; ac 0 1 ; rp 0 1 1 ; cr 0 e %s - ; ac 0 2" % (hx("a"), hx("b"))                 # F28
W_NORM = "1 1 ; cr 0 e %s - ; cr 0 t - - ; ac 1 2 ; nz 1" % hx("a")                                            # F29
WITNESSES = [("F18", W_SELF), ("F18", W_SELF2), ("F26", W_CLONE), ("F27", W_FRAGDOC), ("F28", W_STALE), ("F29", W_NORM)]

NAMES = ["a", "b", "c", "a:b", "x-1", "_q"]
BADNAMES = ["", "1a", "a b", "-x"]
DATA = ["", "x", "xy", " ", " \n", "hello", "a]]>b", "zzzzzzzz"]


def gen_exhaustive(ctx, cases):
    """all sequences up to a length over a fixed 5-node tree (doc0 > e1 > (e2 > t4, t3)), dump after every op"""
    setup = ["cr 0 e %s -" % hx("a"), "cr 0 e %s -" % hx("b"), "cr 0 t - %s" % hx("xy"), "cr 0 t - %s" % hx("z"),
             "ac 0 1", "ac 1 2", "ac 1 3", "ac 2 4"]
    full = []
    full += ["ac %d %d" % (p, c) for p in (0, 1, 2, 3) for c in (1, 2, 3, 4)]
    full += ["ib %d %d %d" % (p, c, r) for p in (1, 2) for c in (1, 2, 3, 4) for r in (2, 3, 4)]
    full += ["rm %d %d" % (p, c) for p in (0, 1, 2) for c in (1, 2, 3, 4)]
    full += ["rp %d %d %d" % (p, n, o) for p in (1, 2) for n in (2, 3, 4) for o in (2, 3, 4) if (p, o) != (2, 2)]
    full += ["cl 1 1", "cl 1 0", "cl 3 0", "cl 4 1", "nz 0", "nz 1", "sp 3 1", "sp 3 3", "sp 4 0",
             "dd 3 0 1", "ad 4 %s" % hx("q"), "id 3 5 %s" % hx("q"), "sd 4 -", "sa 1 %s %s" % (hx("k"), hx("v")),
             "ra 1 %s" % hx("k"), "cr 0 t - -", "cr 0 f - -", "ac 5 3", "ac 1 5", "ib 1 5 3", "ac 0 5", "rp 1 5 2"]
    small = ["ac 1 1", "ac 2 1", "ac 1 4", "ac 2 3", "ac 0 2", "ib 1 3 2", "ib 1 4 3", "ib 2 3 4", "ib 1 2 4", "rm 1 2",
             "rm 1 3", "rm 2 4", "rm 0 1", "rp 1 4 2", "rp 1 3 3", "rp 2 3 4", "cl 1 1", "cl 3 0", "nz 1", "sp 3 1",
             "dd 3 0 5", "sd 4 -", "cr 0 f - -", "cr 0 t - -", "ac 5 3", "ac 5 2", "ac 1 5", "ib 1 5 3", "ac 0 5", "rp 1 5 2"]
    thorough = ctx.tier == "thorough"
    plans = [(full, 2), (small, 3)] if not thorough else [(full, 3), (small, 4)]
    pre = "1 1 ; " + " ; ".join(setup)
    seen = set()
    for alphabet, n in plans:
        for ln in range(0, n + 1):
            for seq in itertools.product(alphabet, repeat=ln):
                if seq in seen:
                    continue
                seen.add(seq)
                cases.append(("exh-%d" % ln, pre + "".join(" ; " + o for o in seq)))


def rand_op(rng):
    r = rng.random
    R = lambda: "%%%d" % rng.randrange(1 << 20)
    k = rng.random()
    if k < 0.16:
        t = rng.choice("eeeettttscpfr")
        nm = rng.choice(NAMES) if r() < 0.93 else rng.choice(BADNAMES)
        return "cr %d %s %s %s" % (rng.randrange(3), t, hx(nm), hx(rng.choice(DATA)))
    if k < 0.34:
        a, b = R(), R()
        if r() < 0.06:
            b = a                                   # self insertion
        return "ac %s %s" % (a, b)
    if k < 0.46:
        a, b = R(), R()
        if r() < 0.05:
            b = a
        return "ib %s %s %s" % (a, b, R() if r() < 0.85 else "-")
    if k < 0.56:
        return "rm %s %s" % (R(), R())
    if k < 0.64:
        a = R()
        return "rp %s %s %s" % (R(), a, a if r() < 0.1 else R())
    if k < 0.69:
        return "cl %s %d" % (R(), rng.randrange(2))
    if k < 0.73:
        return "nz %s" % R()
    if k < 0.77:
        return "sp %s %d" % (R(), rng.randrange(8))
    if k < 0.80:
        return "sd %s %s" % (R(), hx(rng.choice(DATA)))
    if k < 0.83:
        return "ad %s %s" % (R(), hx(rng.choice(DATA)))
    if k < 0.86:
        return "id %s %d %s" % (R(), rng.randrange(8), hx(rng.choice(DATA)))
    if k < 0.89:
        return "dd %s %d %d" % (R(), rng.randrange(8), rng.choice([0, 1, 2, 5, 40]))
    if k < 0.92:
        return "rd %s %d %d %s" % (R(), rng.randrange(8), rng.choice([0, 1, 2, 5, 40]), hx(rng.choice(DATA)))
    if k < 0.94:
        return "ss %s %d %d" % (R(), rng.randrange(8), rng.choice([0, 1, 3, 40]))
    if k < 0.97:
        nm = rng.choice(NAMES) if r() < 0.9 else rng.choice(BADNAMES)
        return "sa %s %s %s" % (R(), hx(nm), hx(rng.choice(DATA)))
    if k < 0.985:
        return "ra %s %s" % (R(), hx(rng.choice(NAMES)))
    return "ga %s %s" % (R(), hx(rng.choice(NAMES)))


def gen_random(ctx, cases):
    rng = ctx.rng
    thorough = ctx.tier == "thorough"
    plan = [(260, 200, 20), (40, 40, 1)] if not thorough else [(5000, 1000, 50), (2000, 40, 1)]
    for count, length, k in plan:
        for _ in range(count):
            # a small seed tree so that structure-changing operations meet structure early
            ops = ["cr 0 e %s -" % hx("r"), "ac 0 3", "cr 0 t - %s" % hx("x"), "ac 3 4", "cr 1 e %s -" % hx("s"), "cr 0 f - -"]
            ops += [rand_op(rng) for _ in range(length)]
            cases.append(("rand-%d" % length, "3 %d ; %s" % (k, " ; ".join(ops))))


def run_bin(binpath, args, lines, timeout=3000):
    p = subprocess.run([binpath] + args, input=("\n".join(lines) + "\n").encode(), stdout=subprocess.PIPE,
                       stderr=subprocess.PIPE, timeout=timeout)
    return p.returncode, p.stdout.decode("ascii", "replace").splitlines(), p.stderr.decode("utf-8", "replace")


def run_impl(ctx, xh, lines):
    """run the harness; when it crashes or hangs on a line, record that line and continue behind it"""
    out = []
    crashes = []
    pos = 0
    while pos < len(lines):
        rc, o, err = run_bin(xh, [], lines[pos:])
        complete = [x for x in o if not x.endswith(" HANG")]
        if rc == 0 and len(o) == len(lines) - pos:
            out += o
            break
        good = len(complete) if rc != 0 else len(o)
        good = min(good, len(lines) - pos - 1) if rc != 0 else good
        out += o[:good]
        crashes.append((pos + good, rc, err[-500:]))
        out.append("CRASH rc=%d" % rc)
        pos += good + 1
        if len(crashes) > 20:
            out += ["CRASH skipped"] * (len(lines) - pos)
            break
    return out, crashes


def first_diff(a, b):
    ta, tb = a.split(" "), b.split(" ")
    for i, (x, y) in enumerate(zip(ta, tb)):
        if x != y:
            return "token %d: impl %s / model %s" % (i, x[:80], y[:80])
    return "length %d / %d" % (len(ta), len(tb))


def nontrivial(ans):
    """a sequence is non-trivial when some operation raised a DOMException and some structural operation succeeded"""
    head = ans.split(" | ")[0]
    return (" e" in " " + head) and (" n" in " " + head)


def run(ctx):
    t0 = time.time()
    ctx.coverage["trusted_base"] = list(V.GLOBAL_TRUSTED_BASE) + [
        "modelled rather than verified: the arena allocator under the nodes and string pooling (strings are values); "
        "Attr nodes (attributes are name/value pairs of their element), DocumentType/Entity/Notation nodes, namespaces, "
        "user data, ranges/iterators notification (C14), importNode/adoptNode/renameNode are not modelled"]
    ctx.assumptions = ["node identity = creation order (nodes are arena allocated and not freed before the document)",
                       "names and data in the generated sequences are 7-bit; XML name validity is modelled on that range",
                       "exceptions are modelled as an error value; the DOMException code is compared"]
    ctx.build_lib()
    try:
        TK.generate()
    except Exception as e:
        ctx.note("translator failed: %r" % (e,))
        ctx.violation("translator", {"what": "translator can no longer read DOMDocumentImpl::isKidOK / the DOM enums",
                                     "error": repr(e)}, no_input=True)
        return
    ok, out, failed = ctx.prove(["Base", "Gen", "C13"],
                                ["theories/C13/Properties_C13.vo", "theories/C13/Extract_C13.vo"],
                                props_file="theories/C13/Properties_C13.v")
    proof_broken = not ok
    if proof_broken:
        ctx.note("proof obligations failed: %s" % failed)
        ctx.note(out[-1500:])
    if not os.path.exists(os.path.join(V.VERIF, "ocaml", "C13", "gen_c13.ml")):
        ctx.violation("obligation", {"what": "model could not be extracted", "output": out[-3000:]}, no_input=True)
        return
    xm = ctx.ocaml("C13", ["gen_c13"])
    xh = ctx.harness("C13")

    # ---- 1. witnesses: which defects does this tree (still) have?  decides the defect switches of the model
    wl = [w for _, w in WITNESSES]
    impl_w, crashes_w = run_impl(ctx, xh, wl)
    models = {m: run_bin(xm, [m], wl)[1] for m in ("m11", "m01", "m10", "m00")}
    spec_w = run_bin(xm, ["spec"], wl)[1]
    heads = lambda line: line.split(" | ")[0]
    # F18 repaired <=> the self insertion is refused (e3) in both witnesses; F26 repaired <=> the whole witness line agrees
    fix_self = heads(impl_w[0]) == heads(models["m11"][0]) and impl_w[1].split(" ")[-1] == "consistent" and \
        impl_w[1] == models["m11"][1]
    fix_clone = impl_w[2] == models["m11"][2]
    mode = "m%d%d" % (fix_self, fix_clone)
    ctx.coverage["defect_switches_detected"] = {"fix_self(F18)": fix_self, "fix_cloneflag(F26)": fix_clone}
    for fid, present, widx, marker, what in (
            ("F18", not fix_self, 0, "INCONSISTENT:own-ancestor", "e.appendChild(e) succeeds: the node becomes its own parent/child "
             "(DOMParentNode::insertBefore starts the ancestor walk at the parent of the target and skips it for a childless "
             "newChild); frag.appendChild(frag) with children never returns"),
            ("F26", not fix_clone, 2, "INCONSISTENT:previousSibling", "the clone of a first child keeps the FIRSTCHILD flag: appended "
             "behind another node its previousSibling is null although it is not the first child (DOMNodeImpl copy constructor "
             "copies the flags)")):
        if not present:
            continue
        if marker not in impl_w[widx] or heads(impl_w[widx]).split(" ")[:2] != heads(models[mode][widx]).split(" ")[:2]:
            continue        # not the modelled defect: reported as divergence below
        if ctx.find_known(fid):
            ctx.known_finding(fid, what + " (witness `%s`)" % wl[widx])
        else:
            ctx.violation(fid, {"request": wl[widx], "impl": impl_w[widx], "model_as_found": models["m00"][widx],
                                "model_repaired": models["m11"][widx], "spec": spec_w[widx], "what": what,
                                "fix": "fixes/C13-insert-self.patch" if fid == "F18" else "fixes/C13-clone-firstchild.patch"})

    # ---- 2. cases
    cases = []
    if ctx.replay:
        r = json.load(open(ctx.replay))
        cases = [("replay", r["request"])]
    else:
        cases += [("witness-" + f, w) for f, w in WITNESSES]
        gen_exhaustive(ctx, cases)
        gen_random(ctx, cases)
    lines = [c[1] for c in cases]
    impl, crashes = run_impl(ctx, xh, lines)
    rc2, model, err2 = run_bin(xm, [mode], lines)
    if rc2 != 0 or len(model) != len(lines):
        ctx.violation("model-crash", {"what": "model driver crashed", "stderr": err2[-2000:]}, no_input=True)
        return
    model11 = model if mode == "m11" else run_bin(xm, ["m11"], lines)[1]
    affected = set(k for k in range(len(lines)) if model[k] != model11[k])      # touched by a defect reported above
    ncr = 0
    for pos, rc, err in crashes:
        if pos in affected:
            continue
        ncr += 1
        if ncr <= 3:
            ctx.violation("harness-crash", {"what": "the library crashed or hung while executing this operation sequence",
                                            "rc": rc, "stderr": err, "request": lines[pos], "model": model[pos][:2000]})
    # ---- 3. impl vs model
    kinds = {}
    divergences = []
    opcount = 0
    excs = 0
    kinds_seen = []
    for cur_index, ((kind, req), i, m) in enumerate(zip(cases, impl, model)):
        ctx.count()
        kinds[kind] = kinds.get(kind, 0) + 1
        head = i.split(" | ")[0].split(" ")
        opcount += len(head)
        excs += sum(1 for t in head if t.startswith("e"))
        if nontrivial(i):
            ctx.distinct(req)
        if i != m and not i.startswith("CRASH"):
            k = len(kinds_seen)
            if cur_index in affected and ("INCONSISTENT" in i):
                # the harness stops a sequence at the first inconsistent dump; everything before it must agree
                cut = i.index("INCONSISTENT")
                ntok = len(i[:cut].split(" ")) - 1
                if i.split(" ")[:ntok] == m.split(" ")[:ntok]:
                    continue
            divergences.append((kind, req, i, m))
    ctx.coverage["traces_validated_against_impl"] = len(lines)
    ctx.coverage["input_distribution"] = dict(kinds, operations=opcount, operations_raising_DOMException=excs,
                                              inconsistent_dumps=sum(1 for i in impl if "INCONSISTENT" in i))
    for k in (0, len(cases) // 2, len(cases) - 1):
        ctx.sample({"kind": cases[k][0], "request": cases[k][1][:400], "impl": impl[k][:400], "model": model[k][:400]})
    # ---- 4. the Spec oracle
    #  (a) on every divergence: the reference DOM's own answer against the implementation's
    viol = 0
    unexplained = []
    if divergences:
        dl = [d[1] for d in divergences[:300]]
        spec_d = run_bin(xm, ["spec"], dl)[1]
        for (kind, req, i, m), s in zip(divergences[:300], spec_d):
            if i != s:
                viol += 1
                if viol <= 5:
                    ctx.violation("divergence", {"request": req, "impl": i[:6000], "model": m[:6000], "spec": s[:6000],
                                                 "kind": kind, "first_difference": first_diff(i, m),
                                                 "what": "implementation differs from the model and from the reference DOM"
                                                         + ("; the dump is internally inconsistent" if "INCONSISTENT" in i else "")})
            else:
                unexplained.append((kind, req, i, m))
    if unexplained and not viol:
        kind, req, i, m = unexplained[0]
        ctx.violation("correspondence", {"what": "model and implementation differ while the implementation agrees with the "
                                         "reference DOM: correspondence xh_C13~xm_C13 no longer checks", "request": req,
                                         "impl": i[:3000], "model": m[:3000], "count": len(unexplained)}, no_input=True)
    #  (b) on all agreeing cases: model (as the tree is) against the reference DOM in lock step; abs(heap) = store after
    #      every operation, the dumps whenever the harness dumps.  impl = model there, so this judges the implementation.
    agree_idx = [k for k in range(len(cases)) if impl[k] == model[k] and k not in affected]
    cmp_out = run_bin(xm, ["cmp11"], [lines[k] for k in agree_idx])[1]
    classes = {}
    spec_viol = 0
    for k, c in zip(agree_idx, cmp_out):
        if c == "agree":
            continue
        f = dict(x.split("=", 1) for x in c.split(" ")[3:] if "=" in x)
        opn = c.split(" ")[2]
        cls = None
        if opn in ("ac", "ib", "rp") and f.get("types") == "9/11" and f.get("model") == "e3" and f.get("unchanged") == "false":
            cls = "F27"
        elif opn == "nz":
            cls = "F29"
        elif f.get("stale_docel") == "true" and opn in ("ac", "ib", "rp") and f.get("types", "").startswith("9/"):
            cls = "F28"
        if cls is None or (cls.startswith("F") and not ctx.find_known(cls)):
            spec_viol += 1
            if spec_viol <= 5:
                ctx.violation("spec", {"request": lines[k], "impl": impl[k][:6000], "verdict": c,
                                       "what": "implementation and model agree but the reference DOM differs (a defect the "
                                               "model mirrors and no known finding explains)"})
            continue
        classes.setdefault(cls, []).append(k)
    ctx.coverage["spec_oracle_checked"] = len(agree_idx) + len(divergences[:300])
    ctx.coverage["spec_oracle_attributed"] = {c: len(v) for c, v in classes.items()}
    ctx.coverage["sequences_affected_by_reported_unfixed_defects"] = len(affected)
    texts = {
        "F27": "a DocumentFragment holding an element is moved into a Document child by child: when a second root element is "
               "met HIERARCHY_REQUEST_ERR is raised after earlier children were already moved (exception AND changed tree)",
        "F28": "Document.replaceChild(root, root) removes the root but leaves the cached documentElement pointing at it: the "
               "document then refuses every new root element with HIERARCHY_REQUEST_ERR",
        "F29": "normalize() merges adjacent Text nodes but does not remove empty Text nodes (DOM Core Node.normalize)",
    }
    widx = {f: n for n, (f, _) in enumerate(WITNESSES)}
    for fid, ks in sorted(classes.items()):
        if fid in texts:
            wk = widx[fid] if not ctx.replay else None
            reproduced = wk is not None and wk in ks
            ctx.known_finding(fid, texts[fid] + " (witness `%s`%s; %d generated sequences of this class)" % (
                WITNESSES[widx[fid]][1], "" if reproduced or ctx.replay else " NOT reproduced", len(ks)))
    if proof_broken and not ctx.violations:
        ctx.violation("obligation", {"what": "Coq obligation no longer checks and no failing input was found by the "
                                     "correspondence sweeps", "failed": failed, "output": out[-3000:]}, no_input=True)
    elif proof_broken:
        ctx.note("proof obligation failed; a concrete failing input was found by the correspondence")
    ctx.coverage["rule"] = ("operation sequences over pools of live nodes of 1-3 documents: exhaustive sequences over a 5-node "
                            "tree (quick: length<=2 over 88 operations and length<=3 over 30; thorough: 3 and 4) with a dump after "
                            "every operation, random sequences (quick 260x200 ops + 40x40; thorough 5000x1000 + 2000x40) with operands "
                            "drawn uniformly from ALL live nodes (cross-document, fragments, self/ancestor insertions, out-of-range "
                            "offsets, invalid names); every line compared with the extracted model token by token (exception codes "
                            "and full structural dumps), every agreeing line replayed against the reference DOM in lock step; "
                            "a sequence counts as non-trivial when it contains a raised DOMException and a successful structural "
                            "operation; distinct by request text")
    ctx.coverage["exhaustive"] = False
    ctx.note("correspondence: %d sequences, %d operations (%d raising), %d divergences, model mode %s, %.1fs" % (
        len(lines), opcount, excs, len(divergences), mode, time.time() - t0))
