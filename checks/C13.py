"""C13 -- DOM mutation keeps the tree well-formed and equal to a reference DOM.
Theorems: coq/theories/C13/Properties_C13.v (heap model Model13.v, reference DOM Spec13.v, abstraction Abs13.v;
the kidOK table and the numeric DOM codes are regenerated from /repo by translator/c13_kidok.py).
Correspondence: bin/xh_C13 (an operation-sequence interpreter over real DOM documents, dumping every node through the
public getters and checking the dump for internal consistency without any model) vs bin/xm_C13 (the extracted
model) on the same operation sequences; oracle = the extracted reference DOM (xm_C13 spec / cmp)."""
import itertools
import json
import os
import re
import subprocess
import sys
import time

import vcommon as V

sys.path.insert(0, os.path.join(V.VERIF, "translator"))
import c13_kidok as TK  # noqa
import c14_idmap as TI  # noqa  (DOMNodeIDMap sizes and the XMLString::hash constants, shared with C14)


def hx(s):
    return "".join("%02X" % ord(c) for c in s) or "-"


# ---------------------------------------------------------------------------------------------------------------
# witnesses of the defects (replayed first on every run)
# ---------------------------------------------------------------------------------------------------------------
W_SELF = "1 1 ; cr 0 e %s - ; ac 1 1" % hx("a")                                       # F18
W_SELF2 = "1 1 ; cr 0 e %s - ; cr 0 e %s - ; ac 1 2 ; ac 1 1" % (hx("a"), hx("b"))    # F18, target has a child
W_CLONE = "1 1 ; cr 0 e %s - ; cr 0 t - %s ; ac 1 2 ; cl 2 0 ; ac 1 3" % (hx("a"), hx("x"))   # F26
W_FRAGDOC = "1 1 ; cr 0 f - - ; cr 0 e %s - ; cr 0 e %s - ; ac 1 2 ; ac 1 3 ; ac 0 1" % (hx("a"), hx("b"))   # F27
W_STALE = "1 1 ; cr 0 e %s - ; ac 0 1 ; rp 0 1 1 ; cr 0 e %s - ; ac 0 2" % (hx("a"), hx("b"))                 # F28
W_NORM = "1 1 ; cr 0 e %s - ; cr 0 t - - ; ac 1 2 ; nz 1" % hx("a")                                            # F29
W_OWNATTR = "1 1 ; cr 0 e %s - ; sa 1 %s %s ; sn 1 2" % (hx("e"), hx("k"), hx("v"))                        # F33
W_IDREPL = "1 1 ; cr 0 e %s - ; cr 0 e %s - ; sa 1 %s %s ; sa 2 %s %s ; si 1 %s 1 ; si 2 %s 1 ; cr 0 a %s - ; sn 1 7 ; gi 0 %s" % (
    hx("a"), hx("b"), hx("id"), hx("dup"), hx("id"), hx("dup"), hx("id"), hx("id"), hx("id"), hx("dup"))            # F36
W_IDNODE = "1 1 ; cr 0 e %s - ; cr 0 e %s - ; sa 1 %s %s ; sa 2 %s %s ; sin 1 5 1" % (hx("a"), hx("b"), hx("id"), hx("x"), hx("id"), hx("y"))   # F37
W_IDHASH = "1 1 ; cr 0 e %s - ; sa 1 %s %s ; si 1 %s 1 ; sd 3 %s ; gi 0 %s" % (hx("a"), hx("id"), hx("x"), hx("id"), hx("y"), hx("y"))          # F38
W_RELID = "1 0 ; cr 0 e %s - ; cr 0 e %s - ; sa 1 %s %s ; sa 2 %s %s ; si 1 %s 1 ; si 2 %s 1 ; rlx 1 ; gi 0 %s" % (
    hx("a"), hx("b"), hx("id"), hx("dup"), hx("id"), hx("dup"), hx("id"), hx("id"), hx("dup"))                      # F35 (own process)
W_RNAME = "1 1 ; cr 0 e %s - ; rn 0 1 - %s" % (hx("a"), hx("1a"))                                            # F30
W_RNSET = "1 1 ; cr 0 e %s - ; rn 0 1 %s %s ; rn 0 2 %s %s" % (hx("a"), hx("u"), hx("p:b"), hx("u"), hx("q:"))   # F31
WITNESSES = [("F18", W_SELF), ("F18", W_SELF2), ("F26", W_CLONE), ("F27", W_FRAGDOC), ("F28", W_STALE), ("F29", W_NORM),
             ("F30", W_RNAME), ("F31", W_RNSET), ("F33", W_OWNATTR),
             ("F36", W_IDREPL), ("F37", W_IDNODE), ("F38", W_IDHASH)]

NAMES = ["a", "b", "c", "a:b", "x-1", "_q"]
QNAMES = ["a", "b", "p:b2", "q:c", "xml:a", "xmlns", "xmlns:p", "a:b:c", ":a", "p:", "1a", "p:1", "", "a b"]
XML_URI = "http://www.w3.org/XML/1998/namespace"
XMLNS_URI = "http://www.w3.org/2000/xmlns/"
NSS = ["", "", "u", "u", "urn:x", XML_URI, XMLNS_URI]
BADNAMES = ["", "1a", "a b", "-x"]
DATA = ["", "x", "xy", " ", " \n", "hello", "a]]>b", "zzzzzzzz"]


def gen_exhaustive(ctx, cases):
    """all sequences up to a length over a fixed 5-node tree (doc0 > e1 > (e2 > t4, t3)), dump after every op"""
    setup = ["cr 0 e %s -" % hx("a"), "cr 0 e %s -" % hx("b"), "cr 0 t - %s" % hx("xy"), "cr 0 t - %s" % hx("z"),
             "ac 0 1", "ac 1 2", "ac 1 3", "ac 2 4"]
    full = []
    full += ["ac %d %d" % (p, c) for p in (0, 1, 2, 3) for c in (1, 2, 3, 4)]
    full += ["ib %d %d %d" % (p, c, r) for p in (1, 2) for c in (1, 2, 3, 4) for r in (2, 3, 4)]
    full += ["rm %d %d" % (p, c) for p in (0, 1, 2) for c in (1, 2, 3, 4)]
    full += ["rp %d %d %d" % (p, n, o) for p in (1, 2) for n in (2, 3, 4) for o in (2, 3, 4) if (p, o) != (2, 2)]
    full += ["cl 1 1", "cl 1 0", "cl 3 0", "cl 4 1", "nz 0", "nz 1", "sp 3 1", "sp 3 3", "sp 4 0",
             "dd 3 0 1", "ad 4 %s" % hx("q"), "id 3 5 %s" % hx("q"), "sd 4 -", "sa 1 %s %s" % (hx("k"), hx("v")),
             "ra 1 %s" % hx("k"), "cr 0 t - -", "cr 0 f - -", "ac 5 3", "ac 1 5", "ib 1 5 3", "ac 0 5", "rp 1 5 2"]
    small = ["ac 1 1", "ac 2 1", "ac 1 4", "ac 2 3", "ac 0 2", "ib 1 3 2", "ib 1 4 3", "ib 2 3 4", "ib 1 2 4", "rm 1 2",
             "rm 1 3", "rm 2 4", "rm 0 1", "rp 1 4 2", "rp 1 3 3", "rp 2 3 4", "cl 1 1", "cl 3 0", "nz 1", "sp 3 1",
             "dd 3 0 5", "sd 4 -", "cr 0 f - -", "cr 0 t - -", "ac 5 3", "ac 5 2", "ac 1 5", "ib 1 5 3", "ac 0 5", "rp 1 5 2"]
    thorough = ctx.tier == "thorough"
    plans = [(full, 2), (small, 3)] if not thorough else [(full, 3), (small, 4)]
    pre = "1 1 ; " + " ; ".join(setup)
    seen = set()
    for alphabet, n in plans:
        for ln in range(0, n + 1):
            for seq in itertools.product(alphabet, repeat=ln):
                if seq in seen:
                    continue
                seen.add(seq)
                cases.append(("exh-%d" % ln, pre + "".join(" ; " + o for o in seq)))


def gen_fragments(ctx, cases):
    """DocumentFragments whose children are legal / illegal for the target at every position, inserted by
    appendChild / insertBefore / replaceChild into a Document (empty, with a root), an Attr, an Element and a Text"""
    kinds = {"E": "cr 0 e %s -" % hx("k"), "T": "cr 0 t - %s" % hx("hello"), "W": "cr 0 t - %s" % hx(" "),
             "C": "cr 0 c - %s" % hx("c"), "P": "cr 0 p %s %s" % (hx("pi"), hx("d")), "S": "cr 0 s - %s" % hx("cd"),
             "R": "cr 0 r %s -" % hx("er"), "A": "cr 0 a %s -" % hx("at"), "F": "cr 0 f - -"}
    thorough = ctx.tier == "thorough"
    maxlen = 3 if not thorough else 4
    # fixed prefix: 1 = root element e1 (in doc 0), 2 = comment child of doc 0, 3 = attr with a text child 4,
    # 5 = detached element with child 6, 7 = text, 8 = the fragment; doc 1 is empty
    pre = ["cr 0 e %s -" % hx("root"), "cr 0 c - %s" % hx("c0"), "cr 0 a %s -" % hx("at"), "cr 0 t - %s" % hx("v"),
           "cr 0 e %s -" % hx("d"), "cr 0 c - %s" % hx("c1"), "cr 0 t - %s" % hx("leaf"), "cr 0 f - -",
           "ac 0 1", "ac 0 2", "ac 3 4", "ac 5 6"]
    # fragment for the empty document 1 must be created by document 1
    alphabet = "ETWCPSR" if not thorough else "ETWCPSRAF"
    for n in range(1, maxlen + 1):
        for combo in itertools.product(alphabet, repeat=n):
            for target, ref in ((0, 2), (3, 4), (5, 6), (7, None), (1, None)):
                ops = list(pre)
                for k in combo:
                    ops.append(kinds[k])
                ops += ["ac 8 %d" % (9 + i) for i in range(n)]
                for meth in ("ac", "ib", "rp"):
                    if meth != "ac" and ref is None:
                        continue
                    last = "ac %d 8" % target if meth == "ac" else "%s %d 8 %d" % (meth, target, ref)
                    cases.append(("frag-%s-%d" % (meth, target), "2 0 ; " + " ; ".join(ops + [last])))
            # the same fragment built in document 1 and appended to the empty document 1
            ops = ["cr 1 f - -"] + [kinds[k].replace("cr 0", "cr 1") for k in combo] + ["ac 2 %d" % (3 + i) for i in range(n)] + ["ac 1 2"]
            cases.append(("frag-ac-emptydoc", "2 0 ; " + " ; ".join(ops)))


def big_counts(length, offset):
    r = length - offset
    vals = [0, 1, r - 1, r, r + 1, length, length + 100, 4095, 4096, 5000, 2 ** 32 - 1, 2 ** 32, 2 ** 63,
            2 ** 64 - offset - 1, 2 ** 64 - offset, 2 ** 64 - 1]
    return sorted(set(v for v in vals if 0 <= v < 2 ** 64))


def gen_counts(ctx, cases):
    """character data offsets/counts around the end of the data and around the XMLSize_t wrap-around"""
    for data in ("abcdef", "", "x"):
        L = len(data)
        for off in sorted(set([0, 1, L // 2, L - 1, L, L + 1, 2 ** 32, 2 ** 64 - 1])):
            if off < 0:
                continue
            for cnt in big_counts(L, min(off, L)):
                for t in ("t", "c", "s"):
                    pre = "1 1 ; cr 0 %s - %s" % (t, hx(data))
                    cases.append(("count-dd", pre + " ; dd 1 %d %d" % (off, cnt)))
                    cases.append(("count-rd", pre + " ; rd 1 %d %d %s" % (off, cnt, hx("ZZ"))))
                    cases.append(("count-ss", pre + " ; ss 1 %d %d ; dd 1 0 0" % (off, cnt)))
            for t in ("t", "s"):
                pre = "1 1 ; cr 0 e %s - ; cr 0 %s - %s ; ac 1 2" % (hx("e"), t, hx(data))
                cases.append(("count-sp", pre + " ; sp 2 %d" % off))
                cases.append(("count-id", pre + " ; id 2 %d %s" % (off, hx("Q"))))


def gen_rename(ctx, cases):
    """renameNode of elements (first / middle / last / only child, root, detached; with children and attributes) and
    of detached attributes, namespace null / non-null, legal and illegal qualified names, twice in a row"""
    pre = ["cr 0 e %s -" % hx("r"), "ac 0 2", "cr 0 e %s -" % hx("a"), "cr 0 e %s -" % hx("b"), "cr 0 e %s -" % hx("c"),
           "ac 2 3", "ac 2 4", "ac 2 5", "cr 0 t - %s" % hx("x"), "cr 0 c - %s" % hx("y"), "ac 4 6", "ac 4 7",
           "sa 4 %s %s" % (hx("k"), hx("v")), "sa 4 %s %s" % (hx("j"), hx("w")), "cr 0 e %s -" % hx("det"),
           "cr 0 a %s -" % hx("at"), "cr 0 t - %s" % hx("av"), "ac 9 10", "cr 1 e %s -" % hx("other")]
    # nodes: 2 root, 3/4/5 first/middle/last children of 2, 4 has children 6,7 and attributes, 8 detached, 9 attr(10), 11 other doc
    targets = [2, 3, 4, 5, 8, 9, 11, 6, 0]
    thorough = ctx.tier == "thorough"
    for n in targets:
        for ns in ["", "u", XML_URI, XMLNS_URI]:
            for q in QNAMES:
                cases.append(("rename-1", "2 0 ; " + " ; ".join(pre + ["rn 0 %d %s %s" % (n, hx(ns), hx(q))])))
                if q in ("p:b2", "a") and ns in ("u", ""):
                    # rename the result again (it may be the new node 12), and mutate around it
                    for ns2 in ["", "u"]:
                        for q2 in (QNAMES if thorough else ["b", "p:z", "q:", "1a", "xml:a"]):
                            for who in (n, 12):
                                cases.append(("rename-2", "2 0 ; " + " ; ".join(
                                    pre + ["rn 0 %d %s %s" % (n, hx(ns), hx(q)), "rn 0 %d %s %s" % (who, hx(ns2), hx(q2)),
                                           "ac 2 %d" % n, "rm 2 4"])))


def gen_attrs(ctx, cases):
    """attribute NODES: setAttributeNode / removeAttributeNode / getAttributeNode / setAttribute / removeAttribute / clone /
    value edits with operands drawn from ALL attributes (of this element, of another element with the SAME name,
    detached with the same name, another name, another document), all ordered pairs of operations"""
    pre = ["cr 0 e %s -" % hx("e1"), "cr 0 e %s -" % hx("e2"), "cr 1 e %s -" % hx("e3"),
           "sa 2 %s %s" % (hx("k"), hx("v")), "sa 3 %s %s" % (hx("k"), hx("w")), "sa 2 %s %s" % (hx("j"), hx("x")),
           "cr 0 a %s -" % hx("k"), "cr 0 a %s -" % hx("z"), "sa 4 %s %s" % (hx("k"), hx("y")), "cr 1 a %s -" % hx("k")]
    # 2,3 elements of document 0; 4 element of document 1; attributes 5(k on 2) 7(k on 3) 9(j on 2) 11(k detached)
    # 12(z detached) 13(k on 4, document 1) 15(k detached, document 1); 6,8,10,14 their Text children
    elems, attrs = [2, 3, 4], [5, 7, 9, 11, 12, 13, 15]
    ops = ["%s %d %d" % (o, e, a) for o in ("sn", "xn") for e in elems for a in attrs]
    ops += ["ra 2 %s" % hx("k"), "ra 3 %s" % hx("k"), "sa 2 %s %s" % (hx("k"), hx("new")), "sa 3 %s %s" % (hx("q"), hx("new")),
            "gn 2 %s" % hx("k"), "gn 3 %s" % hx("z"), "cl 2 1", "cl 2 0", "cl 5 0", "sd 5 %s" % hx("q"), "sd 11 %s" % hx("q"),
            "ga 2 %s" % hx("k"), "sn 2 6", "xn 5 5", "ac 5 8", "rn 0 5 %s %s" % (hx("u"), hx("p:k")), "rn 0 2 %s %s" % (hx("u"), hx("p:e"))]
    thorough = ctx.tier == "thorough"
    head = "2 0 ; " + " ; ".join(pre)
    for a in ops:
        cases.append(("attr-1", head + " ; " + a))
        for b in ops:
            cases.append(("attr-2", head + " ; " + a + " ; " + b))
            if thorough:
                for c in ops[::5]:
                    cases.append(("attr-3", head + " ; " + a + " ; " + b + " ; " + c))




def gen_rename_attached(ctx, cases):
    """renameNode of an attribute that is ON an element which holds other attributes (Level-1 and namespace-aware ones), onto
    names the element already uses / does not use, every namespace: the put-back through setAttributeNode / setAttributeNodeNS.
    The class 'another attribute has the new nodeName under a different (namespaceURI, localName) key, or the same key under a
    different nodeName' is NOT modelled (setAttributeNodeNS semantics): harness and model skip exactly those calls (`skip`)."""
    pre = ["cr 0 e %s -" % hx("el"), "sa 1 %s %s" % (hx("a"), hx("v")), "sa 1 %s %s" % (hx("b"), hx("v")),
           "sa 1 %s %s" % (hx("x-1"), hx("v")), "sa 1 %s %s" % (hx("p:c"), hx("v")),
           "rn 0 8 %s %s" % (hx("u"), hx("p:c"))]                       # attributes 2 a, 4 b, 6 x-1, 10 p:c in namespace u
    head = "1 1 ; " + " ; ".join(pre)
    names = ["a", "b", "c", "p:b", "q:c", "p:c", "xml:a", "xmlns", "xmlns:p", "1a", "p:"]
    for t in (2, 6, 10):
        for ns in ["", "u", "w", XML_URI, XMLNS_URI]:
            for q in names:
                first = "rn 0 %d %s %s" % (t, hx(ns), hx(q))
                cases.append(("rename-attached", head + " ; " + first + " ; fp 1 %s ; gn 1 %s" % (hx(q), hx(q))))
                if ctx.tier == "thorough" or ctx.rng.random() < 0.3:
                    ns2, q2 = ctx.rng.choice(["", "u", "w"]), ctx.rng.choice(names)
                    cases.append(("rename-attached", head + " ; " + first + " ; rn 0 %%7 %s %s ; rn 0 4 %s %s ; gn 1 %s" % (
                        hx(ns2), hx(q2), hx(ns), hx(q), hx(q2))))

AM_NAMES = ["a", "aa", "ab", "b", "b-", "ba", "c", "c.d", "d", "e", "x:y", "z"]
AM_PROBES = AM_NAMES + ["A", "a0", "az", "b.", "bz", "aaa", "zz", "_", "d-"]


def gen_attrmap(ctx, cases):
    """DOMAttrMapImpl's name-sorted vector: elements receive 0..12 attributes in a random order (setAttribute and
    createAttribute + setAttributeNode), some are removed / replaced again; after every update DOMAttrMapImpl::findNamePoint
    itself is asked (query `fp`) for present and absent names -- before the first, between two, after the last entry, prefixes
    and extensions of entries -- and getAttributeNode for every name; the final dump compares the order of the vector"""
    rng = ctx.rng
    thorough = ctx.tier == "thorough"
    for size in range(0, len(AM_NAMES) + 1):
        for rep in range((40 if thorough else 6) if size > 1 else 1):
            names = rng.sample(AM_NAMES, size)
            ops = ["cr 0 e %s -" % hx("el")]
            nxt = 2                                    # next node number
            present = []
            for nm in names:
                if rng.random() < 0.5:
                    ops.append("sa 1 %s %s" % (hx(nm), hx("v")))
                    nxt += 2                           # the Attr and its Text child
                else:
                    ops.append("cr 0 a %s -" % hx(nm))
                    ops.append("sn 1 %d" % nxt)
                    nxt += 1
                present.append(nm)
                probes = AM_PROBES if len(present) == size else rng.sample(AM_PROBES, 4) + [nm]
                ops += ["fp 1 %s" % hx(q) for q in probes]
            ops += ["gn 1 %s" % hx(q) for q in AM_NAMES]
            # removals, a replacement of a present name and a re-insertion, each followed by probes
            for nm in rng.sample(present, min(len(present), 3)):
                ops.append("ra 1 %s" % hx(nm) if rng.random() < 0.5 else "si 1 %s 0" % hx(nm))
                if ops[-1].startswith("ra"):
                    present.remove(nm)
                ops += ["fp 1 %s" % hx(q) for q in rng.sample(AM_PROBES, 5) + [nm]]
            if present:
                nm = rng.choice(present)
                ops += ["cr 0 a %s -" % hx(nm), "sn 1 %d" % nxt]
                nxt += 1
                ops += ["fp 1 %s" % hx(q) for q in AM_PROBES]
            cases.append(("attrmap-%d" % min(size, 9), "1 0 ; " + " ; ".join(ops)))

UKEYS = [hx("k1"), hx("k2"), hx("k3")]


def gen_userdata(ctx, cases):
    """user data life cycle: setUserData (with / without handler, one or several keys) on every node type, release() of
    the detached node or of a subtree, then creation of nodes of the same types (the released objects are recycled) and
    setUserData / getUserData on the NEW nodes; a dump (getUserData for every live node and key) after every operation"""
    types = {"e": "cr 0 e %s -" % hx("n"), "t": "cr 0 t - %s" % hx("x"), "c": "cr 0 c - %s" % hx("x"), "s": "cr 0 s - %s" % hx("x"),
             "p": "cr 0 p %s %s" % (hx("pi"), hx("d")), "f": "cr 0 f - -", "r": "cr 0 r %s -" % hx("er"), "a": "cr 0 a %s -" % hx("at")}
    for t, mk in types.items():
        for sets in (["su 1 %s 5 0" % UKEYS[0]], ["su 1 %s 5 1" % UKEYS[0]],
                     ["su 1 %s 5 0" % UKEYS[0], "su 1 %s 6 0" % UKEYS[1]],
                     ["su 1 %s 5 0" % UKEYS[0], "su 1 %s 6 1" % UKEYS[1]],
                     ["su 1 %s 5 1" % UKEYS[0], "su 1 %s 6 1" % UKEYS[1], "su 1 %s 0 0" % UKEYS[0]]):
            for after in (["su 2 %s 9 0" % UKEYS[2], "gu 2 %s" % UKEYS[0], "su 2 %s 8 0" % UKEYS[0], "su 2 %s 0 0" % UKEYS[1]],
                          ["gu 2 %s" % UKEYS[0], "su 2 %s 7 1" % UKEYS[0], "cl 2 0", "rl 2", mk, "su 4 %s 1 0" % UKEYS[1]],
                          ["su 2 %s 0 0" % UKEYS[0], "su 2 %s 3 0" % UKEYS[1], "gu 2 %s" % UKEYS[0]]):
                cases.append(("udata-1", "1 1 ; " + " ; ".join([mk] + sets + ["rl 1", mk] + after)))
    # a subtree with attributes: every node carries user data; detach, release, re-create nodes of all the types
    pre = ["cr 0 e %s -" % hx("r"), "ac 0 1", "cr 0 e %s -" % hx("a"), "ac 1 2", "cr 0 t - %s" % hx("x"), "ac 2 3",
           "cr 0 c - %s" % hx("y"), "ac 2 4", "sa 2 %s %s" % (hx("k"), hx("v"))]           # 5 attr, 6 its text
    for h in (0, 1):
        for tgt in (1, 2):
            ops = list(pre) + ["su %d %s %d %d" % (n, UKEYS[n % 3], n + 1, h if n % 2 else 0) for n in (1, 2, 3, 4, 5, 6)]
            ops += ["rl %d" % tgt, "rm %d %d" % ((0, 1)[tgt - 1], tgt), "rl %d" % tgt]
            ops += ["cr 0 e %s -" % hx("n"), "cr 0 t - %s" % hx("n"), "cr 0 c - %s" % hx("n"), "cr 0 a %s -" % hx("n"),
                    "cr 0 e %s -" % hx("m"), "cr 0 t - %s" % hx("m")]
            ops += ["su %d %s 9 0" % (n, UKEYS[2]) for n in range(7, 13)] + ["gu %d %s" % (n, UKEYS[k]) for n in range(7, 13) for k in (0, 1)]
            cases.append(("udata-tree", "1 1 ; " + " ; ".join(ops)))
    # rename into a namespace moves the user data to the new node; clone does not copy it
    cases.append(("udata-rename", "1 1 ; cr 0 e %s - ; su 1 %s 5 1 ; su 1 %s 6 0 ; rn 0 1 %s %s ; cl 2 1 ; rl 1 ; cr 0 e %s - ; su 4 %s 1 0"
                  % (hx("a"), UKEYS[0], UKEYS[1], hx("u"), hx("p:b"), hx("z"), UKEYS[2])))


def gen_ids(ctx, cases, rlx_ok):
    """ID bookkeeping with DUPLICATE ID values: three elements carry an ID attribute with the same value (every registration
    order), ONE of them is un-registered by each route, then getElementById for that value, another value and a missing one"""
    dup, other = hx("dup"), hx("other")
    pre = ["cr 0 e %s -" % hx("root"), "ac 0 1", "cr 0 e %s -" % hx("a"), "cr 0 e %s -" % hx("b"), "cr 0 e %s -" % hx("c"),
           "ac 1 2", "ac 1 3", "ac 1 4", "cr 0 e %s -" % hx("d"), "ac 1 5",
           "sa 2 %s %s" % (hx("id"), dup), "sa 3 %s %s" % (hx("id"), dup), "sa 4 %s %s" % (hx("id"), dup),
           "sa 5 %s %s" % (hx("id"), other), "cr 0 a %s -" % hx("id")]
    # attrs: 6 (on 2), 8 (on 3), 10 (on 4), 12 (on 5), 14 detached; texts 7 9 11 13
    attr_of = {2: 6, 3: 8, 4: 10, 5: 12}
    look = ["gi 0 %s" % dup, "gi 0 %s" % other, "gi 0 %s" % hx("zz")]
    routes = {
        "xn": lambda e: ["xn %d %d" % (e, attr_of[e])],
        "ra": lambda e: ["ra %d %s" % (e, hx("id"))],
        "si0": lambda e: ["si %d %s 0" % (e, hx("id"))],
        "sin0": lambda e: ["sin %d %d 0" % (e, attr_of[e])],
        "setvalue": lambda e: ["sa %d %s %s" % (e, hx("id"), hx("changed"))],
        "setnodevalue": lambda e: ["sd %d %s" % (attr_of[e], hx("changed"))],
        "replace": lambda e: ["sn %d 14" % e],
        "release": lambda e: ["rm 1 %d" % e, ("rlx %d" if rlx_ok else "rl %d") % e],
        "rename": lambda e: ["rn 0 %d - %s" % (attr_of[e], hx("idx"))],
    }
    for order in itertools.permutations((2, 3, 4)):
        reg = ["si %d %s 1" % (e, hx("id")) for e in order] + ["si 5 %s 1" % hx("id")]
        for e in (2, 3, 4):
            for name, r in routes.items():
                cases.append(("ids-1-" + name, "1 1 ; " + " ; ".join(pre + reg + look[:1] + r(e) + look)))
                for e2 in (2, 3, 4):
                    if e2 != e and name in ("xn", "si0", "setvalue", "release"):
                        for name2 in ("xn", "ra", "si0", "setvalue"):
                            cases.append(("ids-2", "1 0 ; " + " ; ".join(pre + reg + r(e) + look[:1] + routes[name2](e2) + look)))
    # re-registration, ID attributes whose value is edited through their children, clones of elements with ID attributes
    for extra in (["si 2 %s 1" % hx("id"), "si 2 %s 0" % hx("id"), "si 2 %s 1" % hx("id")] + look,
                  ["si 2 %s 1" % hx("id"), "sd 7 %s" % other] + look, ["si 2 %s 1" % hx("id"), "cl 2 1"] + look + ["rm 1 2"] + look,
                  ["si 2 %s 1" % hx("id"), "sin 3 6 1", "sin 3 14 1", "sin 3 8 1"] + look):
        cases.append(("ids-misc", "1 1 ; " + " ; ".join(pre + extra)))


def rand_op(rng):
    r = rng.random
    R = lambda: "%%%d" % rng.randrange(1 << 20)
    k = rng.random()
    if k < 0.03:
        o = rng.choice(["su", "su", "gu", "rl", "rl", "si", "sin", "gi"])
        if o == "su":
            return "su %s %s %d %d" % (R(), rng.choice(UKEYS), rng.choice([0, 1, 2, 3]), rng.randrange(2))
        if o == "gu":
            return "gu %s %s" % (R(), rng.choice(UKEYS))
        if o == "rl":
            return "rl %s" % R()
        if o == "si":
            return "si %s %s %d" % (R(), hx(rng.choice(NAMES)), rng.randrange(2))
        if o == "sin":
            return "sin %s %s %d" % (R(), R(), rng.randrange(2))
        return "gi %d %s" % (rng.randrange(3), hx(rng.choice(DATA)))
    if k < 0.07:
        o = rng.choice(["sn", "sn", "xn", "xn", "gn"])
        return "gn %s %s" % (R(), hx(rng.choice(NAMES))) if o == "gn" else "%s %s %s" % (o, R(), R())
    if k < 0.16:
        t = rng.choice("eeeettttscpfraaa")
        nm = rng.choice(NAMES) if r() < 0.93 else rng.choice(BADNAMES)
        return "cr %d %s %s %s" % (rng.randrange(3), t, hx(nm), hx(rng.choice(DATA)))
    if k < 0.34:
        a, b = R(), R()
        if r() < 0.06:
            b = a                                   # self insertion
        return "ac %s %s" % (a, b)
    if k < 0.46:
        a, b = R(), R()
        if r() < 0.05:
            b = a
        return "ib %s %s %s" % (a, b, R() if r() < 0.85 else "-")
    if k < 0.56:
        return "rm %s %s" % (R(), R())
    if k < 0.64:
        a = R()
        return "rp %s %s %s" % (R(), a, a if r() < 0.1 else R())
    if k < 0.69:
        return "cl %s %d" % (R(), rng.randrange(2))
    if k < 0.73:
        return "nz %s" % R()
    if k < 0.77:
        return "sp %s %d" % (R(), rng.randrange(8))
    if k < 0.80:
        return "sd %s %s" % (R(), hx(rng.choice(DATA)))
    if k < 0.83:
        return "ad %s %s" % (R(), hx(rng.choice(DATA)))
    if k < 0.86:
        return "id %s %d %s" % (R(), rng.randrange(8), hx(rng.choice(DATA)))
    if k < 0.89:
        return "dd %s %d %d" % (R(), rng.randrange(8), rng.choice([0, 1, 2, 5, 40, 2 ** 32, 2 ** 64 - 1, 2 ** 64 - 2]))
    if k < 0.92:
        return "rd %s %d %d %s" % (R(), rng.randrange(8), rng.choice([0, 1, 2, 5, 40, 2 ** 63, 2 ** 64 - 1, 2 ** 64 - 3]), hx(rng.choice(DATA)))
    if k < 0.94:
        return "ss %s %d %d" % (R(), rng.randrange(8), rng.choice([0, 1, 3, 40, 4096, 2 ** 64 - 1]))
    if k < 0.97:
        nm = rng.choice(NAMES) if r() < 0.9 else rng.choice(BADNAMES)
        return "sa %s %s %s" % (R(), hx(nm), hx(rng.choice(DATA)))
    if k < 0.98:
        return "ra %s %s" % (R(), hx(rng.choice(NAMES)))
    if k < 0.985:
        return "ga %s %s" % (R(), hx(rng.choice(NAMES)))
    return "rn %d %s %s %s" % (rng.randrange(3), R(), hx(rng.choice(NSS)), hx(rng.choice(QNAMES)))


def gen_random(ctx, cases):
    rng = ctx.rng
    thorough = ctx.tier == "thorough"
    plan = [(260, 200, 20), (40, 40, 1)] if not thorough else [(5000, 1000, 50), (2000, 40, 1)]
    for count, length, k in plan:
        for _ in range(count):
            # a small seed tree so that structure-changing operations meet structure early
            ops = ["cr 0 e %s -" % hx("r"), "ac 0 3", "cr 0 t - %s" % hx("x"), "ac 3 4", "cr 1 e %s -" % hx("s"), "cr 0 f - -"]
            ops += [rand_op(rng) for _ in range(length)]
            cases.append(("rand-%d" % length, "3 %d ; %s" % (k, " ; ".join(ops))))


def run_bin(binpath, args, lines, timeout=3000):
    p = subprocess.run([binpath] + args, input=("\n".join(lines) + "\n").encode(), stdout=subprocess.PIPE,
                       stderr=subprocess.PIPE, timeout=timeout)
    return p.returncode, p.stdout.decode("ascii", "replace").splitlines(), p.stderr.decode("utf-8", "replace")


def run_impl(ctx, xh, lines):
    """run the harness; when it crashes or hangs on a line, record that line and continue behind it"""
    out = []
    crashes = []
    pos = 0
    while pos < len(lines):
        rc, o, err = run_bin(xh, [], lines[pos:])
        complete = [x for x in o if not x.endswith(" HANG")]
        if rc == 0 and len(o) == len(lines) - pos:
            out += o
            break
        good = len(complete) if rc != 0 else len(o)
        good = min(good, len(lines) - pos - 1) if rc != 0 else good
        out += o[:good]
        crashes.append((pos + good, rc, err[-500:]))
        out.append("CRASH rc=%d" % rc)
        pos += good + 1
        if len(crashes) > 20:
            out += ["CRASH skipped"] * (len(lines) - pos)
            break
    return out, crashes


def first_diff(a, b):
    ta, tb = a.split(" "), b.split(" ")
    for i, (x, y) in enumerate(zip(ta, tb)):
        if x != y:
            return "token %d: impl %s / model %s" % (i, x[:80], y[:80])
    return "length %d / %d" % (len(ta), len(tb))


def nontrivial(ans):
    """a sequence is non-trivial when some operation raised a DOMException and some structural operation succeeded"""
    head = ans.split(" | ")[0]
    return (" e" in " " + head) and (" n" in " " + head)


def run(ctx):
    t0 = time.time()
    ctx.coverage["trusted_base"] = list(V.GLOBAL_TRUSTED_BASE) + [
        "modelled rather than verified: the arena allocator under the nodes and string pooling (strings are values); "
        "Attr nodes only detached (attributes of an element are name/value pairs), DocumentType/Entity/Notation nodes, "
        "user data, ranges/iterators notification (C14), importNode/adoptNode are not modelled"]
    ctx.assumptions = ["node identity = creation order (nodes are arena allocated and not freed before the document)",
                       "names and data in the generated sequences are 7-bit; XML name validity is modelled on that range",
                       "exceptions are modelled as an error value; the DOMException code is compared"]
    ctx.build_lib()
    try:
        TK.generate()
        TI.generate()
    except Exception as e:
        ctx.note("translator failed: %r" % (e,))
        ctx.violation("translator", {"what": "translator can no longer read DOMDocumentImpl::isKidOK / the DOM enums",
                                     "error": repr(e)}, no_input=True)
        return
    ok, out, failed = ctx.prove(["Base", "Gen", "C13"],
                                ["theories/C13/Properties_C13.vo", "theories/C13/Extract_C13.vo"],
                                props_file="theories/C13/Properties_C13.v")
    proof_broken = not ok
    if proof_broken:
        ctx.note("proof obligations failed: %s" % failed)
        ctx.note(out[-1500:])
    if not os.path.exists(os.path.join(V.VERIF, "ocaml", "C13", "gen_c13.ml")):
        ctx.violation("obligation", {"what": "model could not be extracted", "output": out[-3000:]}, no_input=True)
        return
    xm = ctx.ocaml("C13", ["gen_c13"])
    xh = ctx.harness("C13")

    # ---- 1. witnesses: which defects does this tree (still) have?  decides the defect switches of the model
    wl = [w for _, w in WITNESSES]
    impl_w, crashes_w = run_impl(ctx, xh, wl)
    models = {m: run_bin(xm, [m], wl)[1] for m in ("m11", "m01", "m10", "m00")}
    spec_w = run_bin(xm, ["spec"], wl)[1]
    heads = lambda line: line.split(" | ")[0]
    # F18 repaired <=> the self insertion is refused (e3) in both witnesses; F26 repaired <=> the whole witness line agrees
    fix_self = heads(impl_w[0]) == heads(models["m11"][0]) and impl_w[1].split(" ")[-1] == "consistent" and \
        impl_w[1] == models["m11"][1]
    fix_clone = impl_w[2] == models["m11"][2]
    # the later defect switches (one per proposed fix): a switch is on when the implementation answers the finding's witness
    # like the repaired model and unlike the model of the code as found
    SWITCHES = [("F27", "fix_fragdoc"), ("F28", "fix_docel"), ("F29", "fix_normempty"), ("F30", "fix_rnname"),
                ("F36", "fix_setattr_id"), ("F37", "fix_idnode")]
    w_found = run_bin(xm, ["m11000000"], wl)[1]
    w_fixed = run_bin(xm, ["m11111111"], wl)[1]
    wnames = [f for f, _ in WITNESSES]
    newbits = ""
    for fid, _ in SWITCHES:
        k = wnames.index(fid)
        newbits += "1" if (impl_w[k] == w_fixed[k] and impl_w[k] != w_found[k]) else "0"
    mode = "m%d%d" % (fix_self, fix_clone) + newbits
    REPAIRED = "m11" + newbits            # F18/F26 repaired, the later switches as the tree is
    ctx.coverage["defect_switches_detected"] = {"fix_self(F18)": fix_self, "fix_cloneflag(F26)": fix_clone}
    ctx.coverage["defect_switches_detected"].update({"%s(%s)" % (n, f): b == "1" for (f, n), b in zip(SWITCHES, newbits)})
    for fid, present, widx, marker, what in (
            ("F18", not fix_self, 0, "INCONSISTENT:own-ancestor", "e.appendChild(e) succeeds: the node becomes its own parent/child "
             "(DOMParentNode::insertBefore starts the ancestor walk at the parent of the target and skips it for a childless "
             "newChild); frag.appendChild(frag) with children never returns"),
            ("F26", not fix_clone, 2, "INCONSISTENT:previousSibling", "the clone of a first child keeps the FIRSTCHILD flag: appended "
             "behind another node its previousSibling is null although it is not the first child (DOMNodeImpl copy constructor "
             "copies the flags)")):
        if not present:
            continue
        if marker not in impl_w[widx] or heads(impl_w[widx]).split(" ")[:2] != heads(models[mode][widx]).split(" ")[:2]:
            continue        # not the modelled defect: reported as divergence below
        if ctx.find_known(fid):
            ctx.known_finding(fid, what + " (witness `%s`)" % wl[widx])
        else:
            ctx.violation(fid, {"request": wl[widx], "impl": impl_w[widx], "model_as_found": models["m00"][widx],
                                "model_repaired": models["m11"][widx], "spec": spec_w[widx], "what": what,
                                "fix": "fixes/C13-insert-self.patch" if fid == "F18" else "fixes/C13-clone-firstchild.patch"})

    # F32: substringData with a count beyond the end writes the terminator at newString[count] (out of bounds; a count
    # of 2^32-1 faults).  Fixed in /repo as d71d816; probed first in a process of its own so that a regression is
    # reported under its own tag.
    W_SUBSTR = "1 1 ; cr 0 t - %s ; ss 1 0 4294967295 ; dd 1 0 0" % hx("abcdef")
    rcS, outS, errS = run_bin(xh, [], [W_SUBSTR])
    f32_present = rcS != 0 or not outS
    ctx.coverage["defect_switches_detected"]["fix_substring(F32)"] = not f32_present
    if f32_present:
        what = ("substringData(offset, count) with count beyond the end of the data writes the string terminator at "
                "newString[count], outside the 4096-unit stack buffer: memory corruption; count = 2^32-1 faults (rc=%d)" % rcS)
        if ctx.find_known("F32"):
            ctx.known_finding("F32", what + " (witness `%s`)" % W_SUBSTR)
        else:
            ctx.violation("F32", {"request": W_SUBSTR, "impl": "process died rc=%d" % rcS, "stderr": errS[-500:],
                                  "model_repaired": run_bin(xm, [REPAIRED], [W_SUBSTR])[1][0][:500], "what": what,
                                  "fix": "fixes/C13-substring-count.patch"})

    # F33: setAttributeNode of an attribute the element already has clears its ownerElement (fix: fixes/C13-setnameditem-self.patch)
    w33 = WITNESSES[[f for f, _ in WITNESSES].index("F33")][1]
    out33 = run_impl(ctx, xh, [w33])[0][0]
    f33_present = "INCONSISTENT:attribute-ownerElement" in out33
    ctx.coverage["defect_switches_detected"]["fix_setnameditem_self(F33)"] = not f33_present
    if f33_present:
        what33 = ("e.setAttributeNode(a) with a already an attribute of e: DOMAttrMapImpl::setNamedItem treats a as the replaced "
                  "attribute and clears its owner; a stays in e's map while a.getOwnerElement() is null (inconsistent links)")
        if ctx.find_known("F33"):
            ctx.known_finding("F33", what33 + " (witness `%s`)" % w33)
        else:
            ctx.violation("F33", {"request": w33, "impl": out33[:3000], "model_repaired": run_bin(xm, [REPAIRED], [w33])[1][0][:3000],
                                  "what": what33, "fix": "fixes/C13-setnameditem-self.patch"})

    # F35: release() of an element / attribute does not take its ID attributes out of the ID map (dangling entries).  The
    # release of a subtree that holds a registered ID attribute is therefore not performed by `rl` (both sides skip it);
    # `rlx` performs it and is generated only when the probe (in a process of its own) shows the repaired behaviour.
    rc35, out35, err35 = run_bin(xh, [], [W_RELID])
    mod35 = run_bin(xm, [REPAIRED], [W_RELID])[1][0]
    f35_present = rc35 != 0 or not out35 or out35[0] != mod35
    ctx.coverage["defect_switches_detected"]["fix_release_idmap(F35)"] = not f35_present
    if f35_present:
        what35 = ("release() of an element (or of a detached attribute) leaves its ID attributes in the document's ID map: "
                  "getElementById then returns null although another element carries that ID, and the entry dangles once the "
                  "attribute's storage is recycled")
        if ctx.find_known("F35"):
            ctx.known_finding("F35", what35 + " (witness `%s`: implementation %s)" % (
                W_RELID, "died rc=%d" % rc35 if rc35 != 0 or not out35 else "answers `%s`" % out35[0].split(" | ")[0]))
        else:
            ctx.violation("F35", {"request": W_RELID, "impl": (out35 or ["died"])[0][:3000], "model_repaired": mod35[:3000],
                                  "what": what35, "fix": "fixes/C13-release-idmap.patch"})

    # ---- 2. cases
    cases = []
    if ctx.replay:
        r = json.load(open(ctx.replay))
        cases = [("replay", r["request"])]
    else:
        cases += [("witness-" + f, w) for f, w in WITNESSES]
        gen_exhaustive(ctx, cases)
        gen_fragments(ctx, cases)
        gen_counts(ctx, cases)
        gen_rename(ctx, cases)
        gen_attrs(ctx, cases)
        gen_attrmap(ctx, cases)
        gen_rename_attached(ctx, cases)
        gen_userdata(ctx, cases)
        gen_ids(ctx, cases, not f35_present)
        gen_random(ctx, cases)
    lines = [c[1] for c in cases]
    impl, crashes = run_impl(ctx, xh, lines)
    rc2, model, err2 = run_bin(xm, [mode], lines)
    if rc2 != 0 or len(model) != len(lines):
        ctx.violation("model-crash", {"what": "model driver crashed", "stderr": err2[-2000:]}, no_input=True)
        return
    model11 = model if mode == REPAIRED else run_bin(xm, [REPAIRED], lines)[1]
    affected = set(k for k in range(len(lines)) if model[k] != model11[k])      # touched by a defect reported above
    ncr = 0
    for pos, rc, err in crashes:
        if pos in affected:
            continue
        ncr += 1
        if ncr <= 3:
            ctx.violation("harness-crash", {"what": "the library crashed or hung while executing this operation sequence",
                                            "rc": rc, "stderr": err, "request": lines[pos], "model": model[pos][:2000]})
    # ---- 3. impl vs model
    kinds = {}
    divergences = []
    opcount = 0
    excs = 0
    kinds_seen = []
    f33_lines = []
    for cur_index, ((kind, req), i, m) in enumerate(zip(cases, impl, model)):
        ctx.count()
        kinds[kind] = kinds.get(kind, 0) + 1
        head = i.split(" | ")[0].split(" ")
        opcount += len(head)
        excs += sum(1 for t in head if t.startswith("e"))
        if nontrivial(i):
            ctx.distinct(req)
        if i != m and not i.startswith("CRASH"):
            k = len(kinds_seen)
            if f33_present and "INCONSISTENT:attribute-ownerElement" in i:
                # the defect reported above: everything before the inconsistent dump must agree with the model
                cut = i.rindex(" | ", 0, i.index("INCONSISTENT"))       # the inconsistent dump itself shows the defect
                ntok = len(i[:cut].split(" "))
                if i.split(" ")[:ntok] == m.split(" ")[:ntok]:
                    f33_lines.append(cur_index)
                    continue
            if cur_index in affected and ("INCONSISTENT" in i):
                # the harness stops a sequence at the first inconsistent dump; everything before it must agree
                cut = i.index("INCONSISTENT")
                ntok = len(i[:cut].split(" ")) - 1
                if i.split(" ")[:ntok] == m.split(" ")[:ntok]:
                    continue
            divergences.append((kind, req, i, m))
    ctx.coverage["traces_validated_against_impl"] = len(lines)
    ctx.coverage["input_distribution"] = dict(kinds, operations=opcount, operations_raising_DOMException=excs,
                                              inconsistent_dumps=sum(1 for i in impl if "INCONSISTENT" in i))
    for k in (0, len(cases) // 2, len(cases) - 1):
        ctx.sample({"kind": cases[k][0], "request": cases[k][1][:400], "impl": impl[k][:400], "model": model[k][:400]})
    # ---- 4. the Spec oracle
    #  (a) on every divergence: the reference DOM's own answer against the implementation's
    viol = 0
    unexplained = []
    if divergences:
        dl = [d[1] for d in divergences[:300]]
        spec_d = run_bin(xm, ["spec"], dl)[1]
        for (kind, req, i, m), s in zip(divergences[:300], spec_d):
            if i != s:
                viol += 1
                if viol <= 5:
                    ctx.violation("divergence", {"request": req, "impl": i[:6000], "model": m[:6000], "spec": s[:6000],
                                                 "kind": kind, "first_difference": first_diff(i, m),
                                                 "what": "implementation differs from the model and from the reference DOM"
                                                         + ("; the dump is internally inconsistent" if "INCONSISTENT" in i else "")})
            else:
                unexplained.append((kind, req, i, m))
    if unexplained and not viol:
        kind, req, i, m = unexplained[0]
        ctx.violation("correspondence", {"what": "model and implementation differ while the implementation agrees with the "
                                         "reference DOM: correspondence xh_C13~xm_C13 no longer checks", "request": req,
                                         "impl": i[:3000], "model": m[:3000], "count": len(unexplained)}, no_input=True)
    #  (b) on all agreeing cases: model (as the tree is) against the reference DOM in lock step; abs(heap) = store after
    #      every operation, the dumps whenever the harness dumps.  impl = model there, so this judges the implementation.
    agree_idx = [k for k in range(len(cases)) if impl[k] == model[k] and k not in affected]
    cmp_out = run_bin(xm, ["cmp" + REPAIRED[1:]], [lines[k] for k in agree_idx])[1]
    classes = {}
    spec_viol = 0
    for k, c in zip(agree_idx, cmp_out):
        if c == "agree":
            continue
        f = dict(x.split("=", 1) for x in c.split(" ")[3:] if "=" in x)
        opn = c.split(" ")[2]
        cls = None
        if opn in ("ac", "ib", "rp") and (
                (f.get("f27") == "true" and f.get("model") == "e3" and f.get("unchanged") == "false") or
                # the reference DOM refuses a fragment with two root elements before it looks at anything else; as found the
                # same operation fails later for another reason (both raise, nothing changes)
                (f.get("types") == "9/11" and f.get("model", "").startswith("e") and f.get("spec") == "e3" and f.get("unchanged") == "true")):
            cls = "F27"     # exactly: all children legal for the Document, >= 2 root elements would result
        elif opn == "rn" and f.get("rn", "").startswith("badname") and f.get("model", "").startswith("n") and f.get("spec") == "e5":
            cls = "F30"
        elif opn == "rn" and ",nsclass," in f.get("rn", "") and f.get("model") in ("e14", "e5") and f.get("unchanged") == "false" \
                and f.get("spec") in ("e14", "e5"):
            cls = "F31"
        elif opn == "sn" and f.get("sn") == "own" and f.get("unchanged") == "false":
            cls = "F33"
        elif (opn == "gi" and f.get("gi") == "detached") or (opn == "sn" and f.get("sn") == "replid"):
            cls = "F36"
        elif opn == "gi" and f.get("gi") == "stalehash":
            cls = "F38"
        elif opn == "sin" and f.get("gi") == "othernode" and f.get("model") == "ok" and f.get("spec") == "e8":
            cls = "F37"
        elif opn == "nz":
            cls = "F29"
        elif f.get("stale_docel") == "true" and opn in ("ac", "ib", "rp") and f.get("types", "").startswith("9/"):
            cls = "F28"
        if cls is None or (cls.startswith("F") and not ctx.find_known(cls)):
            spec_viol += 1
            if spec_viol <= 5:
                ctx.violation("spec", {"request": lines[k], "impl": impl[k][:6000], "verdict": c,
                                       "what": "implementation and model agree but the reference DOM differs (a defect the "
                                               "model mirrors and no known finding explains)"})
            continue
        classes.setdefault(cls, []).append(k)
    ctx.coverage["spec_oracle_checked"] = len(agree_idx) + len(divergences[:300])
    ctx.coverage["spec_oracle_attributed"] = {c: len(v) for c, v in classes.items()}
    ctx.coverage["sequences_affected_by_reported_unfixed_defects"] = len(affected) + len(f33_lines)
    texts = {
        "F27": "a DocumentFragment holding an element is moved into a Document child by child: when a second root element is "
               "met HIERARCHY_REQUEST_ERR is raised after earlier children were already moved (exception AND changed tree)",
        "F28": "Document.replaceChild(root, root) removes the root but leaves the cached documentElement pointing at it: the "
               "document then refuses every new root element with HIERARCHY_REQUEST_ERR",
        "F29": "normalize() merges adjacent Text nodes but does not remove empty Text nodes (DOM Core Node.normalize)",
        "F33": "setAttributeNode(a) with a already an attribute of the element: DOMAttrMapImpl::setNamedItem treats a as the "
               "'previous' attribute and clears its owner: a stays in the element's map but getOwnerElement() is null",
        "F36": "an ID attribute that is replaced by setAttributeNode (or whose element is otherwise left without it) stays in the "
               "ID map: getElementById finds the detached attribute first and returns null although another element carries that ID",
        "F37": "setIdAttributeNode(attr, flag) looks the attribute up by NAME on the element and changes the element's own "
               "attribute of that name instead of raising NOT_FOUND_ERR when attr is not an attribute of the element",
        "F38": "the ID map files an attribute under the hash of the value it had when it was registered: after the value changed "
               "through the attribute's children (Text edits, appendChild; a cloned ID attribute is registered before it has "
               "a value) getElementById(current value) returns null",
        "F30": "renameNode does not check the new name when the node keeps its implementation class (no namespace for a "
               "Level-1 node, any rename of a namespace-aware node without a colon): an invalid XML name is accepted instead "
               "of INVALID_CHARACTER_ERR",
        "F31": "renameNode changes the node BEFORE its checks: a namespace-aware element/attribute gets the new name assigned "
               "first, an attribute that is on an element is taken off it first; NAMESPACE_ERR / INVALID_CHARACTER_ERR is then "
               "raised with nodeName already changed / the attribute left detached (exception AND changed tree)",
    }
    widx = {f: n for n, (f, _) in enumerate(WITNESSES)}
    for fid, ks in sorted(classes.items()):
        if fid in texts:
            wk = widx[fid] if not ctx.replay else None
            reproduced = wk is not None and wk in ks
            ctx.known_finding(fid, texts[fid] + " (witness `%s`%s; %d generated sequences of this class)" % (
                WITNESSES[widx[fid]][1], "" if reproduced or ctx.replay else " NOT reproduced", len(ks)))
    if proof_broken and not ctx.violations:
        ctx.violation("obligation", {"what": "Coq obligation no longer checks and no failing input was found by the "
                                     "correspondence sweeps", "failed": failed, "output": out[-3000:]}, no_input=True)
    elif proof_broken:
        ctx.note("proof obligation failed; a concrete failing input was found by the correspondence")
    ctx.coverage["rule"] = ("operation sequences over pools of live nodes of 1-3 documents: exhaustive sequences over a 5-node tree "
                            "(quick: length<=2 over 88 operations, <=3 over 30; thorough: 3 and 4) with a dump after every operation; "
                            "DocumentFragments with children legal/illegal for the target at every position (length<=3, thorough 4) into "
                            "Document/Attr/Element/Text by appendChild/insertBefore/replaceChild; character-data offsets and counts in "
                            "{0,1,len-off-1,len-off,len-off+1,len,len+100,4095,4096,5000,2^32-1,2^32,2^63,2^64-off-1,2^64-off,2^64-1}; renameNode "
                            "over node position x namespace x qualified-name grids, twice in a row; attribute vectors of 0..12 names inserted in random order with DOMAttrMapImpl::findNamePoint queried after every update; random sequences (quick 260x200 + 40x40 ops; "
                            "thorough 5000x1000 + 2000x40) with operands drawn uniformly from ALL live nodes; every line compared with the "
                            "extracted model token by token (exception codes and full structural dumps), every agreeing line replayed against "
                            "the reference DOM in lock step; non-trivial = contains a raised DOMException and a successful structural operation; "
                            "distinct by request text")
    ctx.coverage["exhaustive"] = False
    ctx.note("correspondence: %d sequences, %d operations (%d raising), %d divergences, model mode %s, %.1fs" % (
        len(lines), opcount, excs, len(divergences), mode, time.time() - t0))
