"""C11 -- Regular expressions match exactly the language their syntax defines.
Theorems: coq/theories/C11/Properties_C11.v (Spec11.v: syntax, Lre, derivative matcher; ModelRange11.v: RangeToken;
Model11.v: ParserForXMLSchema, compile, backtracking match, repaired matcher).
Correspondence: bin/xh_C11 (RegularExpression / RangeToken / xs:pattern facet of the freshly built library) against
bin/xm_C11 (extracted models) on generated expressions x exhaustive string sets; the oracle is the extracted *Spec*
(dmatch_re on the generator's abstract syntax tree, never on the parsed text).
A failing input (impl != Spec) that the faithful model mirrors is attributed to a known finding by flipping exactly
one repair switch of the model (see known-findings.d/C11.json); anything else is a VIOLATION."""
import itertools
import json
import os
import subprocess
import sys
import time

import vcommon as V

sys.path.insert(0, os.path.join(V.VERIF, "translator"))
sys.path.insert(0, os.path.join(V.VERIF, "gen"))
import c11_named as TN  # noqa
import c11_cats as TC  # noqa

SPECIAL_OUT = set(map(ord, "\\|.^-?*+{}()[]"))       # must be escaped outside a class (we escape '-' and '^' too)
SPECIAL_IN = set(map(ord, "\\[]-^"))                  # escaped inside a class


def hx(cps):
    return "-" if not cps else "".join("%06X" % c for c in cps)


def strs_field(strs):
    return ",".join(hx(s) for s in strs) if strs else "."


# ------------------------------------------------------------------------------------------------------------------
# abstract syntax, printers
# ------------------------------------------------------------------------------------------------------------------
#   ('chr', cp) ('dot',) ('named', letter) ('cls', CLS) ('cat', [..]) ('alt', [..]) ('rep', n, m|None, node, style)
#   ('grp', node) ('eps',)
#   CLS = (neg, items, sub|None);  item = ('c', cp) | ('r', lo, hi) | ('k', letter)
def esc_out(cp):
    return [92, cp] if cp in SPECIAL_OUT else ([92, {10: 110, 13: 114, 9: 116}[cp]] if cp in (9, 10, 13) else [cp])


def esc_in(cp):
    return [92, cp] if cp in SPECIAL_IN else ([92, {10: 110, 13: 114, 9: 116}[cp]] if cp in (9, 10, 13) else [cp])


def print_cls(c):
    neg, items, sub = c
    out = [91] + ([94] if neg else [])
    for it in items:
        if it[0] == 'c':
            out += esc_in(it[1])
        elif it[0] == 'r':
            out += esc_in(it[1]) + [45] + esc_in(it[2])
        elif it[0] == 'K':
            out += [92, 80 if it[3] else 112, 123] + [ord(c) for c in it[2]] + [125]
        else:
            out += [92, ord(it[1])]
    if sub is not None:
        out += [45] + print_cls(sub)
    return out + [93]


def is_atom(n):
    return n[0] in ('chr', 'dot', 'named', 'pcat', 'cls', 'grp')


def print_re(n):
    k = n[0]
    if k == 'chr':
        return esc_out(n[1])
    if k == 'dot':
        return [46]
    if k == 'named':
        return [92, ord(n[1])]
    if k == 'pcat':
        return [92, 80 if n[3] else 112, 123] + [ord(c) for c in n[2]] + [125]
    if k == 'cls':
        return print_cls(n[1])
    if k == 'eps':
        return []
    if k == 'grp':
        return [40] + print_re(n[1]) + [41]
    if k == 'cat':
        out = []
        for c in n[1]:
            out += ([40] + print_re(c) + [41]) if c[0] in ('alt', 'eps') else print_re(c)
        return out
    if k == 'alt':
        out = []
        for i, c in enumerate(n[1]):
            out += ([124] if i else []) + print_re(c)
        return out
    if k == 'rep':
        _, lo, hi, c, style = n
        body = print_re(c) if is_atom(c) else [40] + print_re(c) + [41]
        if style in '*+?':
            q = [ord(style)]
        elif style == 'n':
            q = list(map(ord, "{%d}" % lo))
        elif style == 'n,':
            q = list(map(ord, "{%d,}" % lo))
        else:
            q = list(map(ord, "{%d,%d}" % (lo, hi)))
        return body + q
    raise ValueError(k)


def ast_cls(c):
    neg, items, sub = c
    parts = []
    for it in items:
        parts.append("r%06X%06X" % (it[1], it[1]) if it[0] == 'c' else
                     "r%06X%06X" % (it[1], it[2]) if it[0] == 'r' else
                     (("nK%02d" if it[3] else "K%02d") % it[1]) if it[0] == 'K' else "k" + it[1])
    base = "e"
    for p in reversed(parts):
        base = p if base == "e" else "u" + p + base
    if neg:
        base = "n" + base
    if sub is not None:
        base = "d" + base + ast_cls(sub)
    return base


def ast_re(n):
    k = n[0]
    if k == 'chr':
        return "Sr%06X%06X" % (n[1], n[1])
    if k == 'dot':
        return "Snur00000A00000Ar00000D00000D"
    if k == 'named':
        return "Sk" + n[1]
    if k == 'pcat':
        return ("SnK%02d" if n[3] else "SK%02d") % n[1]
    if k == 'cls':
        return "S" + ast_cls(n[1])
    if k == 'eps':
        return "E"
    if k == 'grp':
        return ast_re(n[1])
    if k == 'cat':
        out = "E"
        for c in reversed(n[1]):
            out = ast_re(c) if out == "E" else "C" + ast_re(c) + out
        return out
    if k == 'alt':
        out = None
        for c in reversed(n[1]):
            out = ast_re(c) if out is None else "A" + ast_re(c) + out
        return out
    if k == 'rep':
        _, lo, hi, c, _ = n
        return "R%d,%s,%s" % (lo, "*" if hi is None else str(hi), ast_re(c))
    raise ValueError(k)


def nullable(n):
    k = n[0]
    if k in ('chr', 'dot', 'named', 'cls'):
        return False
    if k == 'eps':
        return True
    if k == 'grp':
        return nullable(n[1])
    if k == 'cat':
        return all(nullable(c) for c in n[1])
    if k == 'alt':
        return any(nullable(c) for c in n[1])
    return n[1] == 0 or nullable(n[3])


def has_nullable_loop(n):
    """an unbounded repetition whose body can match the empty string (class of F28)"""
    k = n[0]
    if k in ('chr', 'dot', 'named', 'cls', 'eps'):
        return False
    if k == 'grp':
        return has_nullable_loop(n[1])
    if k in ('cat', 'alt'):
        return any(has_nullable_loop(c) for c in n[1])
    return (n[2] is None and nullable(n[3])) or has_nullable_loop(n[3])


def simple_loops(n):
    """every unbounded repetition has a single-character body: no catastrophic backtracking on long subjects"""
    k = n[0]
    if k in ('chr', 'dot', 'named', 'cls', 'eps'):
        return True
    if k == 'grp':
        return simple_loops(n[1])
    if k in ('cat', 'alt'):
        return all(simple_loops(c) for c in n[1])
    if n[2] is None:
        return n[3][0] in ('chr', 'dot', 'named', 'cls')
    return simple_loops(n[3])


# ------------------------------------------------------------------------------------------------------------------
# generators
# ------------------------------------------------------------------------------------------------------------------
POOLS = [
    ([0x61, 0x62], 0x7A), ([0x61, 0x62], 0x63), ([0x61, 0x62, 0x63], 0x7A), ([0x61, 0x62], 0x0A),
    ([0x61, 0x2D], 0x62), ([0x2E, 0x61], 0x62), ([0x61, 0x5E], 0x24), ([0x5B, 0x5D], 0x61), ([0x7B, 0x7D], 0x2C),
    ([0x61, 0x10000], 0x62), ([0x10000, 0x10001], 0x10002), ([0x61, 0xE9], 0x416), ([0x30, 0x61], 0x20),
    ([0x61, 0x1000A], 0x62), ([0x61, 0x2028], 0x62), ([0x5F, 0x3A, 0x61], 0x2D), ([0x28, 0x7C], 0x29),
]
WEIGHTS = [30, 8, 14, 4, 3, 3, 2, 2, 2, 5, 3, 3, 4, 1, 1, 3, 2]


class ReGen:
    def __init__(self, rng, sigma, foreign):
        self.rng, self.sigma, self.foreign = rng, sigma, foreign

    def cls(self, allow_sub=True):
        r = self.rng
        items = []
        for _ in range(r.choice([1, 1, 2, 2, 3])):
            x = r.random()
            if x < 0.45:
                items.append(('c', r.choice(self.sigma + [self.foreign])))
            elif x < 0.85:
                a, b = r.choice(self.sigma + [self.foreign]), r.choice(self.sigma + [self.foreign])
                lo, hi = min(a, b), max(a, b)
                if r.random() < 0.3:
                    hi = min(hi + r.choice([1, 2, 5]), 0x10FFFF)
                if r.random() < 0.2 and lo > 2:
                    lo -= r.choice([1, 2])
                items.append(('r', lo, hi))
            else:
                items.append(('k', r.choice("sSdDwWiIcC")))
        neg = r.random() < 0.3
        sub = self.cls(False) if allow_sub and r.random() < 0.25 else None
        return (neg, items, sub)

    def atom(self):
        r = self.rng
        x = r.random()
        if x < 0.62:
            return ('chr', r.choice(self.sigma))
        if x < 0.70:
            return ('dot',)
        if x < 0.76:
            return ('named', r.choice("sSdDwWiIcC"))
        if x < 0.97:
            return ('cls', self.cls())
        return ('chr', self.foreign)

    def expr(self, depth):
        r = self.rng
        if depth == 0:
            return self.atom()
        x = r.random()
        if x < 0.22:
            return self.atom()
        if x < 0.47:
            return ('cat', [self.expr(depth - 1) for _ in range(r.choice([2, 2, 3]))])
        if x < 0.64:
            br = [self.expr(depth - 1) for _ in range(r.choice([2, 2, 3]))]
            if r.random() < 0.12:
                br[r.randrange(len(br))] = ('eps',)
            return ('grp', ('alt', br)) if r.random() < 0.9 else ('alt', br)
        if x < 0.95:
            c = self.expr(depth - 1)
            style = r.choice(['*', '*', '*', '+', '+', '?', '?', 'n', 'n,', 'n,m', 'n,m'])
            if style == '*':
                return ('rep', 0, None, c, style)
            if style == '+':
                return ('rep', 1, None, c, style)
            if style == '?':
                return ('rep', 0, 1, c, style)
            lo = r.choice([0, 0, 1, 1, 2, 2, 3])
            if style == 'n':
                return ('rep', lo, lo, c, style)
            if style == 'n,':
                return ('rep', lo, None, c, style)
            return ('rep', lo, lo + r.choice([0, 1, 1, 2, 3]), c, style)
        return ('grp', self.expr(depth - 1))


def all_strings(symbols, maxlen):
    out = [[]]
    for n in range(1, maxlen + 1):
        out += [list(t) for t in itertools.product(symbols, repeat=n)]
    return out


MALFORMED = ["(", ")", "(a", "a)", "((a)", "[", "[a", "[a-", "[a-[b]", "[]", "[^]", "a{", "a{1", "a{1,", "a{1,2", "a{2,1}",
             "a{,1}", "a{x}", "a{1,x}", "a{-1}", "*", "*a", "+a", "?a", "a**", "a*+", "a+?", "a??", "a{2}{3}", "a{2}*",
             "\\", "a\\", "\\q", "\\e", "\\$", "\\A", "\\b", "\\x41", "\\u0041", "[\\q]", "[b-a]", "[z-a]", "[a--b]", "[--a]",
             "[a-\\d]", "[[a]]", "[a]]", "]", "}", "{", "a|*", "(|*)", "[a-c-[b]x]", "[a-[b]-[c]]", "(?:a)", "(?=a)", "a{1}{",
             "[-]", "(a))", "a{ 1}", "a{1 }", "[a-[^]]"]

def _c(ch):
    return ('chr', ord(ch))


def _star(n):
    return ('rep', 0, None, n, '*')


_X = 0x10000
WITNESS = [
    # (finding, expression, strings)
    ("F15", ('cat', [_star(_c('a')), ('rep', 0, 1, ('grp', ('cat', [_c('a'), _c('b')])), '?')]), ["ab", "aab", "", "a", "aa"]),
    ("F15", _star(('grp', ('alt', [('cat', [_c('a'), _c('b')]), _c('a'), ('cat', [_c('b'), _c('b')])]))), ["abb", "ab", "a"]),
    ("F26", ('cls', (False, [('r', 0x61, 0x65), ('r', 0x63, 0x69)], None)), ["h", "d", "a"]),
    ("F27", ('cat', [_star(('cls', (False, [('c', 0x62)], None))), ('cls', (True, [('c', 0x61)], None))]), ["bb", "b", "bc"]),
    ("F27", ('cat', [_star(('chr', _X)), ('chr', _X), ('chr', _X)]), [chr(_X) * 2, chr(_X) * 3]),
    ("F28", ('cat', [_star(('grp', _star(_c('a')))), _c('b')]), ["a", "ab", "b"]),
    ("F29", ('dot',), ["\u2028", "\U0001000a", "x", "\n"]),
]


def gen_requests(ctx):
    """list of dict(kind, req, ast (or None), expect (or None), strs)"""
    rng = ctx.rng
    thorough = ctx.tier == "thorough"
    reqs = []
    for fid, e, strs in WITNESS:
        reqs.append({"kind": "witness-" + fid, "pat": print_re(e), "strs": [[ord(c) for c in s] for s in strs],
                     "ast": ast_re(e), "mode": "re", "expr": e})
        reqs.append({"kind": "witness-" + fid + "-xsd", "pat": print_re(e), "strs": [[ord(c) for c in s] for s in strs if "\n" not in s],
                     "ast": ast_re(e), "mode": "xsd", "expr": e})
    n_expr = 60000 if thorough else 700
    for i in range(n_expr):
        sigma, foreign = rng.choices(POOLS, WEIGHTS)[0]
        g = ReGen(rng, sigma, foreign)
        depth = rng.choice([1, 2, 2, 3, 3, 3, 4])
        e = g.expr(depth)
        pat = print_re(e)
        if len(pat) > 60:
            continue
        syms = sigma + [foreign]
        maxlen = 5 if len(syms) <= 3 else 4
        if thorough and len(syms) <= 3 and rng.random() < 0.2:
            maxlen = 6
        strs = all_strings(syms, maxlen)
        for _ in range(6):
            strs.append([rng.choice(syms) for _ in range(rng.randrange(maxlen + 1, 13))])
        kind = "expr-d%d" % depth
        long_ok = simple_loops(e)
        if long_ok and rng.random() < 0.08:
            # subjects longer than 256 UTF-16 units take the explicit-stack variant of RegularExpression::match
            base = [rng.choice(sigma) for _ in range(rng.randrange(1, 4))]
            for n in (255, 256, 257, 300):
                s = (base * (n // len(base) + 1))[:n]
                strs.append(s)
                strs.append(s[:-1] + [foreign])
            kind += "-long"
        mode = "re"
        x = rng.random()
        if x < 0.10:
            mode = "reil"
        elif x < 0.18:
            mode = "re1"
        reqs.append({"kind": kind, "pat": pat, "strs": strs, "ast": ast_re(e), "mode": mode, "expr": e})
    # the xs:pattern facet path, on XML-safe material
    nx = 0
    for r in list(reqs):
        if nx >= (2000 if thorough else 60):
            break
        if r["ast"] is None or "long" in r["kind"]:
            continue
        chars = set(r["pat"]) | {c for s in r["strs"] for c in s}
        if any((c < 0x20 and c not in (9, 10, 13)) or c in (0xFFFE, 0xFFFF) for c in chars):
            continue
        strs = r["strs"][:120]
        reqs.append({"kind": "xsd-facet", "pat": r["pat"], "strs": strs, "ast": r["ast"], "mode": "xsd", "expr": r["expr"]})
        nx += 1
    # malformed expressions
    for m in MALFORMED:
        reqs.append({"kind": "malformed", "pat": [ord(c) for c in m], "strs": [[0x61]], "ast": None, "mode": "re",
                     "expect": "parse-error"})
    # mutations of well-formed patterns (either outcome is legal; implementation and model must agree)
    good = [r for r in reqs if r["ast"] is not None and r["mode"] == "re"]
    for _ in range(6000 if thorough else 250):
        r = rng.choice(good)
        pat = list(r["pat"])
        for _ in range(rng.choice([1, 1, 2])):
            x = rng.random()
            pos = rng.randrange(len(pat) + 1)
            if x < 0.4 and pat:
                del pat[min(pos, len(pat) - 1)]
            elif x < 0.85:
                pat.insert(pos, rng.choice(list(map(ord, "([{)]}*+?|\\-^,.0123ad$"))))
            elif len(pat) >= 2:
                p2 = rng.randrange(len(pat))
                pat[min(pos, len(pat) - 1)], pat[p2] = pat[p2], pat[min(pos, len(pat) - 1)]
        if not pat or bad_for_model(pat):
            continue
        reqs.append({"kind": "mutated", "pat": pat, "strs": r["strs"][:80], "ast": None, "mode": "re"})
    for r in reqs:
        head = "xsd %s" % hx(r["pat"]) if r["mode"] == "xsd" else "%s X %s" % (r["mode"], hx(r["pat"]))
        r["req"] = "%s %s" % (head, strs_field(r["strs"]))
    return reqs


def category_requests(ctx):
    """the general-category escapes: every \\p{X} / \\P{X} (37 names), alone and inside classes, and \\w \\W \\d \\D \\i \\c,
    against a stratified sample of BMP characters: one representative of every (category, 256-character page) pair of
    the library's category map, both ends of the private-use area, noncharacters and unassigned code points."""
    d = ctx.catdata
    rng = ctx.rng
    seen, sample = set(), []
    for a, b, k in d["rle"]:
        for c in sorted({a, b, (a + b) // 2}):
            key = (k, c >> 8)
            if key in seen or 0xD800 <= c <= 0xDFFF or c == 0:
                continue
            seen.add(key)
            sample.append(c)
    sample += [0xE000, 0xE001, 0xF8FF, 0xFDD0, 0xFFFE, 0xFFFF, 0x0378, 0x0085, 0x2028, 0x3000]
    if ctx.tier == "thorough":
        sample += [c for c in range(1, 0x10000, 7) if not 0xD800 <= c <= 0xDFFF]
    sample = sorted(set(sample))
    strs = [[c] for c in sample]
    reqs = []

    def add(kind, e):
        reqs.append({"kind": kind, "pat": print_re(e), "strs": strs, "ast": ast_re(e), "mode": "re", "expr": e})
    for idx, name in enumerate(d["names"]):
        for neg in (False, True):
            add("cat-atom", ('pcat', idx, name, neg))
            x = rng.random()
            if x < 0.35:
                add("cat-class", ('cls', (rng.random() < 0.5, [('K', idx, name, neg)], None)))
            elif x < 0.5:
                other = rng.randrange(len(d["names"]))
                add("cat-class", ('cls', (False, [('K', idx, name, neg), ('c', 0x61)],
                                          (False, [('K', other, d["names"][other], False)], None))))
    for k in "wWdDiIcCsS":
        add("named-sweep", ('named', k))
        add("named-sweep", ('cls', (False, [('k', k)], None)))
    add("named-sweep", ('cls', (True, [('k', 'w')], None)))
    ctx.coverage["category_sample"] = {"characters": len(sample), "pairs_category_page": len(seen)}
    return reqs, sample


SUPP_SAMPLE = [0x10000, 0x1003F, 0x10140, 0x1D11E, 0x1D7CE, 0x1F600, 0x20000, 0x2A6DF, 0xE0001, 0xE0100, 0xF0000, 0x10FFFD,
               0x10FFFF, 0x1FFFE, 0x10900, 0x1E900, 0x16B50]


def supplementary_requests(ctx):
    """the same escapes on supplementary characters; reference = python's unicodedata (class of F35)"""
    import unicodedata
    d = ctx.catdata
    out = []
    strs = [[c] for c in SUPP_SAMPLE]
    cats = [unicodedata.category(chr(c)) for c in SUPP_SAMPLE]
    for idx, name in enumerate(d["names"]):
        want = "".join("1" if (cat == name if len(name) == 2 else cat[0] == name) else "0" for cat in cats)
        out.append(("re X %s %s" % (hx(print_re(('pcat', idx, name, False))), strs_field(strs)), want, "\\p{%s}" % name))
    want_w = "".join("0" if cat[0] in "PZC" else "1" for cat in cats)
    out.append(("re X %s %s" % (hx([92, 119]), strs_field(strs)), want_w, "\\w"))
    want_d = "".join("1" if cat == "Nd" else "0" for cat in cats)
    out.append(("re X %s %s" % (hx([92, 100]), strs_field(strs)), want_d, "\\d"))
    return out


def bad_for_model(pat):
    """pattern features outside the modelled subset: category escapes \\p \\P (the byte after a backslash)"""
    for i in range(len(pat) - 1):
        if pat[i] == 92 and pat[i + 1] in (112, 80):
            return True
    return False


def gen_ranges(ctx):
    rng = ctx.rng
    n = 40000 if ctx.tier == "thorough" else 2500
    out = []
    big = [0xFF, 0x100, 0x101, 0xFFFF, 0x10000, 0x10FFFE, 0x10FFFF]

    def val():
        return rng.choice(big) if rng.random() < 0.08 else rng.randrange(0, 40)

    def lst(maxn=6):
        k = rng.choice([0, 1, 1, 2, 2, 3, 3, 4, 5, maxn, 12])
        v = []
        for _ in range(k):
            a = val()
            b = a + rng.choice([0, 0, 1, 2, 3, 5, 9]) if rng.random() < 0.85 else val()
            v += [a, min(b, 0x10FFFF)]
        return v
    for _ in range(n):
        op = rng.choice(["add", "add", "compact", "merge", "sub", "sub", "int", "int", "comp", "match"])
        a, b = lst(), lst()
        if op == "match":
            neg = rng.random() < 0.4
            pts = sorted({max(0, x + d) for x in a for d in (-1, 0, 1)} | {0, 255, 256, 300, 0x10FFFF})
            out.append(("rng-match", "rng match %s%s %s" % ("n" if neg else "", hx(a) if a else "-", hx(pts)), a, pts, neg))
        elif op in ("add", "compact", "comp"):
            out.append(("rng-" + op, "rng %s %s -" % (op, hx(a) if a else "-"), a, None, False))
        else:
            nb = op == "sub" and rng.random() < 0.2
            out.append(("rng-" + op, "rng %s %s %s%s" % (op, hx(a) if a else "-", "n" if nb else "", hx(b) if b else "-"),
                        a, b, nb))
    return out


# ------------------------------------------------------------------------------------------------------------------
def run_bin(binpath, lines, timeout=None):
    # the model/spec drivers are pure computations: the limit only guards against a hung process; it scales with the
    # batch size so that a loaded machine or the thorough tier's large batches do not turn into a spurious alarm
    if timeout is None:
        timeout = 1500 + len(lines) // 20
    p = subprocess.run([binpath], input=("\n".join(lines) + "\n").encode(), stdout=subprocess.PIPE,
                       stderr=subprocess.PIPE, timeout=timeout)
    out = p.stdout.decode("ascii", "replace").splitlines()
    return p.returncode, out, p.stderr.decode("utf-8", "replace")


def pairs_of(v):
    return [(min(v[i], v[i + 1]), max(v[i], v[i + 1])) for i in range(0, len(v) - 1, 2)]


def in_pairs(ps, c):
    return any(lo <= c <= hi for lo, hi in ps)


def parse_dump(s):
    """'16 00000100000A' -> list of pairs"""
    h = s.split()[1]
    v = [] if h == "-" else [int(h[i:i + 6], 16) for i in range(0, len(h), 6)]
    return [(v[i], v[i + 1]) for i in range(0, len(v) - 1, 2)]


def range_spec_ok(kind, req, a, b, nb, impl):
    """set semantics of the range operations, evaluated on the boundary points of all operands (python, independent of
    the model).  returns None if fine, else text"""
    if not impl.startswith("ok") or impl == "ok skip":
        return None if impl == "ok skip" else "unexpected answer"
    A = pairs_of(a)
    B = pairs_of(b) if b else []
    pts = sorted({min(0x10FFFF, max(0, x + d)) for x in (a + (b or [])) for d in (-1, 0, 1)} | {0, 1, 255, 256, 0x10FFFF})
    op = kind[4:]
    if op == "match":
        bits = impl.split()[1]
        want = "".join("1" if (in_pairs(A, c) != nb) else "0" for c in b)
        return None if bits == want or (bits == "-" and not want) else "match differs from membership: want %s" % want
    body = impl[3:]
    res = parse_dump(body.split("|")[-1].strip()) if "|" in body else parse_dump(body)
    for c in pts:
        ina, inb = in_pairs(A, c), in_pairs(B, c)
        want = {"add": ina, "compact": ina, "merge": ina or inb, "sub": (ina and inb) if nb else (ina and not inb),
                "int": ina and inb, "comp": not ina}[op]
        if op in ("sub", "int") and (not A or not B):
            want = ina                     # the C++ returns early when either token has no ranges (documented no-op)
        if in_pairs(res, c) != want:
            return "point U+%X: result %s, set semantics %s" % (c, in_pairs(res, c), want)
    if (op in ("compact", "comp") or (op in ("sub", "int") and A and B) or "|" in body) and len(A) > 1:
        for (l1, h1), (l2, h2) in zip(res, res[1:]):
            if not (l1 <= h1 and h1 + 1 < l2):
                return "result not sorted/disjoint/non-adjacent"
    return None


def run_xp(ctx, xh, xm, found, texts, report, replay_group=None):
    """the XPath-flavoured (non-schema) API: metamorphic oracles O1..O7, Spec oracle O8, model O9 (gen/C11_xp.py)"""
    import C11_xp as X
    t0 = time.time()
    groups = [replay_group] if replay_group else X.gen(ctx)
    groups, n_empty = X.drop_empty_classes(groups, xm, ctx.coverage.get("_swbits", "000"))
    tagged_all, spans = [], []
    for gi, g in enumerate(groups):
        others = [groups[(gi + d) % len(groups)] for d in (1, 2)] if len(groups) > 2 else []
        tg = X.requests_for(g, ctx.rng, others)
        spans.append((len(tagged_all), len(tagged_all) + len(tg), tg))
        tagged_all += tg
    lines = [l for _, l in tagged_all]
    try:
        rc, ans, err = run_bin(xh, lines, 420 if ctx.tier == "quick" else 3000)
    except subprocess.TimeoutExpired:
        ctx.violation("harness-hang", {"what": "xp harness run did not finish"}, no_input=True)
        return
    if rc != 0 or len(ans) != len(lines):
        k = min(len(ans), len(lines) - 1)
        ctx.violation("harness-crash", {"what": "implementation harness crashed on the non-schema API", "rc": rc,
                                        "stderr": err[-1500:], "request": lines[k]})
        return
    kinds = ctx.coverage["input_distribution"]
    oracle_hits = {}
    spec_lines, spec_ref = [], []
    model_lines, model_ref = [], []
    for g, (a, b, tg) in zip(groups, spans):
        kinds[g["kind"]] = kinds.get(g["kind"], 0) + 1
        bad, f = X.evaluate(g, tg, ans[a:b])
        ctx.count(len(g["subj"]) * len(tg))
        if f is not None and any(x[:1] == "1" for x in f) and any(x[:1] == "0" for x in f):
            ctx.distinct(tg[0][1])
        for oracle, detail, line in bad:
            oracle_hits[oracle] = oracle_hits.get(oracle, 0) + 1
            if oracle == "O7-replace-groups":
                found.setdefault("F31", []).append(("xp", line, detail))
                continue
            if oracle == "F37-dotstar":
                found.setdefault("F37", []).append(("xp", line, detail))
                continue
            if oracle == "F34-fixed-end":
                found.setdefault("F34", []).append(("xp", line, detail))
                continue
            if oracle == "F33-headchar":
                found.setdefault("F33", []).append(("xp", line, detail))
                continue
            report("xp-" + oracle, {"request": line, "oracle": oracle, "detail": detail,
                                    "xp_group": {k: g[k] for k in ("kind", "pat", "opts", "subj", "deco", "plain", "ngroups", "fc_lost")},
                                    "what": "non-schema API: metamorphic oracle %s violated (see gen/C11_xp.py)" % oracle})
        if f is None:
            continue
        S = ",".join(hx(s) for s in g["subj"])
        if g.get("expr") is not None and not g["deco"] and "i" not in g["opts"] and "x" not in g["opts"]:
            spec_lines.append("spec %s %s" % (X.any_window_ast(X.ast_xp(g["expr"], "s" in g["opts"])), S))
            spec_ref.append((g, f, tg[0][1]))
        if g.get("expr") is not None and g["plain"] and not g["deco"] and "i" not in g["opts"] and "x" not in g["opts"]:
            model_lines.append("search %s %s %s %s" % (ctx.coverage.get("_swbits", "000"), "1" if "s" in g["opts"] else "0",
                                                     hx(g["pat"]), S))
            model_ref.append((g, f, tg[0][1]))
        if g.get("lit"):
            # a pure literal: python's own substring search is the oracle (leftmost occurrence)
            for k, s in enumerate(g["subj"]):
                pos = next((i for i in range(len(s) - len(g["lit"]) + 1) if s[i:i + len(g["lit"])] == g["lit"]), None)
                want = "0" if pos is None else "1:%d_%d" % (X.units(s[:pos]), X.units(s[:pos + len(g["lit"])]))
                if f[k] != want:
                    report("xp-literal", {"request": tg[0][1], "subject_index": k, "impl": f[k], "spec": want,
                                          "xp_group": {k2: g[k2] for k2 in ("kind", "pat", "opts", "subj", "deco", "plain", "ngroups", "lit", "fc_lost")},
                                          "what": "literal pattern: window found differs from the leftmost occurrence"})
                    break
    if spec_lines:
        rc3, sp, _ = run_bin(xm, spec_lines)
        for (g, f, line), so in zip(spec_ref, sp):
            bits = so.split()[1] if so.startswith("ok") else ""
            for k, (x, y) in enumerate(zip(f, bits)):
                if x[:1] == "C":
                    found.setdefault("F28", []).append(("xp", line, "diverges on subject #%d" % k))
                    break
                if x[:1] != y:
                    report("xp-O8-spec", {"request": line, "subject_index": k, "impl": x, "spec": y,
                                          "ast": X.any_window_ast(X.ast_xp(g["expr"], "s" in g["opts"])),
                                          "xp_group": {k2: g[k2] for k2 in ("kind", "pat", "opts", "subj", "deco", "plain", "ngroups", "fc_lost")},
                                          "what": "non-schema matches(): 'some window matches' differs from the Spec (dmatch_re on ANY* r ANY*)"})
                    break
    n_model = 0
    if model_lines:
        rc4, mo, err4 = run_bin(xm, model_lines)
        if rc4 != 0 or len(mo) != len(model_lines):
            ctx.violation("model-crash", {"what": "search model crashed", "stderr": err4[-1500:]}, no_input=True)
            return
        for (g, f, line), m in zip(model_ref, mo):
            if not m.startswith("ok"):
                report("xp-O9-model", {"request": line, "impl": f[:5], "model": m, "what": "model rejects an expression the implementation accepts"})
                continue
            mres = m.split()[1].split(";") if len(m.split()) > 1 else []
            for k, (x, y) in enumerate(zip(f, mres)):
                n_model += 1
                if y == "C" or x == "C":
                    if x != y:
                        report("xp-O9-model", {"request": line, "subject_index": k, "impl": x, "model": y, "what": "divergence differs"})
                        break
                    continue
                s = g["subj"][k]
                want = "0"
                if y != "0":
                    a, b = map(int, y.split("_"))
                    want = "%d_%d" % (X.units(s[:a]), X.units(s[:b]))
                got = "0" if x[:1] == "0" else x[2:].split(",")[0]
                if got != want and X.dotstar_eol(g, s):
                    found.setdefault("F37", []).append(("xp", line, "subject #%d: window %s, leftmost window %s" % (k, got, want)))
                    break
                if got != want:
                    report("xp-O9-model", {"request": line, "subject_index": k, "impl": x, "model": want,
                                           "xp_group": {k2: g[k2] for k2 in ("kind", "pat", "opts", "subj", "deco", "plain", "ngroups", "fc_lost")},
                                           "what": "non-schema matches(): window found differs from the search model (Model11.xsearch_tok)"})
                    break
    ctx.coverage["xp"] = {"groups": len(groups), "dropped_empty_class_F32": n_empty, "requests": len(lines), "oracle_hits": oracle_hits,
                          "spec_checked_groups": len(spec_lines), "model_checked_groups": len(model_lines),
                          "model_checked_subjects": n_model, "seconds": round(time.time() - t0, 1)}
    ctx.coverage["traces_validated_against_impl"] += len(lines)


def run_prep(ctx, xh, xm, report, replay_case=None):
    """fMinLength / fFirstChar of the compiled expression against ModelPre11.prepare_info and the Spec oracles P1..P3
    (gen/C11_prep.py).  A difference from the model that no Spec oracle turns into a failing input is reported as a
    broken correspondence."""
    import C11_prep as P
    t0 = time.time()
    swbits = ctx.coverage.get("_swbits", "000")
    cases = [replay_case] if replay_case else P.gen(ctx)
    if not cases:
        return
    il = [P.impl_line(c) for c in cases]
    ml = [P.model_line(c, swbits) for c in cases]
    words = [P.words_for(c, ctx.rng) for c in cases]
    sl = [P.spec_line(c, w) for c, w in zip(cases, words)]
    try:
        rc, ia, err = run_bin(xh, il, 300)
    except subprocess.TimeoutExpired:
        ctx.violation("harness-hang", {"what": "prep harness run did not finish"}, no_input=True)
        return
    if rc != 0 or len(ia) != len(il):
        ctx.violation("harness-crash", {"what": "implementation harness crashed while compiling an expression", "rc": rc,
                                        "stderr": err[-1500:], "request": il[min(len(ia), len(il) - 1)]})
        return
    rc2, ma, err2 = run_bin(xm, ml + sl)
    if rc2 != 0 or len(ma) != 2 * len(cases):
        ctx.violation("model-crash", {"what": "prep model crashed", "stderr": err2[-1500:]}, no_input=True)
        return
    ma, sa = ma[:len(cases)], ma[len(cases):]
    kinds = ctx.coverage["input_distribution"]
    diverged, n_fc, n_words, n_spec_bad = [], 0, 0, 0
    for c, req, a, m, ws, so in zip(cases, il, ia, ma, words, sa):
        kinds[c["kind"]] = kinds.get(c["kind"], 0) + 1
        ctx.count(1 + len(ws))
        bits = so.split()[1] if so.startswith("ok") and len(so.split()) > 1 else ""
        n_words += bits.count("1")
        payload = {"request": req, "prep_case": c, "impl": a, "model": m}
        if not a.startswith("ok"):
            if m.startswith("ok"):
                report("prep-compile", dict(payload, what="the implementation rejects an expression of the common subset "
                                                         "that the parser model accepts"))
            continue
        p = P.parse_prep(a)
        if p and p[1] is not None:
            n_fc += 1
            ctx.distinct(req)
        bad = P.judge(c, a, ws, bits)
        if bad:
            n_spec_bad += 1
            report("prep-" + bad[0], dict(payload, oracle=bad[0], detail=bad[1], witness_word=bad[2],
                                          what="pre-filter data of the compiled expression excludes a word of its language "
                                               "(confirmed by the Spec matcher): matches() answers false without matching"))
            continue
        want = m
        if m.startswith("ok") and ("X" in c["opts"] or "H" in c["opts"]):
            want = " ".join(m.split()[:2] + ["-"])
        if a != want:
            diverged.append((req, a, want, c))
    if diverged and not n_spec_bad:
        req, a, m, c = diverged[0]
        ctx.violation("correspondence", {"what": "fMinLength / fFirstChar of the compiled expression differ from ModelPre11.prepare_info "
                                         "but no Spec oracle (P1..P3) found a word of the language they exclude: the tie of the "
                                         "pre-filter model no longer holds", "request": req, "prep_case": c, "impl": a, "model": m,
                                         "count": len(diverged)}, no_input=True)
    ctx.coverage["prep"] = {"cases": len(cases), "with_headchar_set": n_fc, "spec_confirmed_words": n_words,
                            "model_differences": len(diverged), "seconds": round(time.time() - t0, 1)}
    ctx.coverage["traces_validated_against_impl"] = ctx.coverage.get("traces_validated_against_impl", 0) + len(il)


def run(ctx):
    t0 = time.time()
    ctx.coverage["trusted_base"] = list(V.GLOBAL_TRUSTED_BASE) + [
        "modelled rather than verified: the \\s \\d \\w \\i \\c sets are read back from the built library (Gen/GenC11.v) and "
        "only their ASCII part, ordering and complement relation are proved against the Spec; category/block escapes "
        "\\p{..}, options other than X (i s m x, XPath-flavoured API), tokenize/replace, Boyer-Moore and first-character "
        "pre-filters are not modelled; the explicit-stack variant of match() for subjects over 256 units is covered by the "
        "correspondence only; sortRanges is modelled by its result (the sorted permutation)"]
    ctx.assumptions = ["patterns and subjects are sequences of Unicode scalar values (no unpaired surrogates)",
                       "XMLInt32 arithmetic on code points does not overflow (values <= 0x10FFFF)"]
    ctx.build_lib()
    xh = ctx.harness("C11")
    # 2. translate: named sets from the built library
    try:
        TN.generate(xh)
        ctx.catdata = TC.generate(xh)
    except Exception as e:
        ctx.note("translator failed: %r" % (e,))
        ctx.violation("translator", {"what": "cannot read the multi-character escape sets back from the library",
                                     "error": repr(e)}, no_input=True)
        return
    # 3. prove
    ok, out, failed = ctx.prove(["Base", "Gen", "C11"],
                                ["theories/C11/Properties_C11.vo", "theories/C11/Extract_C11.vo"],
                                props_file="theories/C11/Properties_C11.v")
    proof_broken = not ok
    if proof_broken:
        ctx.note("proof obligations failed: %s" % failed)
        ctx.note(out[-1500:])
    if not os.path.exists(os.path.join(V.VERIF, "ocaml", "C11", "gen_c11.ml")):
        ctx.violation("obligation", {"what": "model does not compile, nothing to extract", "output": out[-3000:]}, no_input=True)
        return
    xm = ctx.ocaml("C11", ["gen_c11"])
    # 4. requests
    replay_group = None
    replay_prep = None
    if ctx.replay:
        r = json.load(open(ctx.replay))
        reqs = [{"kind": "replay", "req": r["request"], "ast": r.get("ast"), "mode": r["request"].split()[0],
                 "pat": None, "strs": None, "expect": r.get("expect")}]
        rngs = []
        if r["request"].startswith("rng"):
            rngs, reqs = [tuple(r["rng_case"])], []
        if r.get("prep_case"):
            replay_prep = r["prep_case"]
            reqs = [{"kind": "replay", "req": "re X 000061 000061", "ast": "Sr000061000061", "mode": "re", "pat": None,
                     "strs": None}]
        if r.get("xp_group"):
            replay_group = dict(r["xp_group"])
            replay_group.setdefault("expr", None)
            reqs = [{"kind": "replay", "req": "re X 000061 000061", "ast": "Sr000061000061", "mode": "re", "pat": None,
                     "strs": None}]
    else:
        reqs = gen_requests(ctx)
        creqs, csample = category_requests(ctx)
        for r in creqs:
            r["req"] = "re X %s %s" % (hx(r["pat"]), strs_field(r["strs"]))
        reqs += creqs
        rngs = gen_ranges(ctx)
    lines = [r["req"] for r in reqs] + [x[1] for x in rngs]
    # which repairs does the tree under test carry?  (fixes/C11-*.patch; decided by the literal witnesses, so that the
    # model used for the correspondence is the model of *this* tree: faithful switches off, repaired switches on)
    probe = ["rng add 000001000005000003000009 -",
             "re X %s %s" % (hx(print_re(WITNESS[3][1])), hx([0x62, 0x62])),
             "re X %s %s" % (hx([46]), hx([0x2028])),
             "re X %s ." % hx([92, 49])]
    _, pw, _ = run_bin(xh, probe, 60)
    f30_fixed = len(pw) == 4 and pw[3] == "parse-error"       # back-reference rejected with ParseException (F30 repaired)
    swbits = "".join(["1" if pw[0].endswith("000009") else "0", "1" if pw[1] == "ok 1" else "0",
                      "1" if pw[2] == "ok 1" else "0"]) if len(pw) == 4 else "000"
    ctx.coverage["repairs_present"] = {"F26_addRange": swbits[0], "F27_overlap": swbits[1], "F29_dot": swbits[2]}

    def model_line(l):
        a = l.split()
        if a[0] in ("re", "re1", "reil"):
            return "rex %s %s %s" % (swbits, a[2], a[3])
        if a[0] == "xsd":
            return "rex %s %s %s" % (swbits, a[1], a[2])
        if a[0] == "rng" and swbits[0] == "1":
            return "rngx" + l[3:]
        return l
    try:
        rc1, impl, err1 = run_bin(xh, lines, 420 if ctx.tier == 'quick' else 3000)
    except subprocess.TimeoutExpired:
        ctx.violation("harness-hang", {"what": "implementation harness did not finish (runaway match?)"}, no_input=True)
        return
    if rc1 != 0 or len(impl) != len(lines):
        k = min(len(impl), len(lines) - 1)
        ctx.violation("harness-crash", {"what": "implementation harness crashed or lost lines", "rc": rc1,
                                        "stderr": err1[-2000:], "answered": len(impl), "asked": len(lines),
                                        "request": lines[k]})
        return
    rc2, model, err2 = run_bin(xm, [model_line(l) for l in lines])
    if f30_fixed:
        model = ["parse-error" if m == "exc RuntimeException" else m for m in model]
    if rc2 != 0 or len(model) != len(lines):
        ctx.violation("model-crash", {"what": "model driver crashed", "stderr": err2[-2000:]}, no_input=True)
        return
    # the oracle: dmatch_re on the generator's syntax tree
    spec_idx = [i for i, r in enumerate(reqs) if r.get("ast")]
    rc3, spec, err3 = run_bin(xm, ["spec %s %s" % (reqs[i]["ast"], reqs[i]["req"].split()[-1]) for i in spec_idx])
    if rc3 != 0 or len(spec) != len(spec_idx):
        ctx.violation("model-crash", {"what": "spec oracle crashed", "stderr": err3[-2000:]}, no_input=True)
        return
    spec_of = dict(zip(spec_idx, spec))
    kinds, answers = {}, {"accepted": 0, "rejected": 0, "parse-error": 0, "diverged": 0}
    viol = 0
    unexplained = []
    suspects = []                      # (index, reason) impl == model != spec  -> attribution
    found = {}

    def report(tag, payload):
        nonlocal viol
        viol += 1
        if viol <= 6:
            ctx.violation(tag, payload)

    for i, r in enumerate(reqs):
        a, m = impl[i], model[i]
        ctx.count(max(1, len(a) - 3) if a.startswith("ok") else 1)
        kinds[r["kind"]] = kinds.get(r["kind"], 0) + 1
        if a.startswith("ok"):
            bits = a.split()[1]
            answers["accepted"] += bits.count("1")
            answers["rejected"] += bits.count("0")
            answers["diverged"] += bits.count("C")
            if "1" in bits and "0" in bits:
                ctx.distinct(r["req"])
        else:
            answers["parse-error"] += 1
            ctx.distinct(r["req"])
        if "UNSTABLE" in a:
            report("stateless", {"request": r["req"], "impl": a, "what": "T11_stateless: the same compiled expression gave "
                                 "different answers when used repeatedly / interleaved"})
            continue
        s = spec_of.get(i)
        exp = r.get("expect")
        if s is not None and a != s:
            if a == m:
                suspects.append(i)
            else:
                report("divergence", {"request": r["req"], "ast": r["ast"], "impl": a, "model": m, "spec": s,
                                      "what": "implementation differs from the model and from the Spec (dmatch_re)"})
        elif exp is not None and a != exp:
            if a == m and r["kind"] == "malformed" and a.startswith("exc "):
                found.setdefault("F30", []).append(i)
            else:
                report("malformed-accepted", {"request": r["req"], "impl": a, "model": m, "expect": exp,
                                              "what": "malformed expression not rejected with ParseException"})
        elif a != m:
            if s is not None or exp is not None:
                unexplained.append((r["req"], a, m))       # impl satisfies the Spec but the model differs
            else:
                # no oracle for this request (mutated text): decide with the repaired, proved matcher on the same text
                unexplained.append((r["req"], a, m))
    # --- attribution of impl == model != Spec ---
    if suspects:
        combos = [("F26", "rex 100"), ("F27", "rex 010"), ("F29", "rex 001"), ("F15", "fixed 000"),
                  ("F15+F29", "fixed 001"), ("F15+F26", "fixed 100"), ("F15+F26+F29", "fixed 101"),
                  ("F26+F27", "rex 110"), ("F26+F29", "rex 101"), ("F27+F29", "rex 011")]
        alt_lines = []

        def with_present(cmd):
            c, b = cmd.split()
            return c + " " + "".join("1" if x == "1" or y == "1" else "0" for x, y in zip(b, swbits))
        for i in suspects:
            tail = " ".join(reqs[i]["req"].split()[-2:])
            for _, cmd in combos:
                alt_lines.append("%s %s" % (with_present(cmd), tail))
        rc4, alt, err4 = run_bin(xm, alt_lines)
        if rc4 != 0 or len(alt) != len(alt_lines):
            ctx.violation("model-crash", {"what": "attribution run crashed", "stderr": err4[-2000:]}, no_input=True)
            return
        for n, i in enumerate(suspects):
            a, s = impl[i], spec_of[i]
            res = alt[n * len(combos):(n + 1) * len(combos)]
            if not (a.startswith("ok") and s.startswith("ok")):
                report("shared-defect", {"request": reqs[i]["req"], "ast": reqs[i]["ast"], "impl": a, "spec": s,
                                         "what": "implementation and model reject/accept the expression text differently from the Spec"})
                continue
            ab, sb = a.split()[1], s.split()[1]
            altb = [x.split()[1] if x.startswith("ok") else None for x in res]
            for j, (x, y) in enumerate(zip(ab, sb)):
                if x == y:
                    continue
                if x == "C":
                    found.setdefault("F28", []).append(i)
                    continue
                who = None
                for (fid, _), bb in zip(combos, altb):
                    if bb is not None and j < len(bb) and bb[j] == y:
                        who = fid
                        break
                if who is None:
                    report("shared-defect", {"request": reqs[i]["req"], "ast": reqs[i]["ast"], "impl": a, "spec": s,
                                             "string_index": j, "what": "implementation == faithful model != Spec and no "
                                             "repair switch of a known finding explains it"})
                    break
                for fid in who.split("+"):
                    found.setdefault(fid, []).append(i)
    if not ctx.replay:
        # the category map itself (ICU through XMLUniCharacter::getType) against an independent Unicode database
        import unicodedata
        d = ctx.catdata
        ndiff, first = 0, None
        for a_, b_, k_ in d["rle"]:
            for c_ in range(a_, b_ + 1):
                if unicodedata.category(chr(c_)) != d["names"][k_]:
                    ndiff += 1
                    first = first or (c_, d["names"][k_], unicodedata.category(chr(c_)))
        ctx.coverage["category_map_vs_python_unicodedata"] = {"unicodedata_version": unicodedata.unidata_version,
                                                              "bmp_code_units_differing": ndiff, "first": first}
        if ndiff > 400:
            report("category-map", {"request": "cats", "what": "XMLUniCharacter::getType disagrees with the Unicode database of the "
                                    "python runtime on %d BMP code units (more than a version skew explains)" % ndiff,
                                    "first": first})
        # supplementary planes: reference = python unicodedata
        sreq = supplementary_requests(ctx)
        _, sout, _ = run_bin(xh, [x[0] for x in sreq], 120)
        nbad = 0
        for (line, want, what), got in zip(sreq, sout):
            ctx.count(len(want))
            if got != "ok " + want:
                nbad += 1
                found.setdefault("F35", []).append(("xp", line, "%s on the supplementary sample: %s, Unicode says %s" % (what, got, want)))
        ctx.coverage["supplementary_category_requests"] = {"requests": len(sreq), "differing": nbad}
    # F30 witness (exception class): back-reference and broken surrogate in schema mode
    if not ctx.replay:
        rcw, w, _ = run_bin(xh, ["re X %s ." % hx([92, 49]), "re X %s ." % hx([0xD800, 0x61])])
        if w and (w[0] != "parse-error" or w[1] != "parse-error"):
            found.setdefault("F30", []).append(-1)
    # --- range algebra ---
    base = len(reqs)
    for n, (kind, req, a, b, nb) in enumerate(rngs):
        ia, ma = impl[base + n], model[base + n]
        ctx.count()
        kinds[kind] = kinds.get(kind, 0) + 1
        if a:
            ctx.distinct(req)
        bad = range_spec_ok(kind, req, a, b, nb, ia)
        if ia != ma:
            if bad:
                report("divergence", {"request": req, "rng_case": [kind, req, a, b, nb], "impl": ia, "model": ma, "spec": bad,
                                      "what": "RangeToken differs from the model and from set semantics"})
            else:
                unexplained.append((req, ia, ma))
        elif bad:
            # impl == model != set semantics: attributed to F26 iff the model with the repaired addRange is right
            _, fx, _ = run_bin(xm, ["rngx" + req[3:]])
            if fx and range_spec_ok(kind, req, a, b, nb, fx[0]) is None:
                found.setdefault("F26", []).append(base + n)
            else:
                report("shared-defect", {"request": req, "rng_case": [kind, req, a, b, nb], "impl": ia, "spec": bad,
                                         "what": "RangeToken == model != set semantics, not explained by F26"})
    if unexplained and not viol:
        req, a, m = unexplained[0]
        ctx.violation("correspondence", {"what": "model and implementation differ but the Spec oracle found no failing input: "
                                         "correspondence xh_C11~xm_C11 no longer checks", "request": req, "impl": a,
                                         "model": m, "count": len(unexplained)}, no_input=True)
    # --- the non-schema (XPath-flavoured) API ---
    ctx.coverage["input_distribution"] = kinds
    ctx.coverage["_swbits"] = swbits
    if not ctx.replay:
        # F32 witness, in a process of its own (the overrun corrupts the heap)
        try:
            rcw, ow, _ = run_bin(xh, ["xp b i %s %s" % (hx([ord(c) for c in "[a-[a]]"]), hx([0x61]))], 60)
            if rcw == 0 and ow and ow[0].startswith("ok"):
                rcw, ow, _ = run_bin(xh, ["xp b - %s %s" % (hx([ord(c) for c in "([a-[a]]b|a)"]), hx([0x61]))], 60)
        except subprocess.TimeoutExpired:
            rcw, ow = -9, []
        if rcw != 0 or not ow or not ow[0].startswith("ok"):
            found.setdefault("F32", []).append(("xp", "xp b i %s %s" % (hx([ord(c) for c in "[a-[a]]"]), hx([0x61])),
                                                "harness rc=%s" % rcw))
    if not ctx.replay:
        # F36: option i must not remove matches of a positive category escape
        pl = hx([ord(c) for c in "\\p{L}+"])
        _, ow, _ = run_bin(xh, ["xp b - %s %s" % (pl, hx([0x41, 0x62])), "xp b i %s %s" % (pl, hx([0x41, 0x62])),
                               "xp b i %s %s" % (hx([ord(c) for c in "\\p{Lu}"]), hx([0x41]))], 60)
        if len(ow) == 3 and ow[0] == "ok 1" and (ow[1] != "ok 1" or ow[2] != "ok 1"):
            found.setdefault("F36", []).append(("xp", "xp b i %s %s" % (pl, hx([0x41, 0x62])), "without i: %s, with i: %s" % (ow[0], ow[1])))
    if not ctx.replay or replay_group:
        run_xp(ctx, xh, xm, found, None, report, replay_group)
    if not ctx.replay or replay_prep:
        run_prep(ctx, xh, xm, report, replay_prep)
    ctx.coverage.pop("_swbits", None)
    # --- findings ---
    texts = {
        "F15": "backtracking matcher commits to the first completion (schema mode then demands it ends at the limit): "
               "`a*(ab)?` rejects \"ab\", `(ab|a|bb)*` rejects \"abb\"",
        "F26": "RangeToken::addRange drops a range that starts inside the last range and ends beyond it: `[a-ec-i]` rejects \"h\"",
        "F27": "doTokenOverlap wrongly reports no overlap (negated class as next op; supplementary first character), the "
               "closure becomes possessive: `[b]*[^a]` rejects \"bb\"",
        "F28": "nested closure over an optional body recurses without bound when the continuation fails: `(a*)*b` on \"a\" "
               "overflows the stack (crash)",
        "F29": "'.' also excludes U+2028/U+2029 and, by 16-bit truncation in isEOLChar, supplementary characters such as U+1000A",
        "F31": "replace()/tokenize() bookkeeping: allMatches copies the previous Match, so a group that does not take part in "
               "a later match keeps the previous match's positions: (b)|c on \"bcb\" with replacement [$0|$1] gives [c|b]",
        "F32": "option i and a character class that ends up empty (e.g. [a-[a]]): RangeToken::getCaseInsensitiveToken loops "
               "to fElemCount - 1 with unsigned fElemCount == 0 and writes past its buffer; the constructor crashes",
        "F33": "the first-character pre-filter (switched off by option H) is not a necessary condition in exactly two classes: "
               "(a) Token::analyzeFirstCharacter discards the FC_ANY of a '.' (union that saw another branch first, or closure): "
               "(a|.)b misses \"zb\"; (b) the match has to start on a supplementary character (high surrogate in the set, "
               "matchStart left on the low surrogate): [b-U+10000]+ misses U+10000",
        "F34": "non-schema matches(s, &Match) on an expression that is a single literal (Boyer-Moore-only path): the end position "
               "is start + length of the pattern TEXT, not of the literal: b{1} on \"b\" reports the window 0..4, \\. reports one too many",
        "F35": "category escapes and \\w \\d ignore the supplementary planes: every character above U+FFFF is Cn for \\p{Cn} but in "
               "no one-letter class (not even \\p{C}), \\p{L} rejects U+10000 and U+20000, \\d rejects U+1D7CE, \\w accepts U+10FFFF",
        "F36": "with option i a category escape matches nothing: UnicodeRangeFactory installs a dummy token (range -2..-1) as the "
               "case-insensitive twin of every \\p{..} token: \\p{L}+ matches \"Ab\" without i and not with i",
        "F37": "matches() special-cases a leading '.*' (no option s): it only tries start positions that follow an end-of-line "
               "character and never one that holds such a character, and it reads the unit at the window end: '.*' on \"\\n\" "
               "reports the window 1..1 instead of 0..0, and an empty window before a line end does not match at all",
        "F30": "malformed schema-mode expressions rejected with the wrong exception: `\\1` throws RuntimeException, an "
               "unpaired high surrogate throws a bare XMLErrs code instead of ParseException",
    }
    for fid in sorted(found):
        idx = found[fid]
        if ctx.find_known(fid):
            ctx.known_finding(fid, "%s; %d generated cases of this class" % (texts.get(fid, ""), len(idx)))
        elif isinstance(idx[0], tuple):
            ctx.violation(fid, {"request": idx[0][1], "detail": idx[0][2], "what": texts.get(fid, fid)})
        else:
            i = idx[0]
            req = lines[i] if i >= 0 else "re X %s ." % hx([92, 49])
            ctx.violation(fid, {"request": req, "ast": reqs[i].get("ast") if 0 <= i < len(reqs) else None,
                                "impl": impl[i] if i >= 0 else None, "spec": spec_of.get(i) if i >= 0 else "parse-error",
                                "what": texts.get(fid, fid)})
    ctx.coverage["traces_validated_against_impl"] = ctx.coverage.get("traces_validated_against_impl", 0) + len(lines)
    ctx.coverage["input_distribution"] = kinds
    ctx.coverage["answers"] = answers
    ctx.coverage["spec_oracle_checked"] = len(spec_idx) + len(rngs)
    ctx.coverage["findings_attributed"] = {k: len(v) for k, v in found.items()}
    for k in (5, len(reqs) // 2, len(reqs) - 1):
        if 0 <= k < len(reqs):
            ctx.sample({"kind": reqs[k]["kind"], "request": reqs[k]["req"][:200], "impl": impl[k][:80], "model": model[k][:80]})
    if proof_broken and not ctx.violations:
        ctx.violation("obligation", {"what": "Coq obligation no longer checks and no failing input was found by the "
                                     "correspondence sweeps", "failed": failed, "output": out[-3000:]}, no_input=True)
    elif proof_broken:
        ctx.note("proof obligation failed; a concrete failing input was found by the correspondence")
    ctx.coverage["rule"] = ("expressions drawn from the schema-dialect grammar (literals incl. escaped metacharacters and "
                            "supplementary-plane characters, classes with ranges/negation/subtraction/named escapes, '.', "
                            "groups, alternation incl. empty branches, ? * + {n} {n,} {n,m}) to depth 4, each against ALL "
                            "strings over its alphabet plus one foreign character up to length 5 (4 for 4 symbols) + random "
                            "longer ones + 255..300-unit subjects; evaluations = (expression, string) pairs; a request is "
                            "non-trivial when it accepts some and rejects some strings or is rejected as malformed; distinct "
                            "by request text.  Malformed list + seeded mutations; range algebra on seeded range lists")
    ctx.coverage["exhaustive"] = False
    ctx.note("correspondence: %d requests, %d suspects, %d unexplained, %.1fs" % (len(lines), len(suspects), len(unexplained),
                                                                              time.time() - t0))
